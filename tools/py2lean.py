#!/usr/bin/env python3
"""py2lean: translate a restricted Python subset (AST of /repo's CURRENT source) into shallow-embedded, total Lean
definitions -> lean/MokapotVerif/Generated/Src.lean (namespace Mk.Src).

Called from tools/gen_repo.py:generate on every run, so the definitions always say what $MOKAPOT_REPO says now.  The
hand-written models (lean/MokapotVerif/Model/*.lean) are tied to these definitions by refinement theorems
(Props/C*Src.lean: `Mk.Src.f args = Mk.model args`); a semantic change of the source changes the generated definition
and the theorem stops compiling.

THE SUBSET (anything else -> the function is replaced by the marker `def f : Unit := ()` and its theorem fails)
  * `def f(p1, p2, ...)`: positional parameters; their types come from TARGETS below (Python is untyped) or from the
    source annotations `int | bool | str`; defaults are ignored (the translated function takes every argument);
    a docstring and comments are skipped; the listed parameter names must be the ones in the source.
  * types: int = Int, bool = Bool, str = List Char, list[T] = List T, set[T] = List T (insertion log), tuple = product,
    a capital letter = a type variable.
  * statements: `x = e`, `x: T = e`, `x += e`; `if / elif / else`; `for x in range(..) | enumerate(xs) | xs` (also
    `for i, x in ..`) with `continue` and `break`; `return e`; `xs.append(e)`, `s.add(e)`; `pass`.
  * expressions: names, int / str / bool literals, `+ - *` on int, `+` on str / list, unary `-`, comparisons (chained
    too) on int, `==`/`!=`, `in`/`not in` on lists, `and / or / not` (truthiness of int, str, list), `len`,
    `xs[i]` (raises), slices `xs[a:b]`, `xs[a:]`, `xs[:b]` (no step), `range` (1-3 arguments; step 0 raises),
    `enumerate`, `s.split(sep)` (raises on an empty separator), `sep.join(xs)`, `s.startswith(p)`, `s.strip()`,
    `set()`, `{a, b}`, `s.union(t)`, `[a, b]`, `(a, b)`, `a if c else b`,
    `[e for x in it if c]` (one generator).
  * an operation that can raise is evaluated first in its statement (hoisted into an `Option` bind); it is therefore
    rejected where Python would evaluate it conditionally (right of `and`/`or`, in a conditional expression, in a
    comprehension body).

THE TRANSLATION
  * a statement list becomes a chain of `let`s ending in the value of the block: the returned value (function level),
    `Step.next st` at the end of a loop body / at `continue`, `Step.brk st` at `break`.
  * `for x in it: body` becomes `Py.forT (f_loopN frees..) it st` (or `Py.forM ..` : Option, when the body can raise),
    where `f_loopN` is the lambda-lifted body `frees.. -> st -> x -> Step st`, and `st` is the tuple of the variables
    that are assigned in the body and exist before the loop (loop-carried).  Variables first assigned inside the body
    are local to one iteration; using one before it is assigned in the iteration, or after the loop, is rejected.
  * `if` in the middle of a block: when neither branch can leave the block or raise, the variables it assigns are
    merged (`let (x) := if c then .. else ..`); otherwise the rest of the block is copied into both branches.
  * a function that contains an operation that can raise returns `Option T` (`none` = it raised).

What is TRUSTED: this translator and Model/SrcPrelude.lean (the reading of the Python primitives).
"""
from __future__ import annotations

import ast
from pathlib import Path

VERSION = "py2lean-1"

# what to translate; `lean` = name of the definition in namespace Mk.Src
TARGETS = [
    dict(file="mokapot/parsers/fasta.py", func="_cleave", lean="cleave",
         params=dict(sequence="str", sites="list[int]", missed_cleavages="int", min_length="int", max_length="int",
                     semi="bool", clip_nterm_met="bool"),
         locals=dict(peptides="set[str]")),
    dict(file="mokapot/parsers/pin_to_tsv.py", func="convert_line_pin_to_tsv", lean="convert_line_pin_to_tsv",
         params=dict(line="str", idx_protein_col="int", n_col="int", sep_column="str", sep_protein="str"),
         locals=dict()),
    dict(file="mokapot/utils.py", func="create_chunks", lean="create_chunks",
         params=dict(data="list[T]", chunk_size="int"), locals=dict()),
]


class Unsupported(Exception):
    pass


# ---------------------------------------------------------------- types
def parse_type(s):
    return _ty(ast.parse(s, mode="eval").body)


def _ty(n):
    if isinstance(n, ast.Name):
        if n.id in ("int", "bool", "str"):
            return (n.id,)
        if len(n.id) == 1 and n.id.isupper():
            return ("var", n.id)
        if n.id == "list":
            return ("list", None)
    if isinstance(n, ast.Subscript) and isinstance(n.value, ast.Name):
        if n.value.id in ("list", "set"):
            return (n.value.id, _ty(n.slice))
        if n.value.id == "tuple" and isinstance(n.slice, ast.Tuple):
            return ("tuple", tuple(_ty(e) for e in n.slice.elts))
    raise Unsupported(f"type {ast.dump(n)}")


def lean_ty(t):
    k = t[0]
    if k == "int":
        return "Int"
    if k == "bool":
        return "Bool"
    if k == "str":
        return "Str"
    if k == "var":
        return t[1]
    if k in ("list", "set"):
        if t[1] is None:
            raise Unsupported("container of unknown element type")
        return f"List ({lean_ty(t[1])})" if t[1][0] in ("list", "set", "tuple") else f"List {lean_ty(t[1])}"
    if k == "tuple":
        return "(" + " × ".join(lean_ty(e) for e in t[1]) + ")"
    raise Unsupported(f"type {t}")


def ty_vars(t, acc):
    if t[0] == "var" and t[1] not in acc:
        acc.append(t[1])
    elif t[0] in ("list", "set") and t[1] is not None:
        ty_vars(t[1], acc)
    elif t[0] == "tuple":
        for e in t[1]:
            ty_vars(e, acc)
    return acc


def lean_char(c):
    if c == "'":
        return "'\\''"
    if c == "\\":
        return "'\\\\'"
    if 32 <= ord(c) < 127:
        return f"'{c}'"
    return f"(Char.ofNat {ord(c)})"


def ind(text, n=2):
    pad = " " * n
    return "\n".join(pad + ln if ln else ln for ln in text.split("\n"))


# ---------------------------------------------------------------- AST scans
def may_raise(nodes):
    for s in nodes:
        for n in ast.walk(s):
            if isinstance(n, ast.Subscript) and not isinstance(n.slice, ast.Slice):
                return True
            if isinstance(n, ast.Call):
                if isinstance(n.func, ast.Attribute) and n.func.attr == "split":
                    return True
                if isinstance(n.func, ast.Name) and n.func.id == "range" and len(n.args) == 3:
                    return True
    return False


def has_escape(stmts):
    """can control leave this statement list other than by falling off its end (raising aside)?"""
    for s in stmts:
        if isinstance(s, (ast.Continue, ast.Break, ast.Return)):
            return True
        if isinstance(s, ast.If) and (has_escape(s.body) or has_escape(s.orelse)):
            return True
        if isinstance(s, ast.For):
            if any(isinstance(n, ast.Return) for b in s.body for n in ast.walk(b)):
                return True
    return False


MUTATORS = ("add", "append")


def assigned(stmts):
    out = []

    def add(n):
        if n not in out:
            out.append(n)

    def tgt(t):
        if isinstance(t, ast.Name):
            add(t.id)
        elif isinstance(t, (ast.Tuple, ast.List)):
            for e in t.elts:
                tgt(e)
        else:
            raise Unsupported("assignment target " + type(t).__name__)

    for s in stmts:
        for n in ast.walk(s):
            if isinstance(n, ast.Assign):
                for t in n.targets:
                    tgt(t)
            elif isinstance(n, (ast.AugAssign, ast.AnnAssign)):
                tgt(n.target)
            elif isinstance(n, ast.For):
                tgt(n.target)
            elif (isinstance(n, ast.Call) and isinstance(n.func, ast.Attribute) and n.func.attr in MUTATORS
                  and isinstance(n.func.value, ast.Name)):
                add(n.func.value.id)
    return out


def names_used(stmts):
    out = set()
    for s in stmts:
        for n in ast.walk(s):
            if isinstance(n, ast.Name):
                out.add(n.id)
    return out


# ---------------------------------------------------------------- the translator of one function
class Fn:
    def __init__(self, spec, fn: ast.FunctionDef, rel: str):
        self.spec, self.fn, self.rel = spec, fn, rel
        self.name = spec["lean"]
        self.defs = []          # lambda-lifted loop bodies (text), inner loops first
        self.nloop = 0
        self.ntmp = 0
        self.pending = []       # hoisted raising operations of the statement being translated: (tmp, option text)
        self.nohoist = 0
        self.local_ty = {k: parse_type(v) for k, v in spec.get("locals", {}).items()}

    # ---- expressions -------------------------------------------------------------------------------------
    def hoist(self, opt_text, ty):
        if self.nohoist:
            raise Unsupported("an operation that can raise is evaluated conditionally")
        self.ntmp += 1
        t = f"t{self.ntmp}"
        self.pending.append((t, opt_text))
        return t, ty

    def truthy(self, n, env):
        if isinstance(n, ast.BoolOp):
            op = " && " if isinstance(n.op, ast.And) else " || "
            parts = [self.truthy(n.values[0], env)]
            self.nohoist += 1
            try:
                parts += [self.truthy(v, env) for v in n.values[1:]]
            finally:
                self.nohoist -= 1
            return "(" + op.join(parts) + ")"
        if isinstance(n, ast.UnaryOp) and isinstance(n.op, ast.Not):
            return f"(!{self.truthy(n.operand, env)})"
        tx, ty = self.expr(n, env)
        if ty[0] == "bool":
            return tx
        if ty[0] == "int":
            return f"({tx} != 0)"
        if ty[0] in ("str", "list"):
            return f"(!({tx}).isEmpty)"
        raise Unsupported(f"truth value of a {ty[0]}")

    def expr(self, n, env):
        if isinstance(n, ast.Name):
            if n.id not in env:
                raise Unsupported(f"`{n.id}` is read where it is not definitely assigned (line {n.lineno})")
            return n.id, env[n.id]
        if isinstance(n, ast.Constant):
            v = n.value
            if isinstance(v, bool):
                return ("true" if v else "false"), ("bool",)
            if isinstance(v, int):
                return f"({v} : Int)", ("int",)
            if isinstance(v, str):
                return "([" + ", ".join(lean_char(c) for c in v) + "] : Str)", ("str",)
            raise Unsupported(f"constant {v!r}")
        if isinstance(n, ast.UnaryOp):
            if isinstance(n.op, ast.Not):
                return self.truthy(n, env), ("bool",)
            if isinstance(n.op, ast.USub):
                tx, ty = self.expr(n.operand, env)
                if ty[0] != "int":
                    raise Unsupported("unary minus on " + ty[0])
                return f"(-{tx})", ty
            raise Unsupported("unary " + type(n.op).__name__)
        if isinstance(n, ast.BoolOp):
            tx = self.truthy(n, env)
            for v in n.values:       # `a and b` is a bool only when its operands are
                self.nohoist += 1
                try:
                    save = self.ntmp
                    _, ty = self.expr(v, env)
                    self.ntmp = save
                finally:
                    self.nohoist -= 1
                if ty[0] != "bool":
                    raise Unsupported("`and`/`or` of non-bool operands used as a value")
            return tx, ("bool",)
        if isinstance(n, ast.BinOp):
            a, ta = self.expr(n.left, env)
            b, tb = self.expr(n.right, env)
            if ta[0] == "int" and tb[0] == "int":
                ops = {ast.Add: "+", ast.Sub: "-", ast.Mult: "*"}
                if type(n.op) in ops:
                    return f"({a} {ops[type(n.op)]} {b})", ("int",)
            if isinstance(n.op, ast.Add) and ta[0] in ("str", "list") and ta[0] == tb[0]:
                return f"({a} ++ {b})", self.unify(ta, tb)
            raise Unsupported(f"operator {type(n.op).__name__} on {ta[0]}, {tb[0]}")
        if isinstance(n, ast.Compare):
            parts = []
            left, tl = self.expr(n.left, env)
            for op, rn in zip(n.ops, n.comparators):
                right, tr = self.expr(rn, env)
                rel = {ast.Lt: "<", ast.LtE: "≤", ast.Gt: ">", ast.GtE: "≥"}
                if type(op) in rel:
                    if tl[0] != "int" or tr[0] != "int":
                        raise Unsupported("ordering comparison on " + tl[0])
                    parts.append(f"decide ({left} {rel[type(op)]} {right})")
                elif isinstance(op, (ast.Eq, ast.NotEq)):
                    self.unify(tl, tr)
                    parts.append(f"({left} {'==' if isinstance(op, ast.Eq) else '!='} {right})")
                elif isinstance(op, (ast.In, ast.NotIn)):
                    if tr[0] != "list":
                        raise Unsupported("`in` on " + tr[0])
                    self.unify(tr[1], tl)
                    c = f"({right}).contains {left}"
                    parts.append(f"({c})" if isinstance(op, ast.In) else f"(!({c}))")
                else:
                    raise Unsupported("comparison " + type(op).__name__)
                left, tl = right, tr
            return (parts[0] if len(parts) == 1 else "(" + " && ".join(parts) + ")"), ("bool",)
        if isinstance(n, ast.IfExp):
            c = self.truthy(n.test, env)
            self.nohoist += 1
            try:
                a, ta = self.expr(n.body, env)
                b, tb = self.expr(n.orelse, env)
            finally:
                self.nohoist -= 1
            return f"(if {c} then {a} else {b})", self.unify(ta, tb)
        if isinstance(n, ast.Subscript):
            v, tv = self.expr(n.value, env)
            if tv[0] not in ("str", "list"):
                raise Unsupported("subscript of a " + tv[0])
            if isinstance(n.slice, ast.Slice):
                if n.slice.step is not None:
                    raise Unsupported("slice with a step")
                lo = self.int_expr(n.slice.lower, env) if n.slice.lower is not None else None
                hi = self.int_expr(n.slice.upper, env) if n.slice.upper is not None else None
                if lo is None and hi is None:
                    return v, tv
                if lo is None:
                    return f"(pyUpTo {v} {hi})", tv
                if hi is None:
                    return f"(pyFrom {v} {lo})", tv
                return f"(pySlice {v} {lo} {hi})", tv
            i = self.int_expr(n.slice, env)
            if tv[0] == "str":
                return self.hoist(f"(Py.index? {v} {i}).map (fun c => [c])", ("str",))
            return self.hoist(f"Py.index? {v} {i}", tv[1])
        if isinstance(n, (ast.List, ast.Set)):
            kind = "list" if isinstance(n, ast.List) else "set"
            if not n.elts:
                return "[]", (kind, None)
            xs = [self.expr(e, env) for e in n.elts]
            t = xs[0][1]
            for _, t2 in xs[1:]:
                t = self.unify(t, t2)
            return "[" + ", ".join(x for x, _ in xs) + "]", (kind, t)
        if isinstance(n, ast.Tuple):
            xs = [self.expr(e, env) for e in n.elts]
            if len(xs) < 2:
                raise Unsupported("tuple of fewer than two elements")
            return "(" + ", ".join(x for x, _ in xs) + ")", ("tuple", tuple(t for _, t in xs))
        if isinstance(n, ast.ListComp):
            if len(n.generators) != 1 or n.generators[0].is_async:
                raise Unsupported("comprehension with several generators")
            g = n.generators[0]
            it, tit = self.iterable(g.iter, env)
            benv = dict(env)
            pat = self.bind_target(g.target, tit, benv)
            self.nohoist += 1
            try:
                for c in g.ifs:
                    it = f"(({it}).filter (fun {pat} => {self.truthy(c, benv)}))"
                body, tb = self.expr(n.elt, benv)
            finally:
                self.nohoist -= 1
            return f"(({it}).map (fun {pat} => {body}))", ("list", tb)
        if isinstance(n, ast.Call):
            return self.call(n, env)
        raise Unsupported("expression " + type(n).__name__)

    def int_expr(self, n, env):
        tx, ty = self.expr(n, env)
        if ty[0] != "int":
            raise Unsupported("an index / bound that is not an int")
        return tx

    def unify(self, a, b):
        if a is None:
            return b
        if b is None:
            return a
        if a[0] in ("list", "set") and a[0] == b[0]:
            return (a[0], self.unify(a[1], b[1]))
        if a != b:
            raise Unsupported(f"type mismatch {a} / {b}")
        return a

    def call(self, n, env):
        f = n.func
        if isinstance(f, ast.Name):
            if n.keywords:
                raise Unsupported(f"keyword arguments of {f.id}")
            if f.id == "len" and len(n.args) == 1:
                v, tv = self.expr(n.args[0], env)
                if tv[0] not in ("str", "list"):
                    raise Unsupported("len of a " + tv[0])
                return f"(Py.len {v})", ("int",)
            if f.id in ("range", "enumerate"):
                return self.iterable(n, env)
            if f.id == "set" and not n.args:
                return "[]", ("set", None)
            if f.id == "list" and not n.args:
                return "[]", ("list", None)
            raise Unsupported(f"call of {f.id}")
        if isinstance(f, ast.Attribute):
            o, to = self.expr(f.value, env)
            m = f.attr
            if m == "split" and to[0] == "str":
                if len(n.args) == 1 and not n.keywords:
                    sep = n.args[0]
                elif not n.args and len(n.keywords) == 1 and n.keywords[0].arg == "sep":
                    sep = n.keywords[0].value
                else:
                    raise Unsupported("split without exactly one separator argument")
                s, ts = self.expr(sep, env)
                if ts[0] != "str":
                    raise Unsupported("split separator that is not a str")
                return self.hoist(f"Py.split? {o} {s}", ("list", ("str",)))
            if n.keywords:
                raise Unsupported(f"keyword arguments of .{m}")
            args = [self.expr(a, env) for a in n.args]
            if m == "join" and to[0] == "str" and len(args) == 1 and args[0][1] == ("list", ("str",)):
                return f"(Py.join {o} {args[0][0]})", ("str",)
            if m == "startswith" and to[0] == "str" and len(args) == 1 and args[0][1][0] == "str":
                return f"(Py.startswith {o} {args[0][0]})", ("bool",)
            if m == "strip" and to[0] == "str" and not args:
                return f"(Py.strip {o})", ("str",)
            if m == "union" and to[0] == "set" and len(args) == 1 and args[0][1][0] == "set":
                return f"(Py.setUnion {o} {args[0][0]})", self.unify(to, args[0][1])
            raise Unsupported(f"method .{m} on a {to[0]}")
        raise Unsupported("call of a computed function")

    def iterable(self, n, env):
        """expression in iterable position -> (text of a List, element type)"""
        if isinstance(n, ast.Call) and isinstance(n.func, ast.Name) and n.func.id == "range" and not n.keywords:
            a = [self.int_expr(x, env) for x in n.args]
            if len(a) == 1:
                return f"(Py.range 0 {a[0]})", ("list", ("int",))
            if len(a) == 2:
                return f"(Py.range {a[0]} {a[1]})", ("list", ("int",))
            if len(a) == 3:
                return self.hoist(f"Py.range3? {a[0]} {a[1]} {a[2]}", ("list", ("int",)))
            raise Unsupported("range arity")
        if isinstance(n, ast.Call) and isinstance(n.func, ast.Name) and n.func.id == "enumerate" and not n.keywords \
                and len(n.args) == 1:
            v, tv = self.expr(n.args[0], env)
            if tv[0] != "list":
                raise Unsupported("enumerate of a " + tv[0])
            return f"(Py.enumerate {v})", ("list", ("tuple", (("int",), tv[1])))
        v, tv = self.expr(n, env)
        if tv[0] == "list":
            return v, tv
        if tv[0] == "set":
            raise Unsupported("iteration over a set (its order is not defined)")
        raise Unsupported("iteration over a " + tv[0])

    def bind_target(self, t, tit, env):
        """bind the loop target(s) in env; returns the Lean binder pattern (a name, or a tuple pattern)"""
        te = tit[1]
        if isinstance(t, ast.Name):
            env[t.id] = te
            return t.id
        if isinstance(t, ast.Tuple) and te[0] == "tuple" and len(t.elts) == len(te[1]) \
                and all(isinstance(e, ast.Name) for e in t.elts):
            for e, ty in zip(t.elts, te[1]):
                env[e.id] = ty
            return "(" + ", ".join(e.id for e in t.elts) + ")"
        raise Unsupported("loop target")

    # ---- statements ---------------------------------------------------------------------------------------
    def state_text(self, vs):
        return "()" if not vs else vs[0] if len(vs) == 1 else "(" + ", ".join(vs) + ")"

    def state_ty(self, vs, env):
        return "Unit" if not vs else " × ".join(
            lean_ty(env[v]) if i == len(vs) - 1 or env[v][0] != "tuple" else lean_ty(env[v])
            for i, v in enumerate(vs))

    def unpack(self, vs, src="st"):
        """lets that rebind the variables `vs` from the tuple `src`"""
        if len(vs) <= 1:
            return ""
        out = []
        for i, v in enumerate(vs):
            proj = ".2" * i + (".1" if i < len(vs) - 1 else "")
            out.append(f"let {v} := {src}{proj}")
        return "\n".join(out) + "\n"

    def finish(self, ctx):
        kind = ctx[0]
        if kind == "loop":
            return f"Step.next {self.state_text(ctx[1])}"
        if kind == "value":
            return self.state_text(ctx[1])
        raise Unsupported("the function can fall off its end (returns None)")

    def wrap(self, text, ctx, mark):
        """prefix `text` with the binds of the raising operations hoisted since `mark`"""
        binds, self.pending = self.pending[mark:], self.pending[:mark]
        for t, opt in reversed(binds):
            if ctx[0] == "loop":
                text = f"Step.ofOpt ({opt}) (fun {t} =>\n{text})"
            elif ctx[0] == "fn" and ctx[1]:
                text = f"Option.bind ({opt}) (fun {t} =>\n{text})"
            else:
                raise Unsupported("an operation that can raise inside a merged `if`")
        return text

    def assign(self, name, tx, ty, env):
        want = self.local_ty.get(name)
        if want is not None:
            ty = self.unify(want, ty)
        if name in env:
            ty = self.unify(env[name], ty)
        if ty is None or (ty[0] in ("list", "set") and ty[1] is None):
            raise Unsupported(f"cannot type `{name}` (add it to `locals` of its TARGETS entry)")
        env[name] = ty
        return f"let {name} : {lean_ty(ty)} := {tx}\n"

    def block(self, stmts, env, ctx):
        """tail-form translation of a statement list; `env` (name -> type) is updated in place"""
        if not stmts:
            return self.finish(ctx)
        s, rest = stmts[0], stmts[1:]
        mark = len(self.pending)
        if isinstance(s, ast.Pass) or (isinstance(s, ast.Expr) and isinstance(s.value, ast.Constant)
                                       and isinstance(s.value.value, str)):
            return self.block(rest, env, ctx)
        if isinstance(s, ast.Return):
            if ctx[0] != "fn":
                raise Unsupported("`return` inside a loop or a merged `if`")
            if s.value is None:
                raise Unsupported("`return` without a value")
            tx, ty = self.expr(s.value, env)
            self.ret_ty = self.unify(getattr(self, "ret_ty", None), ty)
            return self.wrap(f"some {tx}" if ctx[1] else tx, ctx, mark)
        if isinstance(s, ast.Continue):
            if ctx[0] != "loop":
                raise Unsupported("`continue` here")
            return f"Step.next {self.state_text(ctx[1])}"
        if isinstance(s, ast.Break):
            if ctx[0] != "loop":
                raise Unsupported("`break` here")
            return f"Step.brk {self.state_text(ctx[1])}"
        if isinstance(s, (ast.Assign, ast.AnnAssign, ast.AugAssign)):
            if isinstance(s, ast.Assign):
                if len(s.targets) != 1:
                    raise Unsupported("chained assignment")
                target, value = s.targets[0], s.value
            elif isinstance(s, ast.AnnAssign):
                if s.value is None:
                    return self.block(rest, env, ctx)
                target, value = s.target, s.value
            else:
                target = s.target
                value = ast.BinOp(left=ast.Name(id=s.target.id, ctx=ast.Load(), lineno=s.lineno), op=s.op,
                                  right=s.value) if isinstance(s.target, ast.Name) else None
            if not isinstance(target, ast.Name) or value is None:
                raise Unsupported("assignment to something that is not a plain name")
            tx, ty = self.expr(value, env)
            let = self.assign(target.id, tx, ty, env)
            return self.wrap(let + self.block(rest, env, ctx), ctx, mark)
        if isinstance(s, ast.Expr):
            c = s.value
            if (isinstance(c, ast.Call) and isinstance(c.func, ast.Attribute) and isinstance(c.func.value, ast.Name)
                    and c.func.attr in MUTATORS and len(c.args) == 1 and not c.keywords):
                name = c.func.value.id
                if name not in env:
                    raise Unsupported(f"`{name}` is not definitely assigned")
                kind = {"add": "set", "append": "list"}[c.func.attr]
                if env[name][0] != kind:
                    raise Unsupported(f".{c.func.attr} on a {env[name][0]}")
                tx, ty = self.expr(c.args[0], env)
                fn = {"add": "Py.setAdd", "append": "Py.append"}[c.func.attr]
                let = self.assign(name, f"{fn} {name} {tx}", (kind, ty), env)
                return self.wrap(let + self.block(rest, env, ctx), ctx, mark)
            raise Unsupported("expression statement (only docstrings, .add and .append are statements)")
        if isinstance(s, ast.If):
            c = self.truthy(s.test, env)
            if not rest:
                a = self.block(s.body, dict(env), ctx)
                b = self.block(s.orelse, dict(env), ctx)
                return self.wrap(f"if {c} then\n{ind(a)}\nelse\n{ind(b)}", ctx, mark)
            if not has_escape([s]) and not may_raise(s.body + s.orelse):
                merged = [v for v in assigned(s.body + s.orelse) if v in env]
                if not merged:
                    return self.wrap(self.block(rest, env, ctx), ctx, mark)
                vctx = ("value", merged)
                ea, eb = dict(env), dict(env)
                a = self.block(s.body, ea, vctx)
                b = self.block(s.orelse, eb, vctx)
                for v in merged:
                    if ea[v] != env[v] or eb[v] != env[v]:
                        raise Unsupported(f"`{v}` changes its type in an `if`")
                head = f"let {'st' if len(merged) > 1 else merged[0]} : {self.state_ty(merged, env)} :=\n" \
                       f"  (if {c} then\n{ind(a, 4)}\n  else\n{ind(b, 4)})\n" + self.unpack(merged)
                return self.wrap(head + self.block(rest, env, ctx), ctx, mark)
            # general case: the rest of the block is copied into both branches
            a = self.block(s.body + rest, dict(env), ctx)
            b = self.block(s.orelse + rest, dict(env), ctx)
            return self.wrap(f"if {c} then\n{ind(a)}\nelse\n{ind(b)}", ctx, mark)
        if isinstance(s, ast.For):
            if s.orelse:
                raise Unsupported("for .. else")
            if any(isinstance(n, ast.Return) for b in s.body for n in ast.walk(b)):
                raise Unsupported("`return` inside a loop")
            it, tit = self.iterable(s.iter, env)
            self.nloop += 1
            lname = f"{self.name}_loop{self.nloop}"
            raises = may_raise(s.body)
            carried = [v for v in env if v in assigned(s.body)]
            benv = dict(env)
            pat = self.bind_target(s.target, tit, benv)
            targets = [s.target.id] if isinstance(s.target, ast.Name) else [e.id for e in s.target.elts]
            if any(t in env for t in targets):
                raise Unsupported("a loop variable that shadows an existing variable")
            used = names_used(s.body)
            frees = [v for v in env if v in used and v not in carried]
            body = self.block(s.body, benv, ("loop", carried))
            for v in carried:
                if benv[v] != env[v]:
                    raise Unsupported(f"`{v}` changes its type in a loop")
            sty = self.state_ty(carried, env)
            tvs = []
            for v in frees + carried:
                ty_vars(env[v], tvs)
            ty_vars(tit[1], tvs)
            sig = "".join(f" {{{v} : Type}}" for v in tvs)
            sig += "".join(f" ({v} : {lean_ty(env[v])})" for v in frees)
            stname = carried[0] if len(carried) == 1 else "st"
            sig += f" ({stname} : {sty})"
            if isinstance(s.target, ast.Name):
                sig += f" ({s.target.id} : {lean_ty(tit[1])})"
                pre = ""
            else:
                sig += f" (it : {lean_ty(tit[1])})"
                pre = self.unpack(targets, "it")
            end = getattr(s, "end_lineno", s.lineno)
            self.defs.append(
                f"/-- body of the loop `for {ast.unparse(s.target)} in {ast.unparse(s.iter)}` of `{self.fn.name}` -/\n"
                f"-- src: {self.rel}:{s.lineno}-{end} ({VERSION})\n"
                f"def {lname}{sig} : Step ({sty}) :=\n" + ind(self.unpack(carried) + pre + body) + "\n")
            callee = f"({lname}" + "".join(f" {v}" for v in frees) + ")"
            st = self.state_text(carried)
            if raises:
                k = self.unpack(carried) + self.block(rest, env, ctx)
                binder = stname if carried else "_"
                if ctx[0] == "loop":
                    txt = f"Step.ofOpt (Py.forM {callee} {it} {st}) (fun {binder} =>\n{k})"
                elif ctx[0] == "fn" and ctx[1]:
                    txt = f"Option.bind (Py.forM {callee} {it} {st}) (fun {binder} =>\n{k})"
                else:
                    raise Unsupported("a loop that can raise inside a merged `if`")
                return self.wrap(txt, ctx, mark)
            if not carried:
                return self.wrap(self.block(rest, env, ctx), ctx, mark)
            txt = f"let {stname} : {sty} := Py.forT {callee} {it} {st}\n" + self.unpack(carried)
            return self.wrap(txt + self.block(rest, env, ctx), ctx, mark)
        raise Unsupported("statement " + type(s).__name__)

    # ---- the function ---------------------------------------------------------------------------------------
    def translate(self):
        fn, spec = self.fn, self.spec
        a = fn.args
        if a.vararg or a.kwarg or a.kwonlyargs or a.posonlyargs:
            raise Unsupported("parameters other than plain positional ones")
        names = [p.arg for p in a.args]
        if names != list(spec["params"]):
            raise Unsupported(f"parameters {names} are not the expected {list(spec['params'])}")
        env = {}
        for p in a.args:
            ty = parse_type(spec["params"][p.arg])
            if p.annotation is not None and isinstance(p.annotation, ast.Name) \
                    and p.annotation.id in ("int", "bool", "str") and (p.annotation.id,) != ty:
                raise Unsupported(f"parameter {p.arg} is annotated {p.annotation.id}")
            env[p.arg] = ty
        opt = may_raise(fn.body)
        penv = dict(env)
        body = self.block(list(fn.body), env, ("fn", opt))
        rty = lean_ty(self.ret_ty)
        tvs = []
        for v in penv:
            ty_vars(penv[v], tvs)
        sig = "".join(f" {{{v} : Type}}" for v in tvs)
        sig += "".join(f" ({v} : {lean_ty(t)})" for v, t in penv.items())
        end = getattr(fn, "end_lineno", fn.lineno)
        head = (f"/-- `{fn.name}` of {self.rel}" + ("; `none` = the Python function raises" if opt else "") + " -/\n"
                f"-- src: {self.rel}:{fn.lineno}-{end} ({VERSION})\n"
                f"def {self.name}{sig} : {'Option (' + rty + ')' if opt else rty} :=\n")
        return "\n".join(self.defs) + ("\n" if self.defs else "") + head + ind(body) + "\n"


def find_function(tree, name):
    for n in tree.body:
        if isinstance(n, ast.FunctionDef) and n.name == name:
            return n
    return None


def translate_target(repo: Path, spec):
    rel = spec["file"]
    try:
        p = repo / rel
        if not p.exists():
            raise Unsupported(f"{rel} does not exist")
        try:
            tree = ast.parse(p.read_text())
        except SyntaxError as e:
            raise Unsupported(f"{rel} does not parse: {e.msg}")
        fn = find_function(tree, spec["func"])
        if fn is None:
            raise Unsupported(f"no top-level function {spec['func']} in {rel}")
        return Fn(spec, fn, rel).translate(), None
    except Unsupported as e:
        why = str(e)
    except Exception as e:      # never crash the run: an internal error is reported like an unsupported construct
        why = f"internal error of the translator: {type(e).__name__}: {e}"
    why = why.replace("\n", " ").replace("-/", "- /")
    return (f"/-- NOT TRANSLATED: `{spec['func']}` of {rel} is outside the subset of tools/py2lean.py:\n{why}\n"
            f"(this marker makes the refinement theorem of `{spec['lean']}` fail) -/\n"
            f"-- src: {rel} ({VERSION})\n"
            f"def {spec['lean']} : Unit := ()\n"), why


def generate(repo: Path, outdir: Path, write_if_changed):
    out = ("import MokapotVerif.Model.SrcPrelude\n"
           f"/-! generated by tools/py2lean.py ({VERSION}) from the Python source of /repo/mokapot — do not edit.\n"
           "Shallow embedding of the listed functions; see tools/py2lean.py for the subset and\n"
           "Model/SrcPrelude.lean for the primitives. -/\n"
           "namespace Mk.Src\nopen Mk Mk.Py\n\n")
    problems = []
    for spec in TARGETS:
        txt, why = translate_target(repo, spec)
        if why:
            problems.append((spec["lean"], why))
        out += txt + "\n"
    out += "/-- functions that could not be translated (empty on the unchanged source) -/\n"
    out += "def untranslated : List (String × String) := [" + ", ".join(
        '("' + n + '", "' + w.replace("\\", "\\\\").replace('"', '\\"') + '")' for n, w in problems) + "]\n"
    out += "\nend Mk.Src\n"
    write_if_changed(outdir / "Src.lean", out)
    return problems


if __name__ == "__main__":
    import os
    import sys

    repo = Path(sys.argv[1] if len(sys.argv) > 1 else os.environ.get("MOKAPOT_REPO", "/repo"))

    def show(p, txt):
        print(txt)

    for n, w in generate(repo, Path("."), show):
        print(f"-- NOT TRANSLATED {n}: {w}", file=sys.stderr)
