#!/bin/sh
# tools/seedsweep.sh <out file> <seed dir names…> — apply each kept seeded change to a scratch worktree of /repo HEAD
# and run the check(s) of its property; one line per change: name, exit code, first VIOLATION line
OUT=$1; shift
for n in "$@"; do
  D=/verif/seeded/$n
  P=$(python3 -c "import json;print(json.load(open('$D/meta.json'))['property'])")
  WT=/tmp/wt-sweep-$$
  git -C /repo worktree add -q --detach $WT HEAD || exit 2
  if ! git -C $WT apply $D/patch.diff 2>/dev/null; then echo "$n $P PATCH-DOES-NOT-APPLY" >> $OUT; git -C /repo worktree remove --force $WT; continue; fi
  R=$(cd /verif && MOKAPOT_REPO=$WT VERIF_EVIDENCE_DIR=/tmp/q3/evs VERIF_REPLAY_DIR=/tmp/q3/rps ./check $P 2>&1; echo "exit=$?")
  V=$(echo "$R" | grep -m1 "^VIOLATION" | cut -c1-120)
  E=$(echo "$R" | grep "^exit=" | tail -1)
  echo "$n $P $E $V" >> $OUT
  git -C /repo worktree remove --force $WT
done
echo "lane done" >> $OUT
