#!/usr/bin/env python3
"""tools/stats.py — the figures quoted in DESIGN.md A.0 (lines and theorem counts), from the files present."""
import re
from pathlib import Path

V = Path(__file__).resolve().parent.parent
L = V / "lean" / "MokapotVerif"


def lines(paths):
    return sum(len(p.read_text().splitlines()) for p in paths)


def main():
    out = {}
    for d in ("Model", "Lemmas", "Props", "Mutants", "Ops", "Generated"):
        out[d] = lines(sorted((L / d).glob("*.lean")))
    thm = {}
    for p in sorted((L / "Props").glob("C*.lean")):
        pid = p.name[:3]
        thm[pid] = thm.get(pid, 0) + len(re.findall(rf"^theorem {pid}_", p.read_text(), flags=re.M))
    out["theorems"] = thm
    out["theorems_total"] = sum(thm.values())
    out["harness_lines"] = lines(sorted((V / "harness").glob("*.py")))
    out["seeded"] = len(list((V / "seeded").glob("*/meta.json")))
    for k, v in out.items():
        print(k, v)


if __name__ == "__main__":
    main()
