#!/bin/sh
# tools/seedcheck.sh <seed dir containing patch.diff, demo.py> <Cxx> [more checks…]
# confirms the demo (exit 0 unchanged / exit 1 changed) and runs the given checks against a scratch worktree
D=$1; shift
WT=/tmp/wt-seed-$$
git -C /repo worktree add -q $WT HEAD || exit 2
echo "== demo on unchanged tree"; (cd $D && PYTHONPATH=$WT timeout 600 /venv/bin/python -W ignore demo.py >/tmp/wt-seed-demo0-$$.log 2>&1; echo "exit=$?")
if ! git -C $WT apply $D/patch.diff; then echo "PATCH DOES NOT APPLY"; git -C /repo worktree remove --force $WT; exit 2; fi
echo "== demo on changed tree"; (cd $D && PYTHONPATH=$WT timeout 600 /venv/bin/python -W ignore demo.py >/tmp/wt-seed-demo1-$$.log 2>&1; echo "exit=$?"; tail -3 /tmp/wt-seed-demo1-$$.log)
echo "== unit tests on changed tree"; (cd $WT && PYTHONPATH=$WT /venv/bin/python -m pytest -q -p no:cacheprovider --timeout=900 --continue-on-collection-errors -q tests 2>&1 | tail -1)
for P in "$@"; do echo "== check $P"; MOKAPOT_REPO=$WT /verif/check $P 2>&1 | grep -v "^$" | tail -3; done
git -C /repo worktree remove --force $WT
