#!/bin/sh
# tools/seedcheck.sh <seed dir containing patch.diff, demo.py> <Cxx> [more checks…]
# confirms the demo (exit 0 unchanged / exit 1 changed) and runs the given checks against a scratch worktree of /repo.
# The checks run from a private clone of /verif (HEAD + build output), so evidence/, replays/ and Generated/ of /verif
# itself are never touched by a run against a changed tree, and concurrent seedchecks do not race.
D=$(cd "$1" && pwd); shift
WT=/tmp/wt-seed-$$; VC=/tmp/sc-verif-$$
git -C /repo worktree add -q $WT HEAD || exit 2
echo "== demo on unchanged tree"; (cd $D && PYTHONPATH=$WT timeout 600 /venv/bin/python -W ignore demo.py >/tmp/wt-seed-demo0-$$.log 2>&1; echo "exit=$?")
if ! git -C $WT apply $D/patch.diff; then echo "PATCH DOES NOT APPLY"; git -C /repo worktree remove --force $WT; exit 2; fi
echo "== demo on changed tree"; (cd $D && PYTHONPATH=$WT timeout 600 /venv/bin/python -W ignore demo.py >/tmp/wt-seed-demo1-$$.log 2>&1; echo "exit=$?"; tail -3 /tmp/wt-seed-demo1-$$.log)
echo "== unit tests on changed tree"; (cd $WT && PYTHONPATH=$WT /venv/bin/python -m pytest -q -p no:cacheprovider --timeout=900 --continue-on-collection-errors -q tests 2>&1 | tail -1)
SRC=${VERIF_SRC:-/verif}
git clone -q $SRC $VC && cp -a $SRC/lean/.lake $VC/lean/.lake
# uncommitted harness/lean work of the source tree is part of what is being tried out
(cd $SRC && git diff --name-only HEAD; git -C $SRC ls-files --others --exclude-standard) | grep '^harness/\|^lean/MokapotVerif/\|^tools/' | while read f; do [ -f "$SRC/$f" ] && mkdir -p "$VC/$(dirname $f)" && cp "$SRC/$f" "$VC/$f"; done
for P in "$@"; do echo "== check $P"; MOKAPOT_REPO=$WT $VC/check $P 2>&1 | grep -v "^$" | tail -3; done
rm -rf $VC /tmp/wt-seed-demo0-$$.log /tmp/wt-seed-demo1-$$.log
git -C /repo worktree remove --force $WT
