"""AST translator: /repo/mokapot/**/*.py -> lean/MokapotVerif/Generated/*.lean

Effects.lean   every call site that can introduce nondeterminism (C08): global / unseeded randomness, clocks, hash/id,
               enumerations of sets (also of sets handed to or returned by functions of the package: `set-order`),
               of lists / dicts / frames whose ORDER was fixed while a set was enumerated and of everything derived
               from them (`order-taint`; for the maps of a Proteins object `map-order`), uses of dictionary values made
               by enumerating a set (`map-value`), directory listings (`dir-order`), lists that joblib workers append
               to (`thread-order`), calls of callables of the package that leave out their optional `rng` argument
               or pass a literal None (`rng-default`), `random_state=` of third-party objects and `shuffle=True`
               without one (`random-state`).  Name based and flow-insensitive (taint holds from the line of the tainting
               statement or of its outermost enclosing loop); see GAPS-C08.md.
FileOps.lean   every call site that touches the file system, with its literal mode / pattern (C09)
Constants.lean streaming chunk-size constants and their environment variables (C05)

The tables are plain Lean lists of structures; the *rules* they must satisfy are hand-written theorems in
Props/C08.lean and Props/C09.lean, closed by `decide`, so they are re-checked against what the code says now."""
from __future__ import annotations

import ast
from pathlib import Path


def lean_str(s: str) -> str:
    return '"' + s.replace("\\", "\\\\").replace('"', '\\"').replace("\n", "\\n") + '"'


def dotted(node) -> str:
    if isinstance(node, ast.Name):
        return node.id
    if isinstance(node, ast.Attribute):
        return dotted(node.value) + "." + node.attr
    if isinstance(node, ast.Call):
        return dotted(node.func) + "()"
    if isinstance(node, ast.Subscript):
        return dotted(node.value) + "[]"
    return "?"


SET_FUNCS = set()   # bare names of functions of the package whose return value is a set (filled by generate)
PARAM_KINDS = {}    # function name -> {parameter name: "set" | "dos"}: what the call sites of the package hand over
PARAM_TAINT = {}    # function name -> {parameter names receiving a container whose ORDER depends on the hash seed}
TAINT_FUNCS = {}    # function name -> set of tainted positions of the returned tuple (None = the whole value)
TAINT_ATTRS = set()  # attribute names that hold order-tainted containers (from constructor keywords)
VALUE_TAINT_ATTRS = set()   # attribute names of dictionaries whose VALUES were made by enumerating a set ('; '.join(set))
FUNC_PARAMS = {}    # function name -> positional parameter names
PACKAGE_CLASSES = set()   # classes defined in the package
MODULE_ALIASES = set()    # names bound by import statements (so that `utils.flatten(..)` is a package call, `w.flatten()` is not)
RNG_PARAMS = {}     # callable of the package (function or class) -> (position of its `rng` parameter, default is None?)
DELAYED_FUNCS = set()   # functions run by joblib workers (`delayed(f)`): appends to their arguments happen in completion order
ORDER_FREE = ("sorted", "len", "set", "frozenset", "isin")   # consumers for which the order of their argument is irrelevant
ENUMERATORS = ("list", "tuple", "join", "enumerate", "array", "asarray", "next", "iter", "Series", "DataFrame", "zip",
               "dict", "Index", "concat", "hstack", "concatenate", "chain")
MUTATORS = ("add", "append", "extend", "update", "setdefault", "insert", "appendleft")
# the maps of a Proteins object are filled by read_fasta while it enumerates sets (floor of TAINT_ATTRS: these stay
# inventoried even if the inference below should lose track of them)
PROTEIN_MAPS = ("peptide_map", "protein_map", "shared_peptides")


def callee_name(call):
    """bare name of the package function / class a call refers to, as far as names tell: `f(..)`, `module.f(..)`,
    `self.f(..)`; a method call on some other object (`weights.flatten()`) is not resolved"""
    f = call.func
    if isinstance(f, ast.Name):
        return f.id
    if isinstance(f, ast.Attribute) and isinstance(f.value, ast.Name) and (
            f.value.id in MODULE_ALIASES or f.value.id in ("self", "cls")):
        return f.attr
    return None


def _all_functions(trees):
    for tree in trees:
        for fn in ast.walk(tree):
            if isinstance(fn, (ast.FunctionDef, ast.AsyncFunctionDef)):
                yield fn


def set_returning_functions(trees):
    """names of the functions whose `return` expression is set-typed according to the same local inference
    (iterated, so that a function returning another set-returning function's result is found too)"""
    found = set()
    for _ in range(3):
        SET_FUNCS.clear()
        SET_FUNCS.update(found)
        for fn in _all_functions(trees):
            w = Walker("?")
            w.scan_set_variables(fn)
            for n in ast.walk(fn):
                if isinstance(n, ast.Return) and n.value is not None and w.is_set_expr(n.value):
                    found.add(fn.name)
    SET_FUNCS.clear()
    SET_FUNCS.update(found)
    return found


def interprocedural_tables(trees):
    """what flows between the functions of the package: set / dict-of-set arguments, order-tainted arguments and
    return values, constructor keywords that store an order-tainted container in an attribute, functions that run
    in joblib workers. Flow-insensitive, name based (bare function names), iterated a few times."""
    for t in (PARAM_KINDS, PARAM_TAINT, TAINT_FUNCS, FUNC_PARAMS):
        t.clear()
    TAINT_ATTRS.clear()
    VALUE_TAINT_ATTRS.clear()
    DELAYED_FUNCS.clear()
    PACKAGE_CLASSES.clear()
    MODULE_ALIASES.clear()
    for tree in trees:
        for n in ast.walk(tree):
            if isinstance(n, (ast.Import, ast.ImportFrom)):
                MODULE_ALIASES.update((a.asname or a.name).split(".")[0] for a in n.names)
    for tree in trees:
        PACKAGE_CLASSES.update(n.name for n in ast.walk(tree) if isinstance(n, ast.ClassDef))
    for fn in _all_functions(trees):
        FUNC_PARAMS[fn.name] = [a.arg for a in fn.args.posonlyargs + fn.args.args]
    # callables that take the seeded generator as `rng` (classes through their own __init__): position and default
    RNG_PARAMS.clear()

    def rng_param(fn, skip_self):
        pos = [a.arg for a in fn.args.posonlyargs + fn.args.args]
        if skip_self and pos and pos[0] in ("self", "cls"):
            pos = pos[1:]
        names = pos + [a.arg for a in fn.args.kwonlyargs]
        if "rng" not in names:
            return None
        defaults = dict(zip(reversed([a.arg for a in fn.args.posonlyargs + fn.args.args]), reversed(fn.args.defaults)))
        defaults.update({a.arg: d for a, d in zip(fn.args.kwonlyargs, fn.args.kw_defaults) if d is not None})
        d = defaults.get("rng")
        return (pos.index("rng") if "rng" in pos else None, isinstance(d, ast.Constant) and d.value is None)
    for tree in trees:
        for n in ast.walk(tree):
            if isinstance(n, ast.ClassDef):
                for m in n.body:
                    if isinstance(m, ast.FunctionDef) and m.name == "__init__" and rng_param(m, True):
                        RNG_PARAMS[n.name] = rng_param(m, True)
        for n in tree.body:
            if isinstance(n, ast.FunctionDef) and rng_param(n, False):
                RNG_PARAMS[n.name] = rng_param(n, False)
    for tree in trees:
        for n in ast.walk(tree):
            if isinstance(n, ast.Call) and dotted(n.func).split(".")[-1] == "delayed" and n.args:
                DELAYED_FUNCS.add(dotted(n.args[0]).split(".")[-1])
    for _ in range(4):
        for fn in _all_functions(trees):
            w = Walker("?")
            w.scan_set_variables(fn)
            w.scan_taint(fn)
            for n in ast.walk(fn):
                if isinstance(n, ast.Return) and n.value is not None:
                    if isinstance(n.value, ast.Tuple):
                        for i, e in enumerate(n.value.elts):
                            if w.is_tainted(e):
                                TAINT_FUNCS.setdefault(fn.name, set()).add(i)
                    elif w.is_tainted(n.value):
                        TAINT_FUNCS.setdefault(fn.name, set()).add(None)
                if isinstance(n, ast.Call):
                    callee = callee_name(n)
                    params = FUNC_PARAMS.get(callee)
                    offset = 1 if params and params[0] in ("self", "cls") else 0
                    named = [(params[i + offset], a) for i, a in enumerate(n.args)
                             if params is not None and i + offset < len(params)]
                    named += [(k.arg, k.value) for k in n.keywords if k.arg]
                    for pname, a in named:
                        if params is not None:
                            if w.is_dos_expr(a):
                                PARAM_KINDS.setdefault(callee, {})[pname] = "dos"
                            elif w.is_set_expr(a):
                                PARAM_KINDS.setdefault(callee, {}).setdefault(pname, "set")
                            if w.is_tainted(a):
                                PARAM_TAINT.setdefault(callee, set()).add(pname)
                    if callee in PACKAGE_CLASSES:      # a constructor of the package: the keyword names the attribute
                        for k in n.keywords:
                            if k.arg and w.is_tainted(k.value):
                                TAINT_ATTRS.update((k.arg, "_" + k.arg))
                            if k.arg and isinstance(k.value, ast.Name) and k.value.id in w.valtainted:
                                VALUE_TAINT_ATTRS.update((k.arg, "_" + k.arg))


class Walker(ast.NodeVisitor):
    def __init__(self, rel):
        self.rel = rel
        self.func = ["<module>"]
        self.params = [[]]
        self.effects = []
        self.fileops = []
        self.parents = []
        self.setvars = set()
        self.dosvars = set()
        self.valtainted = set()   # dictionaries whose values were made by enumerating a set
        self.tainted = {}     # name -> line from which it holds a container whose order depends on the hash seed

    def visit_FunctionDef(self, node):
        self.func.append(node.name)
        self.params.append([a.arg for a in node.args.posonlyargs + node.args.args + node.args.kwonlyargs])
        saved = (self.setvars, self.dosvars, self.tainted, self.valtainted)
        self.setvars, self.dosvars, self.tainted = set(self.setvars), set(self.dosvars), dict(self.tainted)
        self.valtainted = set(self.valtainted)
        self.scan_set_variables(node)
        self.scan_taint(node)
        self.generic_visit(node)
        self.setvars, self.dosvars, self.tainted, self.valtainted = saved
        self.params.pop()
        self.func.pop()

    # ---- a small flow-insensitive inference of set-typed local names ------------------------------
    def is_set_expr(self, e):
        if isinstance(e, (ast.Set, ast.SetComp)):
            return True
        if isinstance(e, ast.Call):
            n = dotted(e.func)
            if n in ("set", "frozenset") or n.startswith("set.") and n.split(".")[-1] in (
                    "intersection", "union", "difference", "symmetric_difference"):
                return True
            if isinstance(e.func, ast.Attribute) and e.func.attr in (
                    "intersection", "union", "difference", "symmetric_difference", "copy") \
                    and self.is_set_expr(e.func.value):
                return True
            if isinstance(e.func, ast.Attribute) and e.func.attr in ("pop", "get") and e.args \
                    and isinstance(e.func.value, ast.Name) and e.func.value.id in self.dosvars:
                return True                        # D.pop(k) / D.get(k) of a dict of sets
            if n.split(".")[-1] in SET_FUNCS:      # a function of the package that returns a set
                return True
        if isinstance(e, ast.Name):
            return e.id in self.setvars
        if isinstance(e, ast.Subscript) and isinstance(e.value, ast.Name):
            return e.value.id in self.dosvars
        if isinstance(e, ast.BinOp) and isinstance(e.op, (ast.BitOr, ast.BitAnd, ast.Sub, ast.BitXor)):
            return self.is_set_expr(e.left) or self.is_set_expr(e.right)
        return False

    def is_dos_expr(self, e):
        if isinstance(e, ast.Call) and dotted(e.func).split(".")[-1] == "defaultdict" and e.args \
                and dotted(e.args[0]) == "set":
            return True
        if isinstance(e, ast.DictComp) and self.is_set_expr(e.value):
            return True
        return isinstance(e, ast.Name) and e.id in self.dosvars

    @staticmethod
    def peel_order_preserving(it):
        """sorted(D.items(), key=..) / list(D.items()) / enumerate(D.items()) enumerate the same (key, value) pairs"""
        while isinstance(it, ast.Call) and dotted(it.func).split(".")[-1] in ("sorted", "list", "tuple", "reversed") \
                and it.args:
            it = it.args[0]
        return it

    def bind_items_target(self, target, it):
        """for k, v in D.items() / for v in D.values() with D a dict of sets: v is a set"""
        it = self.peel_order_preserving(it)
        if isinstance(it, ast.Call) and isinstance(it.func, ast.Attribute) and isinstance(it.func.value, ast.Name) \
                and it.func.value.id in self.dosvars:
            if it.func.attr == "items" and isinstance(target, ast.Tuple) and len(target.elts) == 2 \
                    and isinstance(target.elts[1], ast.Name):
                self.setvars.add(target.elts[1].id)
            if it.func.attr == "values" and isinstance(target, ast.Name):
                self.setvars.add(target.id)

    def scan_set_variables(self, fn):
        for name, kind in PARAM_KINDS.get(getattr(fn, "name", ""), {}).items():
            (self.dosvars if kind == "dos" else self.setvars).add(name)   # what the package's call sites hand over
        for _ in range(3):       # a few passes instead of a real fix-point
            for n in ast.walk(fn):
                if isinstance(n, ast.Assign) and len(n.targets) == 1 and isinstance(n.targets[0], ast.Name):
                    if self.is_dos_expr(n.value):
                        self.dosvars.add(n.targets[0].id)
                    elif self.is_set_expr(n.value):
                        self.setvars.add(n.targets[0].id)
                elif isinstance(n, ast.Assign) and len(n.targets) == 1 and isinstance(n.targets[0], ast.Subscript) \
                        and isinstance(n.targets[0].value, ast.Name) and self.is_set_expr(n.value):
                    self.dosvars.add(n.targets[0].value.id)          # D[k] = <set>: D is a dict of sets
                elif isinstance(n, ast.For):
                    self.bind_items_target(n.target, n.iter)
                elif isinstance(n, ast.comprehension):
                    self.bind_items_target(n.target, n.iter)
        # parameters are sets only as far as a call site inside the package shows it (PARAM_KINDS)

    # ---- order taint: lists / dicts whose ORDER derives from the enumeration of a set ---------------
    def hash_ordered_iter(self, it):
        """does a loop over `it` run in an order that depends on the hash seed?  (a set, or a container that was
        itself built in such a loop; `sorted(..)` launders, enumerate/zip/.items() and friends do not)"""
        while True:
            if isinstance(it, ast.Call):
                last = dotted(it.func).split(".")[-1]
                if last in ORDER_FREE:
                    return False
                if last in ("enumerate", "list", "tuple", "iter", "reversed") and it.args:
                    it = it.args[0]
                    continue
                if last == "zip":
                    return any(self.hash_ordered_iter(a) for a in it.args)
                if last in ("items", "keys", "values") and isinstance(it.func, ast.Attribute) and not it.args:
                    base = it.func.value
                    return self.is_tainted(base)
            break
        return self.is_set_expr(it) or self.is_tainted(it)

    def is_tainted(self, e):
        if isinstance(e, ast.Name):
            return e.id in self.tainted and getattr(e, "lineno", 1 << 30) >= self.tainted[e.id]
        if isinstance(e, ast.Attribute):
            return e.attr in TAINT_ATTRS or self.is_tainted(e.value)      # T.index, T.columns, T.values
        if isinstance(e, (ast.List, ast.Tuple)):
            return any(self.is_tainted(el) for el in e.elts)              # pd.concat([T, ..])
        if isinstance(e, ast.Subscript):                                  # T[mask] / T[:n] keep T's order (T[key] does not)
            return self.is_tainted(e.value) and (isinstance(e.slice, ast.Slice) or self.is_tainted(e.slice))
        if isinstance(e, (ast.ListComp, ast.DictComp, ast.GeneratorExp)):
            return any(self.hash_ordered_iter(g.iter) for g in e.generators)
        if isinstance(e, ast.Call):
            last = dotted(e.func).split(".")[-1]
            if last in ORDER_FREE:
                return False
            if None in TAINT_FUNCS.get(callee_name(e), ()):
                return True
            if isinstance(e.func, ast.Call) and dotted(e.func.func).split(".")[-1] == "Parallel" and e.args \
                    and isinstance(e.args[0], (ast.GeneratorExp, ast.ListComp)):
                job = e.args[0].elt      # Parallel(..)(delayed(f)(..) for ..): the list of f's results
                if isinstance(job, ast.Call) and isinstance(job.func, ast.Call) and job.func.args \
                        and TAINT_FUNCS.get(dotted(job.func.args[0]).split(".")[-1]):
                    return True
            if isinstance(e.func, ast.Attribute) and self.is_tainted(e.func.value) \
                    and last not in ("get", "pop", "count", "isin", "sum", "startswith", "split", "remove"):
                return True                                               # T.any(axis=0), T.copy(), T.items(), ...
            if last in ("list", "tuple", "dict", "Series", "DataFrame", "array", "asarray", "Index", "concat",
                        "reversed", "enumerate", "chain", "from_iterable"):
                args = list(e.args) + [k.value for k in e.keywords]
                return any(self.is_set_expr(a) or self.is_tainted(a) for a in args)
        return False

    @staticmethod
    def mutated_name(stmt_or_expr):
        """the container changed by `X[..] = ..`, `X[..].add(..)`, `X.append(..)`, `X += ..` (None otherwise)"""
        def base(e):
            while isinstance(e, ast.Subscript):
                e = e.value
            return e.id if isinstance(e, ast.Name) else None
        n = stmt_or_expr
        if isinstance(n, ast.Assign):
            for t in n.targets:
                if isinstance(t, ast.Subscript):
                    return base(t)
        if isinstance(n, ast.AugAssign):
            return base(n.target)
        if isinstance(n, ast.Call) and isinstance(n.func, ast.Attribute) and n.func.attr in MUTATORS:
            return base(n.func.value)
        return None

    def scan_taint(self, fn):
        for pname in PARAM_TAINT.get(getattr(fn, "name", ""), set()):
            self.tainted[pname] = 0
        # a statement inside a loop can influence everything from the start of the outermost enclosing loop
        loop_start = {}
        def mark(node, start):
            for ch in ast.iter_child_nodes(node):
                st = start
                if isinstance(ch, (ast.For, ast.While)) and st is None:
                    st = ch.lineno
                if hasattr(ch, "lineno"):
                    loop_start[id(ch)] = st if st is not None else ch.lineno
                mark(ch, st)
        mark(fn, None)

        def taint(x, node):
            line = loop_start.get(id(node), getattr(node, "lineno", 0))
            if x not in self.tainted or line < self.tainted[x]:
                self.tainted[x] = line
        for n in ast.walk(fn):
            # D[k] = "; ".join(S) / list(S) / tuple(S) with S a set: the VALUES of D depend on the hash seed
            if isinstance(n, ast.Assign) and len(n.targets) == 1 and isinstance(n.targets[0], ast.Subscript) \
                    and isinstance(n.targets[0].value, ast.Name) and isinstance(n.value, ast.Call) \
                    and dotted(n.value.func).split(".")[-1] in ENUMERATORS and n.value.args \
                    and self.is_set_expr(n.value.args[0]):
                self.valtainted.add(n.targets[0].value.id)
        for _ in range(4):
            for n in ast.walk(fn):
                if isinstance(n, ast.For) and self.hash_ordered_iter(n.iter):
                    for m in ast.walk(n):
                        x = self.mutated_name(m)
                        if x is not None and x not in self.setvars:
                            taint(x, n)      # built entry by entry in hash order (for a dict: its KEY order)
                elif isinstance(n, ast.Assign) and len(n.targets) == 1:
                    t = n.targets[0]
                    if isinstance(t, ast.Name) and self.is_tainted(n.value):
                        taint(t.id, n)
                    elif isinstance(t, ast.Tuple) and isinstance(n.value, ast.Call):
                        pos = TAINT_FUNCS.get(callee_name(n.value), ())
                        for i, el in enumerate(t.elts):
                            if isinstance(el, ast.Name) and (i in pos or None in pos):
                                taint(el.id, n)

    def enclosing_calls(self):
        """names of the calls around the node being visited, innermost first, up to the statement"""
        out = []
        for p in reversed(self.parents):
            if isinstance(p, ast.Call):
                out.append(dotted(p.func).split(".")[-1])
            elif isinstance(p, (ast.stmt, ast.comprehension)):
                break
        return out

    def order_free_here(self):
        return any(n in ORDER_FREE for n in self.enclosing_calls())

    def flag_iteration(self, it, line):
        """a `for` (statement or comprehension) over `it`"""
        if isinstance(it, (ast.Name, ast.Subscript)) and self.is_set_expr(it):
            self.effects.append((self.rel, self.func[-1], line, "set-order", f"for:{dotted(it)}", False))
            return
        core = it
        while isinstance(core, ast.Call) and dotted(core.func).split(".")[-1] in (
                "enumerate", "list", "tuple", "iter", "reversed", "items", "keys", "values") and (
                core.args or isinstance(core.func, ast.Attribute)):
            core = core.args[0] if core.args else core.func.value
        if isinstance(core, ast.Attribute) and core.attr in set(PROTEIN_MAPS) | TAINT_ATTRS:
            if core is it:      # `for k in proteins.peptide_map` (the `.keys()` forms are flagged at the call)
                self.effects.append((self.rel, self.func[-1], line, "map-order", f"raw:{core.attr}", False))
        elif not self.is_set_expr(it) and self.hash_ordered_iter(it) and not self.order_free_here():
            self.effects.append((self.rel, self.func[-1], line, "order-taint", f"for:{ast.unparse(it)}", False))

    def visit_Attribute(self, node):
        if node.attr in VALUE_TAINT_ATTRS and isinstance(node.ctx, ast.Load):
            # a dictionary whose value strings list a set in hash order: only its KEYS may be used
            parent = self.parents[-1] if self.parents else None
            keys_only = isinstance(parent, ast.Attribute) and parent.attr == "keys"
            member = isinstance(parent, ast.Compare) and node in parent.comparators and all(
                isinstance(o, (ast.In, ast.NotIn)) for o in parent.ops)
            accessor = isinstance(parent, ast.Return) and isinstance(node.value, ast.Name) and node.value.id == "self"
            if not (keys_only or member or accessor):
                how = parent.attr if isinstance(parent, ast.Attribute) else type(parent).__name__
                self.effects.append((self.rel, self.func[-1], node.lineno, "map-value", f"{node.attr}:{how}", False))
        self.generic_visit(node)

    def visit_For(self, node):
        self.flag_iteration(node.iter, node.lineno)
        self.generic_visit(node)

    def visit_comprehension(self, node):
        self.flag_iteration(node.iter, getattr(node.iter, "lineno", 0))
        self.generic_visit(node)

    visit_AsyncFunctionDef = visit_FunctionDef

    def generic_visit(self, node):
        self.parents.append(node)
        super().generic_visit(node)
        self.parents.pop()

    def kw(self, call, name):
        for k in call.keywords:
            if k.arg == name:
                return k.value
        return None

    def lit(self, node):
        if isinstance(node, ast.Constant) and isinstance(node.value, str):
            return node.value
        if isinstance(node, ast.JoinedStr):
            out = ""
            for v in node.values:
                out += v.value if isinstance(v, ast.Constant) else "{}"
            return out
        return None

    def wrapped_in(self, names):
        # is the innermost enclosing call one of `names` (e.g. sorted(glob(...)))?
        for p in reversed(self.parents):
            if isinstance(p, ast.Call):
                return dotted(p.func).split(".")[-1] in names
            if isinstance(p, (ast.stmt,)):
                return False
        return False

    def visit_Call(self, node):
        name = dotted(node.func)
        last = name.split(".")[-1]
        fn = self.func[-1]
        line = node.lineno
        add = lambda kind, detail, seeded: self.effects.append((self.rel, fn, line, kind, detail, seeded))  # noqa: E731
        map_attrs = set(PROTEIN_MAPS) | TAINT_ATTRS
        # ---- the seeded generator is an OPTIONAL argument of some callables of the package (`rng=None`: a fresh
        # generator from OS entropy): a call that leaves it out, or passes a literal None, is unseeded whatever seed
        # the caller of the enclosing function fixed
        callee = callee_name(node)
        if callee in RNG_PARAMS and RNG_PARAMS[callee][1]:
            pos = RNG_PARAMS[callee][0]
            given = [k.value for k in node.keywords if k.arg == "rng"]
            if pos is not None and len(node.args) > pos and not any(isinstance(a, ast.Starred) for a in node.args):
                given.append(node.args[pos])
            opaque = any(k.arg is None for k in node.keywords) or any(isinstance(a, ast.Starred) for a in node.args)
            if not given and not opaque:
                add("rng-default", f"{callee}:<omitted>", False)
            elif given and isinstance(given[0], ast.Constant) and given[0].value is None:
                add("rng-default", f"{callee}:None", False)
        # ---- `random_state=` of third-party objects (sklearn splitters / estimators, scipy): None = numpy's global
        # state; `shuffle=True` without a random_state is the same
        rs_kw = self.kw(node, "random_state")
        if last != "sample" and rs_kw is not None:
            add("random-state", f"{last}:{ast.unparse(rs_kw)}",
                not (isinstance(rs_kw, ast.Constant) and rs_kw.value is None))
        elif last != "sample" and callee not in FUNC_PARAMS and callee not in PACKAGE_CLASSES:
            sh = self.kw(node, "shuffle")
            if isinstance(sh, ast.Constant) and sh.value is True:
                add("random-state", f"{last}:<omitted>", False)
        # ---- randomness
        if name.startswith(("np.random.", "numpy.random.")):
            if last == "default_rng":
                # `default_rng()` / `default_rng(None)`: OS entropy
                arg = (list(node.args) + [k.value for k in node.keywords])[:1]
                add("rng-new", name, bool(arg) and not (isinstance(arg[0], ast.Constant) and arg[0].value is None))
            else:
                add("np-global", last, False)
        elif name.startswith("random."):
            add("py-random", last, False)
        elif last == "sample" and isinstance(node.func, ast.Attribute):
            rs = self.kw(node, "random_state")
            # `random_state=None` (or a literal that is not derived from the caller's seed) is the global state again
            add("df-sample", name, rs is not None and not (isinstance(rs, ast.Constant) and rs.value is None))
        elif last in ("permutation", "shuffle", "choice", "integers", "random", "normal", "uniform") \
                and isinstance(node.func, ast.Attribute) and "rng" in dotted(node.func.value):
            add("rng-draw", name, True)
        elif name in ("hash", "id") and len(node.args) == 1:
            add("hash-id", name, False)
        elif last in ("keys", "values", "items") and isinstance(node.func, ast.Attribute) \
                and isinstance(node.func.value, ast.Attribute) and node.func.value.attr in map_attrs:
            # the maps of a Proteins object are filled by read_fasta while it enumerates sets, so their KEY ORDER
            # depends on the hash seed: an enumeration of them is harmless only when sorted or used for membership
            how = "sorted" if self.wrapped_in(("sorted",)) else "isin" if self.wrapped_in(("isin",)) else "raw"
            add("map-order", f"{how}:{node.func.value.attr}.{last}", how != "raw")
        elif name in ("time.time", "time.perf_counter", "uuid.uuid4", "os.getpid", "datetime.datetime.now",
                      "datetime.now"):
            add("clock", name, False)
        elif last in ("glob", "rglob", "iglob", "listdir", "iterdir", "scandir", "walk"):
            # the order in which a directory is listed is a property of the file system
            pat = self.lit(node.args[-1]) if node.args else None
            free = self.order_free_here()
            add("dir-order", ("sorted" if "sorted" in self.enclosing_calls() else "count" if free else "raw")
                + ":" + last + ":" + (pat or (dotted(node.func.value) if isinstance(node.func, ast.Attribute) else "?")),
                free)
        elif last in ENUMERATORS and node.args and \
                isinstance(node.args[0], (ast.Name, ast.Subscript)) and self.is_set_expr(node.args[0]):
            add("set-order", f"{last}:{dotted(node.args[0])}", False)
        elif last == "pop" and isinstance(node.func, ast.Attribute) and not node.args and \
                isinstance(node.func.value, (ast.Name, ast.Subscript)) and self.is_set_expr(node.func.value):
            add("set-order", f"pop:{dotted(node.func.value)}", False)
        elif last in ENUMERATORS and any(
                (isinstance(a, ast.Attribute) and a.attr in map_attrs) for a in node.args):
            # pd.Series(proteins.peptide_map), list(proteins.peptide_map), ...
            a = [a for a in node.args if isinstance(a, ast.Attribute) and a.attr in map_attrs][0]
            free = self.order_free_here()
            add("map-order", ("sorted" if free else "raw") + f":{last}({a.attr})", free)
        elif last in ENUMERATORS + ("from_iterable",) and any(
                self.is_tainted(a) and not self.is_set_expr(a) for a in node.args):
            # a list / dict whose order was fixed by the enumeration of a set is enumerated in turn
            a = [a for a in node.args if self.is_tainted(a) and not self.is_set_expr(a)][0]
            free = self.order_free_here()
            add("order-taint", ("sorted" if free else "raw") + f":{last}({ast.unparse(a)})", free)
        elif name in ("set", "frozenset") and node.args:
            # a set whose iteration order may escape: list(set(..)), "..".join(set(..)), for .. in set(..)
            esc, top = None, node
            for p in reversed(self.parents):
                if isinstance(p, ast.Call):
                    pn = dotted(p.func).split(".")[-1]
                    if pn in ENUMERATORS:
                        esc = pn
                    break
                if isinstance(p, (ast.For, ast.comprehension)):
                    esc = "for"
                    break
                if isinstance(p, ast.BinOp):
                    top = p
                    continue
                if isinstance(p, ast.stmt):
                    break
            if esc:
                # one entry per SITE: the text of the whole set expression is part of the entry, so that a new
                # `list(set(..))` in a function that already has one is a new entry
                add("set-order", f"{esc}:{ast.unparse(top)}", False)
        if last in ("append", "extend", "insert", "appendleft") and isinstance(node.func, ast.Attribute) \
                and fn in DELAYED_FUNCS:
            base = node.func.value
            while isinstance(base, ast.Subscript):
                base = base.value
            if isinstance(base, ast.Name) and base.id in self.params[-1]:
                # a joblib worker appends to a list it shares with the other workers: completion order
                add("thread-order", f"{last}:{base.id}", False)
        # ---- file system
        fo = lambda kind, mode, target: self.fileops.append((self.rel, fn, line, kind, mode, target))  # noqa: E731
        if name == "open" or last == "open" and name in ("gzip.open", "io.open"):
            mode = "r"
            if len(node.args) > 1:
                mode = self.lit(node.args[1]) or "?"
            elif self.kw(node, "mode") is not None:
                mode = self.lit(self.kw(node, "mode")) or "?"
            fo("open", mode, dotted(node.args[0]) if node.args else "?")
        elif last == "open" and isinstance(node.func, ast.Attribute) and not name.startswith(
                ("gzip.", "io.", "os.", "webbrowser.", "tarfile.", "zipfile.")):
            # `some_path.open(mode)` / `.open(mode=...)` (pathlib): the mode is the first argument
            mode = "r"
            if node.args:
                mode = self.lit(node.args[0]) or "?"
            elif self.kw(node, "mode") is not None:
                mode = self.lit(self.kw(node, "mode")) or "?"
            fo("open", mode, dotted(node.func.value))
        elif last in ("write_text", "write_bytes") and isinstance(node.func, ast.Attribute):
            fo("open", "w", dotted(node.func.value))
        elif last in ("to_csv", "to_parquet"):
            mode = "w"
            m = self.kw(node, "mode")
            if m is not None:
                mode = self.lit(m) or "?"
            fo(last, mode, dotted(node.args[0]) if node.args else "?")
        elif last == "ParquetWriter":
            fo("parquet-writer", "w", dotted(node.args[0]) if node.args else (dotted(self.kw(node, "where")) if self.kw(node, "where") else "?"))
        elif name == "sqlite3.connect":
            fo("sqlite", "rw", dotted(node.args[0]) if node.args else "?")
        elif last == "unlink" or name in ("os.remove", "os.unlink"):
            fo("unlink", "-", dotted(node.args[0]) if node.args else
               (dotted(node.func.value) if isinstance(node.func, ast.Attribute) else "?"))
        elif last in ("glob", "rglob", "iglob"):
            pat = self.lit(node.args[-1]) if node.args else None
            fo("glob-sorted" if self.wrapped_in(("sorted",)) else "glob", "-", pat or "?")
        elif name in ("shutil.move", "shutil.copy", "shutil.copyfile", "os.rename", "os.replace") or (
                last in ("rename", "replace") and isinstance(node.func, ast.Attribute)
                and "path" in dotted(node.func.value).lower() and not node.keywords):
            fo("move", "-", ",".join(dotted(a) for a in node.args))
        elif last in ("exists", "is_file", "is_dir", "listdir", "iterdir", "scandir", "stat", "lexists", "isfile", "isdir",
                      "getmtime", "getsize", "getctime", "getatime", "samefile", "access", "lstat", "is_symlink", "touch") and (
                isinstance(node.func, ast.Attribute)):
            fo("probe", "-", dotted(node.func.value))
        elif last in ("mkdir", "makedirs"):
            fo("mkdir", "-", dotted(node.func.value) if isinstance(node.func, ast.Attribute) else "?")
        self.generic_visit(node)


def generate(repo: Path, outdir: Path, write_if_changed):
    effects, fileops = [], []
    consts = []
    trees = []
    for p in sorted((repo / "mokapot").rglob("*.py")):
        try:
            trees.append(ast.parse(p.read_text()))
        except SyntaxError:
            pass
    set_returning_functions(trees)
    interprocedural_tables(trees)
    for p in sorted((repo / "mokapot").rglob("*.py")):
        rel = str(p.relative_to(repo))
        try:
            tree = ast.parse(p.read_text())
        except SyntaxError:
            effects.append((rel, "<parse-error>", 0, "parse-error", "", False))
            continue
        w = Walker(rel)
        w.visit(tree)
        for e in w.effects:          # the two `set(..)` calls of `set(a) - set(b)` describe one site
            if e not in effects:
                effects.append(e)
        fileops += w.fileops
        if rel.endswith("constants.py"):
            for node in tree.body:
                if isinstance(node, ast.Assign) and isinstance(node.targets[0], ast.Name):
                    v = node.value
                    # int(os.getenv("NAME", default))
                    try:
                        inner = v.args[0]
                        env = inner.args[0].value
                        default = inner.args[1].value
                        consts.append((node.targets[0].id, env, int(default)))
                    except Exception:
                        consts.append((node.targets[0].id, "?", 0))
    # one entry per SITE: a repeated (function, kind, detail) gets an ordinal, so that a new enumeration with the same
    # text as an accounted one is a new entry (the allow-lists of Props/C08.lean name function + detail)
    seen_sites = {}
    numbered = []
    for f, fn, ln, k, d, sd in effects:
        if k in ("set-order", "order-taint", "thread-order", "map-order", "dir-order"):
            n = seen_sites[(f, fn, k, d)] = seen_sites.get((f, fn, k, d), 0) + 1
            if n > 1:
                d = f"{d}#{n}"
        numbered.append((f, fn, ln, k, d, sd))
    effects = numbered
    hdr = "/-! generated by tools/gen_repo.py from /repo/mokapot — do not edit -/\nnamespace Mk.Generated\n\n"
    eff = hdr + ("structure Effect where\n  file : String\n  func : String\n  line : Nat\n  kind : String\n"
                 "  detail : String\n  seeded : Bool\n  deriving Repr, DecidableEq\n\n"
                 "def effects : List Effect := [\n")
    eff += ",\n".join(
        f"  ⟨{lean_str(f)}, {lean_str(fn)}, {ln}, {lean_str(k)}, {lean_str(d)}, {'true' if s else 'false'}⟩"
        for f, fn, ln, k, d, s in effects)
    eff += "\n]\n\nend Mk.Generated\n"
    write_if_changed(outdir / "Effects.lean", eff)
    fo = hdr + ("structure FileOp where\n  file : String\n  func : String\n  line : Nat\n  kind : String\n"
                "  mode : String\n  target : String\n  append : Bool\n  deriving Repr, DecidableEq\n\n"
                "def fileOps : List FileOp := [\n")
    fo += ",\n".join(
        f"  ⟨{lean_str(f)}, {lean_str(fn)}, {ln}, {lean_str(k)}, {lean_str(m)}, {lean_str(t)}, "
        f"{'true' if ('a' in m or m == '?') else 'false'}⟩"
        for f, fn, ln, k, m, t in fileops)
    fo += "\n]\n\nend Mk.Generated\n"
    write_if_changed(outdir / "FileOps.lean", fo)
    cs = hdr + "def chunkConstants : List (String × String × Nat) := [\n"
    cs += ",\n".join(f"  ({lean_str(n)}, {lean_str(e)}, {d})" for n, e, d in consts)
    cs += "\n]\n\nend Mk.Generated\n"
    write_if_changed(outdir / "Constants.lean", cs)
    # source translation of the pure algorithmic functions (Generated/Src.lean), see tools/py2lean.py
    import importlib.util
    _spec = importlib.util.spec_from_file_location("py2lean", Path(__file__).resolve().parent / "py2lean.py")
    _m = importlib.util.module_from_spec(_spec)
    _spec.loader.exec_module(_m)
    _m.generate(repo, outdir, write_if_changed)
