"""AST translator: /repo/mokapot/**/*.py -> lean/MokapotVerif/Generated/*.lean

Effects.lean   every call site that can introduce nondeterminism (C08)
FileOps.lean   every call site that touches the file system, with its literal mode / pattern (C09)
Constants.lean streaming chunk-size constants and their environment variables (C05)

The tables are plain Lean lists of structures; the *rules* they must satisfy are hand-written theorems in
Props/C08.lean and Props/C09.lean, closed by `decide`, so they are re-checked against what the code says now."""
from __future__ import annotations

import ast
from pathlib import Path


def lean_str(s: str) -> str:
    return '"' + s.replace("\\", "\\\\").replace('"', '\\"').replace("\n", "\\n") + '"'


def dotted(node) -> str:
    if isinstance(node, ast.Name):
        return node.id
    if isinstance(node, ast.Attribute):
        return dotted(node.value) + "." + node.attr
    if isinstance(node, ast.Call):
        return dotted(node.func) + "()"
    if isinstance(node, ast.Subscript):
        return dotted(node.value) + "[]"
    return "?"


SET_FUNCS = set()   # bare names of functions of the package whose return value is a set (filled by generate)


def set_returning_functions(trees):
    """names of the functions whose `return` expression is set-typed according to the same local inference
    (iterated, so that a function returning another set-returning function's result is found too)"""
    found = set()
    for _ in range(3):
        SET_FUNCS.clear()
        SET_FUNCS.update(found)
        for tree in trees:
            for fn in ast.walk(tree):
                if isinstance(fn, (ast.FunctionDef, ast.AsyncFunctionDef)):
                    w = Walker("?")
                    w.scan_set_variables(fn)
                    for n in ast.walk(fn):
                        if isinstance(n, ast.Return) and n.value is not None and w.is_set_expr(n.value):
                            found.add(fn.name)
    SET_FUNCS.clear()
    SET_FUNCS.update(found)
    return found


class Walker(ast.NodeVisitor):
    def __init__(self, rel):
        self.rel = rel
        self.func = ["<module>"]
        self.effects = []
        self.fileops = []
        self.parents = []
        self.setvars = set()
        self.dosvars = set()

    def visit_FunctionDef(self, node):
        self.func.append(node.name)
        saved = (self.setvars, self.dosvars)
        self.setvars, self.dosvars = set(self.setvars), set(self.dosvars)
        self.scan_set_variables(node)
        self.generic_visit(node)
        self.setvars, self.dosvars = saved
        self.func.pop()

    # ---- a small flow-insensitive inference of set-typed local names ------------------------------
    def is_set_expr(self, e):
        if isinstance(e, (ast.Set, ast.SetComp)):
            return True
        if isinstance(e, ast.Call):
            n = dotted(e.func)
            if n in ("set", "frozenset") or n.startswith("set.") and n.split(".")[-1] in (
                    "intersection", "union", "difference", "symmetric_difference"):
                return True
            if isinstance(e.func, ast.Attribute) and e.func.attr in (
                    "intersection", "union", "difference", "symmetric_difference", "copy") \
                    and self.is_set_expr(e.func.value):
                return True
            if n.split(".")[-1] in SET_FUNCS:      # a function of the package that returns a set
                return True
        if isinstance(e, ast.Name):
            return e.id in self.setvars
        if isinstance(e, ast.Subscript) and isinstance(e.value, ast.Name):
            return e.value.id in self.dosvars
        if isinstance(e, ast.BinOp) and isinstance(e.op, (ast.BitOr, ast.BitAnd, ast.Sub, ast.BitXor)):
            return self.is_set_expr(e.left) or self.is_set_expr(e.right)
        return False

    def is_dos_expr(self, e):
        if isinstance(e, ast.Call) and dotted(e.func).split(".")[-1] == "defaultdict" and e.args \
                and dotted(e.args[0]) == "set":
            return True
        if isinstance(e, ast.DictComp) and self.is_set_expr(e.value):
            return True
        return isinstance(e, ast.Name) and e.id in self.dosvars

    def bind_items_target(self, target, it):
        """for k, v in D.items() / for v in D.values() with D a dict of sets: v is a set"""
        if isinstance(it, ast.Call) and isinstance(it.func, ast.Attribute) and isinstance(it.func.value, ast.Name) \
                and it.func.value.id in self.dosvars:
            if it.func.attr == "items" and isinstance(target, ast.Tuple) and len(target.elts) == 2 \
                    and isinstance(target.elts[1], ast.Name):
                self.setvars.add(target.elts[1].id)
            if it.func.attr == "values" and isinstance(target, ast.Name):
                self.setvars.add(target.id)

    def scan_set_variables(self, fn):
        for _ in range(3):       # a few passes instead of a real fix-point
            for n in ast.walk(fn):
                if isinstance(n, ast.Assign) and len(n.targets) == 1 and isinstance(n.targets[0], ast.Name):
                    if self.is_dos_expr(n.value):
                        self.dosvars.add(n.targets[0].id)
                    elif self.is_set_expr(n.value):
                        self.setvars.add(n.targets[0].id)
                elif isinstance(n, ast.For):
                    self.bind_items_target(n.target, n.iter)
                elif isinstance(n, ast.comprehension):
                    self.bind_items_target(n.target, n.iter)
        # parameters documented as sets cannot be seen; only what is constructed locally

    def flag_set_var(self, how, e, line):
        if isinstance(e, (ast.Name, ast.Subscript)) and self.is_set_expr(e):
            self.effects.append((self.rel, self.func[-1], line, "set-order", f"{how}:{dotted(e)}", False))

    def visit_For(self, node):
        self.flag_set_var("for", node.iter, node.lineno)
        self.generic_visit(node)

    def visit_comprehension(self, node):
        self.flag_set_var("for", node.iter, getattr(node.iter, "lineno", 0))
        self.generic_visit(node)

    visit_AsyncFunctionDef = visit_FunctionDef

    def generic_visit(self, node):
        self.parents.append(node)
        super().generic_visit(node)
        self.parents.pop()

    def kw(self, call, name):
        for k in call.keywords:
            if k.arg == name:
                return k.value
        return None

    def lit(self, node):
        if isinstance(node, ast.Constant) and isinstance(node.value, str):
            return node.value
        if isinstance(node, ast.JoinedStr):
            out = ""
            for v in node.values:
                out += v.value if isinstance(v, ast.Constant) else "{}"
            return out
        return None

    def wrapped_in(self, names):
        # is the innermost enclosing call one of `names` (e.g. sorted(glob(...)))?
        for p in reversed(self.parents):
            if isinstance(p, ast.Call):
                return dotted(p.func).split(".")[-1] in names
            if isinstance(p, (ast.stmt,)):
                return False
        return False

    def visit_Call(self, node):
        name = dotted(node.func)
        last = name.split(".")[-1]
        fn = self.func[-1]
        line = node.lineno
        add = lambda kind, detail, seeded: self.effects.append((self.rel, fn, line, kind, detail, seeded))  # noqa: E731
        # ---- randomness
        if name.startswith(("np.random.", "numpy.random.")):
            if last == "default_rng":
                add("rng-new", name, bool(node.args or node.keywords))
            else:
                add("np-global", last, False)
        elif name.startswith("random."):
            add("py-random", last, False)
        elif last == "sample" and isinstance(node.func, ast.Attribute):
            add("df-sample", name, self.kw(node, "random_state") is not None)
        elif last in ("permutation", "shuffle", "choice") and isinstance(node.func, ast.Attribute) \
                and "rng" in dotted(node.func.value):
            add("rng-draw", name, True)
        elif name in ("hash", "id") and len(node.args) == 1:
            add("hash-id", name, False)
        elif last in ("keys", "values", "items") and isinstance(node.func, ast.Attribute) \
                and isinstance(node.func.value, ast.Attribute) \
                and node.func.value.attr in ("peptide_map", "protein_map", "shared_peptides"):
            # the maps of a Proteins object are filled by read_fasta while it enumerates sets, so their KEY ORDER
            # depends on the hash seed: an enumeration of them is harmless only when sorted or used for membership
            how = "sorted" if self.wrapped_in(("sorted",)) else "isin" if self.wrapped_in(("isin",)) else "raw"
            add("map-order", f"{how}:{node.func.value.attr}.{last}", how != "raw")
        elif name in ("time.time", "time.perf_counter", "uuid.uuid4", "os.getpid", "datetime.datetime.now",
                      "datetime.now"):
            add("clock", name, False)
        elif last in ("list", "tuple", "join", "enumerate", "array", "next", "iter") and node.args and \
                isinstance(node.args[0], (ast.Name, ast.Subscript)) and self.is_set_expr(node.args[0]):
            add("set-order", f"{last}:{dotted(node.args[0])}", False)
        elif last == "pop" and isinstance(node.func, ast.Attribute) and not node.args and \
                isinstance(node.func.value, (ast.Name, ast.Subscript)) and self.is_set_expr(node.func.value):
            add("set-order", f"pop:{dotted(node.func.value)}", False)
        elif name in ("set", "frozenset") and node.args:
            # a set whose iteration order may escape: list(set(..)), "..".join(set(..)), for .. in set(..)
            esc = None
            for p in reversed(self.parents):
                if isinstance(p, ast.Call):
                    pn = dotted(p.func).split(".")[-1]
                    if pn in ("list", "tuple", "join", "enumerate", "array"):
                        esc = pn
                    break
                if isinstance(p, (ast.For, ast.comprehension)):
                    esc = "for"
                    break
                if isinstance(p, ast.BinOp):
                    continue
                if isinstance(p, ast.stmt):
                    break
            if esc:
                add("set-order", esc, False)
        # ---- file system
        fo = lambda kind, mode, target: self.fileops.append((self.rel, fn, line, kind, mode, target))  # noqa: E731
        if name == "open" or last == "open" and name in ("gzip.open", "io.open"):
            mode = "r"
            if len(node.args) > 1:
                mode = self.lit(node.args[1]) or "?"
            elif self.kw(node, "mode") is not None:
                mode = self.lit(self.kw(node, "mode")) or "?"
            fo("open", mode, dotted(node.args[0]) if node.args else "?")
        elif last == "open" and isinstance(node.func, ast.Attribute) and not name.startswith(
                ("gzip.", "io.", "os.", "webbrowser.", "tarfile.", "zipfile.")):
            # `some_path.open(mode)` / `.open(mode=...)` (pathlib): the mode is the first argument
            mode = "r"
            if node.args:
                mode = self.lit(node.args[0]) or "?"
            elif self.kw(node, "mode") is not None:
                mode = self.lit(self.kw(node, "mode")) or "?"
            fo("open", mode, dotted(node.func.value))
        elif last in ("write_text", "write_bytes") and isinstance(node.func, ast.Attribute):
            fo("open", "w", dotted(node.func.value))
        elif last in ("to_csv", "to_parquet"):
            mode = "w"
            m = self.kw(node, "mode")
            if m is not None:
                mode = self.lit(m) or "?"
            fo(last, mode, dotted(node.args[0]) if node.args else "?")
        elif last == "ParquetWriter":
            fo("parquet-writer", "w", dotted(node.args[0]) if node.args else (dotted(self.kw(node, "where")) if self.kw(node, "where") else "?"))
        elif name == "sqlite3.connect":
            fo("sqlite", "rw", dotted(node.args[0]) if node.args else "?")
        elif last == "unlink" or name in ("os.remove", "os.unlink"):
            fo("unlink", "-", dotted(node.args[0]) if node.args else
               (dotted(node.func.value) if isinstance(node.func, ast.Attribute) else "?"))
        elif last in ("glob", "rglob", "iglob"):
            pat = self.lit(node.args[-1]) if node.args else None
            fo("glob-sorted" if self.wrapped_in(("sorted",)) else "glob", "-", pat or "?")
        elif name in ("shutil.move", "shutil.copy", "shutil.copyfile", "os.rename", "os.replace") or (
                last in ("rename", "replace") and isinstance(node.func, ast.Attribute)
                and "path" in dotted(node.func.value).lower() and not node.keywords):
            fo("move", "-", ",".join(dotted(a) for a in node.args))
        elif last in ("exists", "is_file", "is_dir", "listdir", "iterdir", "scandir", "stat", "lexists", "isfile") and (
                isinstance(node.func, ast.Attribute)):
            fo("probe", "-", dotted(node.func.value))
        elif last in ("mkdir", "makedirs"):
            fo("mkdir", "-", dotted(node.func.value) if isinstance(node.func, ast.Attribute) else "?")
        self.generic_visit(node)


def generate(repo: Path, outdir: Path, write_if_changed):
    effects, fileops = [], []
    consts = []
    trees = []
    for p in sorted((repo / "mokapot").rglob("*.py")):
        try:
            trees.append(ast.parse(p.read_text()))
        except SyntaxError:
            pass
    set_returning_functions(trees)
    for p in sorted((repo / "mokapot").rglob("*.py")):
        rel = str(p.relative_to(repo))
        try:
            tree = ast.parse(p.read_text())
        except SyntaxError:
            effects.append((rel, "<parse-error>", 0, "parse-error", "", False))
            continue
        w = Walker(rel)
        w.visit(tree)
        effects += w.effects
        fileops += w.fileops
        if rel.endswith("constants.py"):
            for node in tree.body:
                if isinstance(node, ast.Assign) and isinstance(node.targets[0], ast.Name):
                    v = node.value
                    # int(os.getenv("NAME", default))
                    try:
                        inner = v.args[0]
                        env = inner.args[0].value
                        default = inner.args[1].value
                        consts.append((node.targets[0].id, env, int(default)))
                    except Exception:
                        consts.append((node.targets[0].id, "?", 0))
    hdr = "/-! generated by tools/gen_repo.py from /repo/mokapot — do not edit -/\nnamespace Mk.Generated\n\n"
    eff = hdr + ("structure Effect where\n  file : String\n  func : String\n  line : Nat\n  kind : String\n"
                 "  detail : String\n  seeded : Bool\n  deriving Repr, DecidableEq\n\n"
                 "def effects : List Effect := [\n")
    eff += ",\n".join(
        f"  ⟨{lean_str(f)}, {lean_str(fn)}, {ln}, {lean_str(k)}, {lean_str(d)}, {'true' if s else 'false'}⟩"
        for f, fn, ln, k, d, s in effects)
    eff += "\n]\n\nend Mk.Generated\n"
    write_if_changed(outdir / "Effects.lean", eff)
    fo = hdr + ("structure FileOp where\n  file : String\n  func : String\n  line : Nat\n  kind : String\n"
                "  mode : String\n  target : String\n  append : Bool\n  deriving Repr, DecidableEq\n\n"
                "def fileOps : List FileOp := [\n")
    fo += ",\n".join(
        f"  ⟨{lean_str(f)}, {lean_str(fn)}, {ln}, {lean_str(k)}, {lean_str(m)}, {lean_str(t)}, "
        f"{'true' if ('a' in m or m == '?') else 'false'}⟩"
        for f, fn, ln, k, m, t in fileops)
    fo += "\n]\n\nend Mk.Generated\n"
    write_if_changed(outdir / "FileOps.lean", fo)
    cs = hdr + "def chunkConstants : List (String × String × Nat) := [\n"
    cs += ",\n".join(f"  ({lean_str(n)}, {lean_str(e)}, {d})" for n, e, d in consts)
    cs += "\n]\n\nend Mk.Generated\n"
    write_if_changed(outdir / "Constants.lean", cs)
