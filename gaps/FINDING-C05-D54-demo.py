"""D54 demo: identifier cells of a text input are re-spelled in the result files depending on CONFIDENCE_CHUNK_SIZE"""
import tempfile, importlib
from pathlib import Path
import numpy as np, pandas as pd
import mokapot
d = Path(tempfile.mkdtemp())
(d / "a.pin").write_text(
    "SpecId\tLabel\tScanNr\tExpMass\tfeat0\tPeptide\tProteins\n"
    "007\t1\t1\t500\t3\tPEPA\t02\n"
    "x8\t-1\t2\t501\t2\tdecoy_PEPB\tdecoy_P2\n")
conf = importlib.import_module("mokapot.confidence")
for c in (1, 2):
    conf.CONFIDENCE_CHUNK_SIZE = c
    ds = mokapot.read_pin(d / "a.pin", max_workers=1)[0]
    out = d / f"out{c}"; out.mkdir()
    conf.peps_from_scores = lambda s, t, a="qvality": np.zeros(len(s))     # two rows: the PEP estimators are degenerate
    mokapot.assign_confidence([ds], scores=[np.array([3.0, 2.0])], dest_dir=out, max_workers=1, prefixes=[None])
    print(f"CONFIDENCE_CHUNK_SIZE={c}: targets.psms =", (out / "targets.psms").read_text().splitlines()[1].split("\t"))
