"""D53 demo: fold assignment (hence brew scores) depends on the storage width of the spectrum columns"""
import sys, random, tempfile
from pathlib import Path
import numpy as np, pandas as pd, pyarrow as pa, pyarrow.parquet as pq
import mokapot
rows = []
r = random.Random(7)
for s in range(60):
    for j in range(2):
        t = r.random() < 0.5
        rows.append(dict(SpecId=f"{'t' if t else 'd'}_{s}_{j}", Label=1 if t else -1, ScanNr=1000 + s,
                         feat0=round(r.gauss(3.0 if t and r.random() < .6 else 0.0, 1.0), 3), feat1=round(r.gauss(0, 1), 3),
                         Peptide=("" if t else "decoy_") + f"PEP{r.randrange(30)}K", Proteins="P"))
df = pd.DataFrame(rows)
d = Path(tempfile.mkdtemp())
df.to_csv(d / "a.pin", sep="\t", index=False)
pq.write_table(pa.Table.from_pandas(df, preserve_index=False), d / "a64.parquet")
pq.write_table(pa.Table.from_pandas(df.astype({"ScanNr": "int32"}), preserve_index=False), d / "a32.parquet")
out = {}
for name in ("a.pin", "a64.parquet", "a32.parquet"):
    ds = mokapot.read_pin(d / name, max_workers=1)[0]
    folds = [sorted(int(i) for i in f) for f in mokapot.read_pin(d / name, max_workers=1)[0]._split(3, np.random.default_rng(1))]
    _, models, scores, _ = mokapot.brew(ds, mokapot.PercolatorModel(train_fdr=0.25, max_iter=2, rng=1, override=True), test_fdr=0.25, folds=3, max_workers=1, rng=1)
    out[name] = (folds, np.asarray(scores[0]))
for name in ("a64.parquet", "a32.parquet"):
    same_folds = out[name][0] == out["a.pin"][0]
    nd = int((~np.isclose(out[name][1], out["a.pin"][1], rtol=1e-9, atol=1e-9)).sum())
    print(f"{name}: folds {'same as' if same_folds else 'DIFFERENT from'} text; brew scores differing from text: {nd} of {len(df)}")
