"""C18 — generated decoys preserve length, composition and cleavage structure
(correspondence harness).

Implementation under test: `mokapot.make_decoys` (observe point: its output file), re-read with
the package's own reader (`_parse_fasta_files` / `_parse_protein`).
Model: driver op `c18-mkdecoys` (text of the output file, given the permutations numpy drew).
Spec: driver op `spec-C18` on (ground-truth targets, entries re-read from the implementation's
output) — independent of the model; proved sound in `C18_spec_checker_sound(_sites)`.

Added dimensions (GAPS-C18.md): (A) the stateful model `c18-run` receives the *ordered* list of
`np.random.permutation` results and must reproduce the text *and* the number of generator calls
(the `perms` dict, the retry loop); (B) enzymes that are not residue classes (multi-letter,
look-behind, empty matches, anchors) with the sites computed here with `re` and handed to the
model as a table, checked by the proved file-level checker `spec-C18-file`; (C) call forms
(options omitted = documented defaults, positional, str/list/tuple of files); (D) an output file
that already exists (stale content, or one of the inputs).

Second pass (GAPS-C18.md, "Second pass"): (E) scripted generator states — `np.random.permutation` is
replaced for some cases by a generator that returns the identity always / for the first k calls /
with probability p / never: the branch of the retry loop that gives up after 100 tries is reached,
and the number of calls is judged by the proved spec `spec-C18-calls` (`callsOK`) on sites computed
here; (G) the generated files are also described declaratively (records = name, description, lines;
newline convention) and rendered by the driver op `c18-layout`: the text must be the file written here
and the real reader must return the proteins the description denotes (`C18_fasta_input_parse`), several
files must read as the concatenation of the single files (`C18_several_files`); (F) further call forms
(`fasta=`/`out_file=` by keyword, `pathlib.Path`, a generator of paths, flags as int / numpy bool,
compiled regexes with flags), duplicate records, calls with hundreds of records or sequences of
thousands of residues.

Third pass (GAPS-C18.md, "Third pass"): (H) inputs with text before the first record — empty files (also the
first, also all), files that hold line breaks only, blank lines before the first record of a file — are ordinary
cases with a ground truth (they used to be "exotic: whatever the model reader makes of them", which hid the
defect D50 of fasta.py:332); the declarative description is the unrestricted one (`c18-input`:
`[eol, leading blank lines, records]` per file, `C18_fasta_input_parse_any`), a wrong reading is reported as
`input-parse:text-before-first-record`; `;` comment lines before the first record; an input without any record
must give an empty output file and no generator call (`C18_no_record_input_writes_empty_file`); every described
input is also read file by file (`C18_input_depends_on_records_only`); (J) second calls: the file a call wrote is
the input of a follow-up call (alone or next to a fresh file) whose targets must be the entries of the first
output; (K) a call the reader refuses must leave the output path as it was.
"""
from __future__ import annotations

import itertools
import json
import logging
import os
import pathlib
import random
import re
import shutil
import tempfile

import numpy as np

import common
from common import Atom, a_bool, a_int, a_str, dec, req

RULE = (
    "cases = one make_decoys call each (1-3 FASTA files, 1-8 records, multi-line/blank-line/CRLF layouts, "
    "sequence lengths 0..300 with emphasis on 0-8 and 69/70/71/139-141, 8 enzymes incl. negative look-ahead and "
    "compiled regexes, 11 enzymes that are no residue classes (multi-letter, look-behind, empty matches, anchors; "
    "sites from `re` in the harness), 6 prefixes, shuffle/reverse, concatenate on/off, random global numpy RNG state, "
    "options passed by keyword / positionally / omitted at their documented defaults, files as str/list/tuple, "
    "output file absent / stale / one of the inputs; fasta/out_file by keyword, pathlib.Path, generator of paths, "
    "int / numpy-bool flags, compiled regexes with re.I / re.X flags; duplicate records; a few calls with 150-400 "
    "records or sequences of 400-2500 residues; ~12% of the cases with empty files (first / between / last / all), "
    "files of line breaks only, 1-3 blank lines or ';' comment lines before the first record of a file; ~4% of the "
    "calls followed by a second call that reads the file just written; ~4% of the cases with a scripted generator state: identity always / "
    "for the first k in {1,5,99,100,101,150} calls / with probability 0.9 / never); "
    "distinct = distinct (per-protein site lists, reverse, concat, enzyme); non-trivial = at least one peptide "
    "with an interior of >= 2 residues (something is actually permuted); every tier adds an exhaustive sweep "
    "over all sequences on the alphabet {K,P,A,B} up to a length bound x {[KR], [KR](?!P)} x {shuffle, reverse}"
)

# regex, cut class, blocked look-ahead class
ENZYMES = [
    ("[KR]", "KR", ""),
    ("[KR]", "KR", ""),
    ("K", "K", ""),
    ("[FWY]", "FWY", ""),
    ("[DE]", "DE", ""),
    ("[KR](?!P)", "KR", "P"),
    ("R(?!P)", "R", "P"),
    ("[KR](?![PG])", "KR", "PG"),
]
# enzymes that are NOT a residue class (optionally with look-ahead): only the enzyme-independent
# clauses are promised; the sites are computed in the harness with `re` (not with the package)
GENERAL_ENZYMES = ["KR", "[KR][^P]", "K|RR", "(?<=K)", "[KR]+", "K*", ".{5}", "^M", "$", "(?<=[KR])(?!P)", "(?i)k"]
# compiled regexes whose meaning depends on their flags (pattern, flags): sites computed here with the same flags
FLAGGED_ENZYMES = [("k", re.I), ("[kr]", re.I), ("K  # lysine\n", re.X), ("[k r] (?!p)", re.I | re.X)]
# the documented signature: make_decoys(fasta, out_file, decoy_prefix="decoy_", enzyme="[KR]", reverse=False,
# concatenate=True); textwrap default width 70 — cross-checked against the model's constants (`c18-defaults`)
DEFAULTS = dict(prefix="decoy_", regex="[KR]", reverse=False, concat=True, width=70)
PREFIXES = ["decoy_", "decoy_", "rev_", "", "DECOY|", "##", "rév-"]
AA = "ACDEFGHIKLMNPQRSTVWY"
NAMECH = "ABCXYZabcxyz0123456789|_.:-#"
DESCCH = "ABCabc019 |_.:->=,;()[]\t"
LENS = [0, 0, 1, 1, 2, 3, 4, 5, 6, 7, 8, 10, 12, 16, 20, 27, 35, 50, 68, 69, 70, 71, 72, 100, 139, 140, 141, 210, 300]
logging.disable(logging.WARNING)  # `_parse_protein` warns about every empty sequence
WS = set(" \t\n\r\x0b\x0c")
QUICK = [True]   # set by main


# ----------------------------------------------------------------------------
# generators
# ----------------------------------------------------------------------------
SMALL_LENS = [0, 1, 3, 4, 5, 6, 7, 8, 10, 12, 16, 20, 27, 35]


def gen_seq(rng, cut, block, lens=LENS):
    n = rng.choice(lens)
    style = rng.choice(["aa", "aa", "aa", "dense", "sparse", "nocut", "allcut", "lookahead", "distinct"])
    if style == "aa":
        s = [rng.choice(AA) for _ in range(n)]
    elif style == "dense":
        s = [rng.choice(cut) if rng.random() < 0.35 else rng.choice(AA) for _ in range(n)]
    elif style == "sparse":
        others = [c for c in AA if c not in cut]
        s = [rng.choice(cut) if rng.random() < 0.04 else rng.choice(others) for _ in range(n)]
    elif style == "nocut":
        others = [c for c in AA + "bjouxz" if c not in cut]
        s = [rng.choice(others) for _ in range(n)]
    elif style == "allcut":
        s = [rng.choice(cut) for _ in range(n)]
    elif style == "lookahead":
        pool = cut + (block or "P") + "AG"
        s = [rng.choice(pool) for _ in range(n)]
    else:  # every interior position distinguishable: any wrong index shows
        pool = [c for c in "ABCDEFGHIJLMNOQSTUVWXYZabcdefghijklmnopqrstuvwxyz0123456789" if c not in cut]
        s = []
        while len(s) < n:
            k = rng.randint(1, 40)
            s += rng.sample(pool, min(k, len(pool)))
            s.append(rng.choice(cut))
        s = s[:n]
    if n and rng.random() < 0.05:
        s[-1] = "*"
    return "".join(s)


def gen_name(rng):
    r = rng.random()
    if r < 0.02:
        return ""
    if r < 0.06:
        return ">" + "".join(rng.choice(NAMECH) for _ in range(rng.randint(0, 5)))
    if r < 0.09:
        # only a blank ends the name (`split(" ")`): a tab is part of it
        return "".join(rng.choice(NAMECH) for _ in range(rng.randint(1, 4))) + "\t" + rng.choice(["", "x", "d:1"])
    if r < 0.13:
        return "sp|" + "".join(rng.choice(NAMECH) for _ in range(rng.randint(1, 6))) + "|β"
    return "".join(rng.choice(NAMECH) for _ in range(rng.randint(1, 12)))


def layout(rng, name, seq, eol):
    """text of one record (without the final line end), whether it is multi-line, and the record as the
    declarative description `[name, [description] | None, [line …]]` (driver op `c18-layout`)"""
    head = ">" + name
    desc = None
    if rng.random() < 0.5:
        desc = "".join(rng.choice(DESCCH) for _ in range(rng.randint(0, 15)))
        head += " " + desc
    lines = []
    mode = rng.choice(["one", "w60", "w70", "w80", "rand", "tiny"])
    if mode == "one" or not seq:
        if seq or rng.random() < 0.3:
            lines = [seq]
    else:
        i = 0
        while i < len(seq):
            w = {"w60": 60, "w70": 70, "w80": 80, "tiny": rng.randint(1, 3)}.get(mode) or rng.randint(1, 90)
            lines.append(seq[i:i + w])
            i += w
            if rng.random() < 0.04:
                lines.append("")  # blank line inside a record
    return eol.join([head] + lines), len([l for l in lines if l]) > 1, [name, None if desc is None else [desc], lines]


EOLNAME = {"\n": "lf", "\r\n": "crlf", "\r": "cr"}
SCRIPTS = [["id-all"], ["id-all"], ["never-id"], ["never-id"], ["id-first", 1], ["id-first", 5], ["id-first", 99],
           ["id-first", 100], ["id-first", 101], ["id-first", 150], ["id-prob", 0.9]]


def gen_stale(rng):
    """previous content of the output file"""
    kind = rng.choice(["junk", "long", "fasta", "empty"])
    if kind == "junk":
        return "".join(rng.choice("xyz\n>#") for _ in range(rng.randint(1, 30)))
    if kind == "long":   # longer than anything the call writes: a missing truncation leaves a tail
        return "\n".join(">old%d\n%s" % (i, "W" * 70) for i in range(120)) + "\n"
    if kind == "fasta":
        return ">stale\nMKAAAAAAKBBBBR\n"
    return ""


BIG_LENS = [400, 700, 1401, 2500]


def gen_case(rng, exotic_ok=True, script=None, size=None):
    regex, cut, block = rng.choice(ENZYMES)
    enz_kind = "class"
    reflags = 0
    if rng.random() < 0.18:
        regex, cut, block, enz_kind = rng.choice(GENERAL_ENZYMES), "KR", "", "general"
        if rng.random() < 0.2:
            regex, reflags = rng.choice(FLAGGED_ENZYMES)
    call = rng.choice(["kw", "kw", "pos", "omit", "omit", "allkw"])
    small = script is not None   # scripted generators may be asked 100 times per length: keep the lengths few
    nfiles = rng.choice([1, 1, 1, 2, 2, 3]) if not small else rng.choice([1, 1, 2])
    if size:   # calls with hundreds of records / sequences of thousands of residues
        nfiles = rng.choice([1, 2])
    files, truth, lay = [], [], []
    multiline = False
    eols = []
    dup = None
    for _ in range(nfiles):
        eol = rng.choice(["\n", "\n", "\n", "\r\n", "\r"])
        eols.append(eol)
        recs, srecs = [], []
        nrec = rng.choice([1, 1, 2, 2, 3, 4, 6, 8]) if not small else rng.choice([1, 2, 3])
        lens = SMALL_LENS if small else LENS
        if size == "many-records":
            nrec, lens = rng.randint(150, 400) // nfiles, SMALL_LENS + [50, 71]
        elif size == "long-sequences":
            nrec, lens = rng.choice([1, 2]), BIG_LENS
        for _ in range(nrec):
            name, seq = gen_name(rng), gen_seq(rng, cut, block, lens)
            if truth and rng.random() < 0.06:
                # duplicate records: the same name again (with the same or another sequence), or the same
                # sequence under another name — every record must come out, in order
                dup = rng.choice(["name+seq", "name", "seq"])
                oname, oseq = rng.choice(truth)
                name, seq = (oname if dup != "seq" else name), (oseq if dup != "name" else seq)
            txt, ml, srec = layout(rng, name, seq, eol)
            multiline |= ml
            recs.append(txt)
            srecs.append(srec)
            truth.append([name, seq])
        text = eol.join(recs)
        if rng.random() < 0.7:
            text += eol
            srecs[-1][2].append("")      # a final line end = an empty last line of the last record
            if rng.random() < 0.1:
                text += eol
                srecs[-1][2].append("")
        lead = 0
        if rng.random() < 0.06:          # blank lines before the first record of the file
            lead = rng.choice([1, 1, 2, 3])
            text = eol * lead + text
        files.append(text)
        lay.append([EOLNAME[eol], lead, srecs])
    pre_kind = "none"
    if not size and rng.random() < 0.07:
        # files without any record: empty, or line breaks only — first, between, last, or nothing else
        pre_kind = rng.choice(["empty-first", "empty-first", "empty-any", "empty-any", "empty-any", "blank-only-file",
                               "no-record-at-all"])
        if pre_kind == "no-record-at-all":
            files, lay, truth, multiline, dup = [], [], [], False, None
        for _ in range(rng.choice([1, 1, 2]) if (files or pre_kind != "no-record-at-all") else 1):
            eol = rng.choice(["\n", "\n", "\r\n", "\r"])
            k = 0 if pre_kind.startswith("empty") else rng.randint(1, 3)
            if pre_kind == "no-record-at-all":
                k = rng.choice([0, 0, 1, 2])
            pos = 0 if pre_kind == "empty-first" else rng.randrange(len(files) + 1)
            files.insert(pos, eol * k)
            lay.insert(pos, [EOLNAME[eol], k, []])
            eols.append(eol)
    nfiles = len(files)
    case = dict(
        files=files, truth=truth, regex=regex, cut=cut, block=block,
        compiled=(rng.random() < 0.2) or reflags != 0,
        prefix=rng.choice(PREFIXES), reverse=rng.random() < 0.4, concat=rng.random() < 0.6,
        npseed=rng.randrange(2 ** 32), klass="plain", eol="".join(sorted(set(repr(e)[1:-1] for e in eols))),
        multiline=multiline, enz_kind=enz_kind, call=call,
        argform=(rng.choice(["str", "list", "list", "tuple", "path", "pathlist", "gen"]) if nfiles == 1
                 else rng.choice(["list", "tuple", "pathlist", "gen"])),
        stale=gen_stale(rng) if rng.random() < 0.3 else None, out_is_input=rng.random() < 0.06,
        layout=lay, reflags=reflags, out_path=rng.random() < 0.15,
        flagform=rng.choice(["bool", "bool", "bool", "int", "npbool"]), script=script, dup=dup,
        size=size or "ordinary", chain=(not size and script is None and rng.random() < 0.04),
    )
    if not size and truth and rng.random() < 0.025:
        # text that is no record before the first record: `;` comment lines (the old FASTA convention) — dropped
        # by the reader (`C18_reader_ignores_text_before_first_record`); the truth stays, the description no
        # longer applies
        e0 = {"lf": "\n", "crlf": "\r\n", "cr": "\r"}[lay[0][0]]
        com = "".join(";" + "".join(rng.choice(DESCCH.replace(">", "")) for _ in range(rng.randint(0, 12))) + e0
                      for _ in range(rng.randint(1, 2)))
        files[0] = com + files[0]
        case["layout"] = None
        case["klass"] = "comment-lines-first"
    if script is not None and rng.random() < 0.85:
        case["reverse"] = False          # (reversal with a scripted generator: it must not be asked at all)
    if call == "omit":
        # options left out of the call take their documented defaults (each with probability 0.6; 13% all four)
        if rng.random() < 0.6:
            case["prefix"] = DEFAULTS["prefix"]
        if rng.random() < 0.6:
            case.update(regex=DEFAULTS["regex"], cut="KR", block="", compiled=False, enz_kind="class", reflags=0)
        if rng.random() < 0.6:
            case["reverse"] = DEFAULTS["reverse"]
        if rng.random() < 0.6:
            case["concat"] = DEFAULTS["concat"]
    if any(n == "" for n, _ in truth):
        # a header line that is just ">" is not a FASTA record with an identifier: like the other
        # edge inputs, the targets are whatever the reader makes of it (">" + end of text raises IndexError)
        case["klass"] = "exotic:empty-name"
        case["truth"] = None
    elif exotic_ok and not size and rng.random() < 0.12:
        make_exotic(rng, case)
    return case


def gen_refused(rng):
    """(K) a call the reader refuses — a bare `>` as the last line is a record without a header line
    (`IndexError`, model `none`) — with something at the output path in two cases of three"""
    case = gen_case(rng, exotic_ok=False)
    f = case["files"]
    e = "\n" if not f[-1] or f[-1].endswith(("\n", "\r")) else rng.choice(["\n", "\r\n"])
    f[-1] = f[-1] + e + ">"
    case.update(klass="exotic:bare-header-last", truth=None, layout=None, chain=False, out_is_input=False,
                stale=gen_stale(rng) if rng.random() < 0.67 else None)
    return case


def make_exotic(rng, case):
    """inputs at the edge of 'FASTA': the targets are whatever the (modelled) reader makes of them"""
    kind = rng.choice(["no-gt", "formfeed", "hyphen", "space-head", "unicode-break", "blank-with-spaces"])
    f = case["files"]
    if not f:
        return
    if kind == "blank-with-spaces":
        # a first line of blanks is text before the first record (dropped); elsewhere it is a sequence line
        i = rng.randrange(len(f))
        f[i] = rng.choice([" ", "  ", "\t"]) + "\n" + f[i]
    elif kind == "no-gt":
        f[0] = f[0][1:]
    elif kind == "formfeed":
        i = rng.randrange(len(f))
        pos = rng.randrange(len(f[i]) + 1)
        f[i] = f[i][:pos] + "\x0c" + f[i][pos:]
    elif kind == "unicode-break":
        i = rng.randrange(len(f))
        pos = rng.randrange(len(f[i]) + 1)
        f[i] = f[i][:pos] + rng.choice(["\x85", "\u2028", "\x1d", "\x0b"]) + f[i][pos:]
    elif kind == "hyphen":
        seq = "".join(rng.choice("ACDK-") for _ in range(rng.choice([5, 80, 150])))
        f[0] = ">gap\n" + seq + "\n" + f[0]
    elif kind == "space-head":
        f[0] = "> " + f[0][1:]
    case["klass"] = "exotic:" + kind
    case["truth"] = None
    case["layout"] = None     # the text was edited: the declarative description no longer applies


# ----------------------------------------------------------------------------
# implementation side
# ----------------------------------------------------------------------------
class DrawRecorder:
    """records what `np.random.permutation` returns while `_shuffle_proteins` runs.  Without a script this is
    observation only.  With a script the generator *state* is chosen by the harness (the theorems quantify over
    every generator): `["id-all"]` every draw is the identity, `["id-first", k]` the first k draws of the call are,
    `["id-prob", p]` each draw is with probability p, `["never-id"]` no draw (of >= 2 elements) is; all other
    draws come from numpy's global generator."""

    def __init__(self, script=None, seed=0):
        self.script = script
        self.prng = random.Random(seed)

    def identity_at(self, k):
        sc = self.script
        if sc is None or sc[0] == "never-id":
            return False
        if sc[0] == "id-all":
            return True
        if sc[0] == "id-first":
            return k < sc[1]
        return self.prng.random() < sc[1]

    def __enter__(self):
        self.orig = np.random.permutation
        self.draws = []

        def wrapped(x):
            if self.identity_at(len(self.draws)):
                out = np.array(x, copy=True)
            else:
                out = self.orig(x)
                while self.script is not None and self.script[0] == "never-id" and len(out) >= 2 and \
                        np.array_equal(out, np.asarray(x)):
                    out = self.orig(x)
            self.draws.append([int(v) for v in np.asarray(out).tolist()])
            return out

        np.random.permutation = wrapped
        return self

    def __exit__(self, *a):
        np.random.permutation = self.orig


def run_impl(case, tmp):
    """-> dict(out_text, out_entries, in_entries, draws) or dict(error=...)"""
    import mokapot
    from mokapot.parsers import fasta as F

    paths = []
    for i, txt in enumerate(case["files"]):
        p = os.path.join(tmp, f"in{i}.fasta")
        with open(p, "w", newline="", encoding="utf-8") as fh:
            fh.write(txt)
        paths.append(p)
    out = paths[0] if case.get("out_is_input") else os.path.join(tmp, "out.fasta")
    if not case.get("out_is_input"):
        if os.path.exists(out):
            os.unlink(out)
        if case.get("stale") is not None:
            with open(out, "w", newline="", encoding="utf-8") as fh:
                fh.write(case["stale"])
    res = {}
    try:
        res["in_entries"] = [list(F._parse_protein(p)) for p in F._parse_fasta_files(paths)]
    except Exception as e:  # noqa: BLE001
        res["in_error"] = type(e).__name__
    enzyme = re.compile(case["regex"], case.get("reflags", 0)) if case["compiled"] else case["regex"]
    form = case.get("argform")
    if form is None:   # cases recorded before the call-form dimension existed
        arg = paths[0] if (len(paths) == 1 and case["npseed"] % 2) else paths
    elif form == "str" and len(paths) == 1:
        arg = paths[0]
    elif form == "path" and len(paths) == 1:
        arg = pathlib.Path(paths[0])
    elif form == "tuple":
        arg = tuple(paths)
    elif form == "pathlist":
        arg = [pathlib.Path(p) for p in paths]
    elif form == "gen":
        arg = (p for p in list(paths))
    else:
        arg = paths
    out_arg = pathlib.Path(out) if case.get("out_path") else out
    call = case.get("call", "kw")
    ff = case.get("flagform", "bool")
    flag = (lambda b: int(b)) if ff == "int" else ((lambda b: np.bool_(b)) if ff == "npbool" else (lambda b: b))
    kwargs = dict(decoy_prefix=case["prefix"], enzyme=enzyme, reverse=flag(case["reverse"]),
                  concatenate=flag(case["concat"]))
    if call == "omit":
        if case["prefix"] == DEFAULTS["prefix"]:
            del kwargs["decoy_prefix"]
        if case["regex"] == DEFAULTS["regex"] and not case["compiled"]:
            del kwargs["enzyme"]
        if case["reverse"] == DEFAULTS["reverse"]:
            del kwargs["reverse"]
        if case["concat"] == DEFAULTS["concat"]:
            del kwargs["concatenate"]
    res["omitted"] = 4 - len(kwargs)
    # several files read together = the single files read one after the other (`C18_several_files`; real vs real)
    if len(paths) > 1 and (all(t.startswith(">") for t in case["files"]) or case.get("layout")) and \
            "in_entries" in res:
        try:
            res["each_entries"] = [list(F._parse_protein(p)) for q in paths for p in F._parse_fasta_files(q)]
        except Exception as e:  # noqa: BLE001
            res["each_error"] = type(e).__name__
    np.random.seed(case["npseed"])
    try:
        with DrawRecorder(case.get("script"), case["npseed"]) as rec:
            if call == "pos":
                ret = mokapot.make_decoys(arg, out_arg, case["prefix"], enzyme, flag(case["reverse"]),
                                          flag(case["concat"]))
            elif call == "allkw":
                ret = mokapot.make_decoys(fasta=arg, out_file=out_arg, **kwargs)
            else:
                ret = mokapot.make_decoys(arg, out_arg, **kwargs)
    except Exception as e:  # noqa: BLE001
        res["error"] = type(e).__name__
        res["draws_before_error"] = len(rec.draws)
        # (K) what is at the output path after the refused call
        if os.path.exists(out):
            with open(out, newline="", encoding="utf-8") as fh:
                res["out_after_error"] = fh.read()
        else:
            res["out_after_error"] = None
        return res
    res["draws"] = rec.draws
    res["ret_ok"] = ret is out_arg or (type(ret) is type(out_arg) and ret == out_arg)
    with open(out, newline="", encoding="utf-8") as fh:
        res["out_text"] = fh.read()
    try:
        res["out_entries"] = [list(F._parse_protein(p)) for p in F._parse_fasta_files(out)]
    except Exception as e:  # noqa: BLE001
        res["reread_error"] = type(e).__name__
    return res


def perm_table(draws):
    tbl = {}
    for d in draws:
        tbl[len(d)] = d  # the last draw of a length is the one kept in `perms`
    return [[n, p] for n, p in sorted(tbl.items())]


def sites_of(seq, cut, block):
    ends = [i + 1 for i, c in enumerate(seq) if c in cut and not (i + 1 < len(seq) and seq[i + 1] in block)]
    return [0] + ends + [len(seq)]


def ends_re(regex, seq, flags=0):
    """`[m.end() for m in finditer]` computed here (CPython `re` is trusted, the package is not called)"""
    return [m.end() for m in re.compile(regex, flags).finditer(seq)]


def case_sites(c, seq):
    if c.get("enz_kind", "class") == "general":
        return [0] + ends_re(c["regex"], seq, c.get("reflags", 0)) + [len(seq)]
    return sites_of(seq, c["cut"], c["block"])


def enz_wire(c, targets):
    """the enzyme as the model takes it: a residue class, or (any other regex) the table seq -> match ends"""
    if c.get("enz_kind", "class") == "general":
        seqs = sorted({s for _, s in targets})
        return [Atom("table"), [[s, ends_re(c["regex"], s, c.get("reflags", 0))] for s in seqs]]
    return [Atom("class"), c["cut"], c["block"]]


def lay3(l):
    """file description `[eol, leading blank lines, records]` (cases recorded before the third pass: `[eol, records]`)"""
    return l if len(l) == 3 else [l[0], 0, l[1]]


def univ(t):
    return t.replace("\r\n", "\n").replace("\r", "\n")


def text_before_first_record(c):
    """the joined input does not begin with `>`: an empty first file, blank or comment lines first (D50)"""
    return not "\n".join(univ(t) for t in c["files"]).startswith(">")


def in_scope(entries):
    """sequences for which the property promises a round trip: no blanks, no '>'"""
    return all(not (set(s) & WS) and ">" not in s for _, s in entries)


# ----------------------------------------------------------------------------
# evaluation
# ----------------------------------------------------------------------------
def eval_cases(chk, cases, light=False):
    tmp = tempfile.mkdtemp(prefix="c18-")
    try:
        impl = [run_impl(c, tmp) for c in cases]
    finally:
        shutil.rmtree(tmp, ignore_errors=True)
    # targets: ground truth by construction, or (exotic) the model's reading of the files
    lines = [req("c18-parse", c["files"]) for c in cases]
    lay_idx = [k for k, c in enumerate(cases) if c.get("layout") is not None]
    # the unrestricted description (`c18-input`); where it has the restricted shape of the second pass (no leading
    # blank lines, every file with a record) the op `c18-layout` must give the same texts and proteins
    lines += [req("c18-input", [[Atom(e), lead, recs] for e, lead, recs in map(lay3, cases[k]["layout"])])
              for k in lay_idx]
    lay2_idx = [k for k in lay_idx if cases[k]["layout"] and
                all(lead == 0 and recs for _, lead, recs in map(lay3, cases[k]["layout"]))]
    lines += [req("c18-layout", [[Atom(e), recs] for e, _, recs in map(lay3, cases[k]["layout"])]) for k in lay2_idx]
    resp = common.driver_batch(lines)
    model_targets = []
    for r in resp[:len(cases)]:
        model_targets.append(None if r.strip() == "reject-index" else [[a_str(n), a_str(s)] for n, s in dec1(r)])
    # the declarative description of the input: file texts and the proteins it denotes (`C18_fasta_input_parse`)
    layout_out, layout2_out = {}, {}
    for k, r in zip(lay_idx, resp[len(cases):]):
        if r.strip().startswith("["):
            texts, ents, ok, parsed = dec(r)
            parsed = None if isinstance(parsed, Atom) or not isinstance(parsed, list) else \
                [[a_str(n), a_str(q)] for n, q in parsed]
            layout_out[k] = ([a_str(t) for t in texts], [[a_str(n), a_str(q)] for n, q in ents], a_bool(ok), parsed)
        else:
            layout_out[k] = r.strip()
    for k, r in zip(lay2_idx, resp[len(cases) + len(lay_idx):]):
        if r.strip().startswith("["):
            texts, ents, ok = dec(r)
            layout2_out[k] = ([a_str(t) for t in texts], [[a_str(n), a_str(q)] for n, q in ents], a_bool(ok))
        else:
            layout2_out[k] = r.strip()
    lines, tags = [], []
    for k, (c, im) in enumerate(zip(cases, impl)):
        tg = c["truth"] if c["truth"] is not None else model_targets[k]
        if tg is None or "error" in im or "out_entries" not in im:
            continue
        general = c.get("enz_kind", "class") == "general"
        if not general:
            lines.append(req("c18-mkdecoys", perm_table(im["draws"]), c["prefix"], c["cut"], c["block"],
                             c["reverse"], c["concat"], 70, c["files"]))
            tags.append((k, "model"))
            lines.append(req("spec-C18", c["prefix"], c["cut"], c["block"], c["reverse"], c["concat"], tg,
                             im["out_entries"]))
            tags.append((k, "spec"))
        enz = enz_wire(c, tg)
        old = None if (c.get("stale") is None or c.get("out_is_input")) else [c["stale"]]
        if c.get("out_is_input"):
            old = [c["files"][0]]
        lines.append(req("c18-run", im["draws"], enz, c["prefix"], c["reverse"], c["concat"], DEFAULTS["width"],
                         old, c["files"]))
        tags.append((k, "run"))
        if general or (not light and (c["npseed"] % 2 == 0 or not QUICK[0])):
            # (residue classes are judged by `spec-C18`, which has the same clauses; the proved file-level
            # checker is run on top of it for every second such case in the quick tier, for all in the thorough
            # tier, not in the exhaustive sweep)
            lines.append(req("spec-C18-file", c["prefix"], enz, c["reverse"], c["concat"], tg, im["out_entries"]))
            tags.append((k, "specfile"))
        if im.get("omitted") == 4:
            lines.append(req("c18-run-default", im["draws"], old, c["files"]))
            tags.append((k, "rundefault"))
        if not light and in_scope(tg):
            # the proved spec of the number of generator calls, on the sites computed here
            sc = c.get("script") or [None]
            lines.append(req("spec-C18-calls", c["reverse"], [case_sites(c, s) for _, s in tg], len(im["draws"]),
                             sc[0] == "id-all", sc[0] == "never-id"))
            tags.append((k, "calls"))
    resp = common.driver_batch(lines)
    model_out, spec_out, run_out, specfile_out, rundef_out, calls_out = {}, {}, {}, {}, {}, {}
    for (k, tag), r in zip(tags, resp):
        {"model": model_out, "spec": spec_out, "run": run_out, "specfile": specfile_out,
         "rundefault": rundef_out, "calls": calls_out}[tag][k] = r.strip()

    followups = []
    for k, (c, im) in enumerate(zip(cases, impl)):
        mt = model_targets[k]
        tg = c["truth"] if c["truth"] is not None else mt
        info = dict(case=c)
        # ---- inputs the reader refuses ----------------------------------------------------
        if "error" in im or "in_error" in im:
            err = im.get("error") or im.get("in_error")
            if c["truth"] is not None:
                chk.case(None, None)
                if text_before_first_record(c):
                    chk.spec_violation("input-parse:text-before-first-record",
                                       dict(info, error=err, expected=c["truth"],
                                            clause="the reader raises on an input whose first record is preceded by "
                                            "an empty file / blank or comment lines (C18_fasta_input_parse_any)"))
                else:
                    chk.spec_violation(f"exception:{err}", dict(info, error=err, clause="make_decoys raised on a "
                                                                "well-formed FASTA input"))
            elif mt is None:
                chk.reject(f"{c['klass']}:{err}")
                # (K) the reader runs before the output path is opened: a refused call leaves it as it was
                if "error" in im and not c.get("out_is_input"):
                    chk.count("refused call: output path compared with its previous content")
                    if im.get("out_after_error") != c.get("stale") or im.get("draws_before_error"):
                        chk.corr_break("c18-run:refused-call-touched-output",
                                       dict(info, impl=im.get("out_after_error"), model=c.get("stale"),
                                            draws=im.get("draws_before_error")))
            else:
                chk.case(None, None)
                chk.corr_break("c18-parse", dict(info, impl=f"raised {err}", model=mt))
            continue
        if mt is None:
            chk.case(None, None)
            chk.corr_break("c18-parse", dict(info, impl=im["in_entries"], model="reject-index"))
            continue
        # ---- the input as declaratively described (records, lines, newline convention) ----------
        lo = layout_out.get(k)
        lay_ok = False
        if lo is not None:
            if isinstance(lo, str):
                chk.case(None, None)
                chk.corr_break("c18-layout", dict(info, model=lo))
                continue
            ltexts, lents, lhyp, lparsed = lo
            l2 = layout2_out.get(k)
            if l2 is not None and (isinstance(l2, str) or l2[0] != ltexts or l2[1] != lents or l2[2] != lhyp):
                chk.case(None, None)
                chk.corr_break("c18-layout:c18-input", dict(info, layout=l2, input=lo))
                continue
            if ltexts != c["files"]:
                # the description does not describe the files written here: a defect of this harness
                chk.case(None, None)
                chk.corr_break("c18-layout:text", dict(info, harness=c["files"], model=ltexts))
                continue
            if lhyp:
                lay_ok = True
                if c["truth"] is not None and lents != c["truth"]:
                    chk.case(None, None)
                    chk.corr_break("c18-layout:truth", dict(info, harness=c["truth"], model=lents))
                    continue
                if im["in_entries"] != lents:
                    chk.case(None, None)
                    chk.spec_violation("input-parse:text-before-first-record" if text_before_first_record(c)
                                       else "input-parse",
                                       dict(info, impl=im["in_entries"], expected=lents,
                                            clause="the reader does not return the proteins of the records of the "
                                            "input files (C18_fasta_input_parse_any)"))
                    continue
                if mt != lents or lparsed != lents:
                    chk.case(None, None)
                    chk.corr_break("c18-parse", dict(info, impl=im["in_entries"], model=mt, layout=lents))
                    continue
        if "each_entries" in im and im["each_entries"] != im["in_entries"]:
            chk.case(None, None)
            chk.spec_violation("input-parse:text-before-first-record"
                               if any(not univ(t).startswith(">") for t in c["files"]) else
                               "several-files", dict(info, impl=im["in_entries"], expected=im["each_entries"],
                                                     clause="files read together differ from the files read one "
                                                     "after the other (C18_several_files)"))
            continue
        if not in_scope(tg):
            chk.count("out-of-scope(blank or '>' inside a sequence)")
            continue
        general = c.get("enz_kind", "class") == "general"
        sites = [tuple(case_sites(c, s)) for _, s in tg]
        nontriv = any(b - a >= 4 for st in sites for a, b in zip(st, st[1:]))
        chk.case(None, (tuple(sites), c["reverse"], c["concat"], c["regex"]) if nontriv else None,
                 sample=None if light else dict(files=c["files"], enzyme=c["regex"], prefix=c["prefix"],
                                                reverse=c["reverse"], concat=c["concat"],
                                                impl_out=im.get("out_text", "")[:400]))
        if not light:
            chk.count("class", c["klass"])
            chk.count("files", len(c["files"]))
            chk.count("proteins", min(len(tg), 10))
            chk.count("enzyme", c["regex"] + ("(compiled)" if c["compiled"] else ""))
            chk.count("reverse", c["reverse"])
            chk.count("concat", c["concat"])
            chk.count("eol", c["eol"])
            chk.count("multiline", c["multiline"])
            chk.count("prefix", repr(c["prefix"]))
            chk.count("enzyme_kind", c.get("enz_kind", "class"))
            chk.count("call", c.get("call", "kw") + (f"(omitted={im.get('omitted')})" if c.get("call") == "omit" else ""))
            chk.count("fasta_arg", c.get("argform") or "legacy")
            chk.count("out_file_arg", "Path" if c.get("out_path") else "str")
            chk.count("flag_form", c.get("flagform", "bool"))
            chk.count("regex_flags", str(re.RegexFlag(c.get("reflags", 0))) if c.get("reflags") else "none")
            chk.count("generator", "numpy" if not c.get("script") else "scripted:" + "-".join(map(str, c["script"])))
            chk.count("input described declaratively (c18-layout) and reader judged by it", lay_ok)
            chk.count("several files compared with the files read singly", "each_entries" in im)
            chk.count("duplicate_records", c.get("dup") or "none")
            chk.count("size", c.get("size", "ordinary"))
            fl = [univ(t) for t in c["files"]]
            chk.count("text before the first record",
                      "none" if not text_before_first_record(c) else
                      ("no record at all" if not tg else
                       ("comment lines" if c.get("klass") == "comment-lines-first" else
                        ("empty first file" if fl[0] == "" else
                         ("blank lines" if fl[0].lstrip("\n").startswith(">") or not fl[0].strip("\n") else "other")))))
            chk.count("files without a record (empty / line breaks only)",
                      sum(1 for t in fl if not t.strip("\n")))
            chk.count("some file begins with blank lines", any(t.startswith("\n") and t.strip("\n") for t in fl))
            chk.count("second call on the file just written", c.get("klass") == "second-call")
            chk.count("out_file", "is-input" if c.get("out_is_input") else
                      ("absent" if c.get("stale") is None else
                       ("stale-longer" if len(c["stale"]) > len(im.get("out_text", "")) else "stale-shorter")))
            nd, nl = len(im.get("draws", [])), len({len(d) for d in im.get("draws", [])})
            chk.count("generator_calls", nd if nd <= 3 else ("4-9" if nd < 10 else ("10-99" if nd < 100 else ">=100")))
            chk.count("retry loop gave up (100 identity draws for one length)",
                      any(all(d == list(range(len(d))) for d in im.get("draws", [])[i:i + 100])
                          for i in range(0, max(nd - 99, 0))))
            chk.count("retry(identity drawn first)", nd > nl)
            for _, s in tg:
                n = len(s)
                chk.count("seqlen", n if n <= 8 else ("9-68" if n < 69 else (n if n <= 72 else
                          ("73-138" if n < 139 else (n if n <= 141 else ">141")))))
                chk.count("has_cleavage_site", len(case_sites(c, s)) > 2)
        # ---- spec on the implementation's own output ----------------------------------------
        if "reread_error" in im:
            chk.spec_violation("reread-exception", dict(info, impl=im["out_text"], error=im["reread_error"],
                                                        clause="the written file cannot be re-read"))
            continue
        if not im["ret_ok"]:
            chk.spec_violation("return-value", dict(info, clause="make_decoys does not return out_file"))
            continue
        if im["in_entries"] != tg:
            if c["truth"] is not None:
                chk.spec_violation("input-parse:text-before-first-record" if text_before_first_record(c)
                                   else "input-parse",
                                   dict(info, impl=im["in_entries"], expected=tg,
                                        clause="reader does not recover names/sequences of the input"))
            else:
                chk.corr_break("c18-parse", dict(info, impl=im["in_entries"], model=mt))
            continue
        if not tg and (im["out_text"] != "" or im["draws"]):
            # `C18_no_record_input_writes_empty_file`
            chk.spec_violation("no-record-input", dict(info, impl=im["out_text"], draws=len(im["draws"]),
                                                       clause="an input without any record must give an empty "
                                                       "output file and no generator call"))
            continue
        sp = spec_out[k] if not general else "ok"
        if sp != "ok":
            chk.spec_violation(sp + (":reverse" if c["reverse"] else ":shuffle"),
                               dict(info, impl=im["out_text"], impl_entries=im["out_entries"], expected=tg,
                                    clause=sp))
            continue
        # the proved file-level checker (any enzyme: sites from the table; residue class: plus equal sites)
        sf = specfile_out.get(k, "ok")
        if sf in ("missing-sites", "bad-sites"):
            # the harness' own site table is unusable (`re` reported overlapping/unordered matches): not a verdict
            chk.corr_break("spec-C18-file:" + sf, dict(info, model=sf, enzyme=c["regex"]))
            continue
        if sf != "ok":
            chk.spec_violation(sf + (":reverse" if c["reverse"] else ":shuffle"),
                               dict(info, impl=im["out_text"], impl_entries=im["out_entries"], expected=tg,
                                    clause=sf + " (file-level checker, sites of " + c["regex"] + ")"))
            continue
        # ---- (J) second call: the file just written is (part of) the input of a follow-up call ------
        if c.get("chain") and im["out_entries"] and in_scope(im["out_entries"]):
            mode = c["npseed"] % 3
            fu = dict(c, files=[im["out_text"]], truth=[list(e) for e in im["out_entries"]], layout=None, chain=False,
                      klass="second-call", stale=None, out_is_input=(mode == 2), eol="\\n", script=None,
                      multiline=any(len(q) > 70 for _, q in im["out_entries"]), argform="list", dup=None)
            if mode == 1 and c["truth"] is not None and c.get("layout") is not None:
                fu["files"] = fu["files"] + list(c["files"])
                fu["truth"] = fu["truth"] + [list(e) for e in tg]
                fu["eol"] = c["eol"]
            followups.append(fu)
        # ---- model ---------------------------------------------------------------------------
        if mt != tg:
            chk.corr_break("c18-parse", dict(info, impl=im["in_entries"], model=mt))
            continue
        hyphen = any("-" in s for _, s in tg)
        # stateful model: ordered generator calls in, text and number of calls out
        ro = run_out[k]
        if not ro.startswith("["):
            chk.corr_break("c18-run", dict(info, impl=im["out_text"], model=ro, draws=im["draws"]))
            continue
        rtext, rcalls, rperm = dec(ro)
        rtext, rcalls, rperm = a_str(rtext), a_int(rcalls), a_bool(rperm)
        if not rperm:
            chk.corr_break("c18-run:draw-not-a-permutation", dict(info, draws=im["draws"]))
            continue
        if rcalls != len(im["draws"]):
            chk.corr_break("c18-run:generator-calls", dict(info, impl=len(im["draws"]), model=rcalls,
                                                           draws=im["draws"][:20]))
            continue
        if not hyphen and rtext != im["out_text"]:
            chk.corr_break("c18-run", dict(info, impl=im["out_text"], model=rtext, draws=im["draws"][:20]))
            continue
        if k in calls_out:
            co = calls_out[k]
            if not co.startswith("[") or dec(co)[0] != "ok":
                # the clauses of C18 hold, the number of generator calls is not what the mechanism (one
                # permutation per interior length, <= 100 tries) allows
                chk.corr_break("spec-C18-calls", dict(info, impl=len(im["draws"]), model=co,
                                                      sites=[case_sites(c, s) for _, s in tg][:10]))
                continue
            if c.get("script") and c["script"][0] == "id-all" and not c["reverse"]:
                # `C18_generator_gives_up`: the decoys are the targets
                want = (tg if c["concat"] else []) + [[c["prefix"] + n, q] for n, q in tg]
                if im["out_entries"] != want:
                    chk.corr_break("c18-gives-up", dict(info, impl=im["out_entries"], model=want))
                    continue
        if k in rundef_out:
            chk.count("all-defaults call compared with makeDecoysDefault")
            rd = rundef_out[k]
            if not rd.startswith("["):
                chk.corr_break("c18-run-default", dict(info, impl=im["out_text"], model=rd))
                continue
            dtext, dcalls = dec(rd)
            if a_int(dcalls) != len(im["draws"]) or (not hyphen and a_str(dtext) != im["out_text"]):
                chk.corr_break("c18-run-default", dict(info, impl=im["out_text"], model=a_str(dtext),
                                                       calls=[len(im["draws"]), a_int(dcalls)]))
                continue
        if hyphen:
            chk.count("hyphen: text not compared (textwrap breaks at hyphens), spec only")
            continue
        if general:
            continue
        mo = model_out[k].strip()
        if not mo.startswith("s"):
            chk.corr_break("c18-mkdecoys", dict(info, impl=im["out_text"], model=mo, draws=im["draws"]))
        elif a_str(mo) != im["out_text"]:
            chk.corr_break("c18-mkdecoys", dict(info, impl=im["out_text"], model=a_str(mo), draws=im["draws"]))
    if followups:
        eval_cases(chk, followups, light)


def dec1(line):
    """a response that is one bracketed list (common.dec unwraps the single top-level value)"""
    return dec(line)


def exhaustive(chk, nmax):
    alpha = "KPAB"
    total = 0
    # the two-letter enzyme `KP` and the look-behind `(?<=K)` (empty matches) are swept two lengths shorter
    for regex, cut, block, kind in (("[KR]", "KR", "", "class"), ("[KR](?!P)", "KR", "P", "class"),
                                    ("KP", "KR", "", "general"), ("(?<=K)", "KR", "", "general")):
        for reverse in (False, True):
            top = nmax if kind == "class" else nmax - 2
            seqs = ["".join(t) for n in range(0, top + 1) for t in itertools.product(alpha, repeat=n)]
            # longer interiors: pad the enumerated pattern with distinguishable residues
            cases = []
            for i in range(0, len(seqs), 400):
                chunk = seqs[i:i + 400]
                for j in range(0, len(chunk), 40):
                    part = chunk[j:j + 40]
                    truth = [[f"p{i + j + q}", s] for q, s in enumerate(part)]
                    text = "\n".join(f">{n}\n{s}" if s else f">{n}" for n, s in truth) + "\n"
                    cases.append(dict(files=[text], truth=truth, regex=regex, cut=cut, block=block, compiled=False,
                                      prefix="decoy_", reverse=reverse, concat=(i // 400) % 2 == 0,
                                      npseed=(i * 7919 + j) % (2 ** 32), klass="exhaustive", eol="\\n",
                                      multiline=False, enz_kind=kind, call="kw", argform="list",
                                      stale=None, out_is_input=False))
                total += len(chunk)
                if len(cases) >= 100 or i + 400 >= len(seqs):   # same cases as before, fewer driver start-ups
                    eval_cases(chk, cases, light=True)
                    cases = []
    chk.extra["exhaustive_sweep"] = (
        f"all sequences over {{K,P,A,B}} of length <= {nmax} x {{[KR], [KR](?!P)}} (<= {nmax - 2} x {{KP, (?<=K)}}) "
        f"x {{shuffle, reverse}}: "
        f"{total} proteins in batches of 40 per make_decoys call"
    )


def corpus_cases():
    p = common.VERIF / "harness" / "corpus" / "C18.json"
    if p.exists():
        return json.loads(p.read_text())
    return []


# ----------------------------------------------------------------------------
# search / shrinking / replay
# ----------------------------------------------------------------------------
def search(chk):
    rng = chk.rng
    for _ in range(10):
        eval_cases(chk, [gen_case(rng) for _ in range(300)] +
                   [gen_case(rng, script=rng.choice(SCRIPTS)) for _ in range(20)] +
                   [gen_refused(rng) for _ in range(10)])
        if chk.spec_violations:
            return
    exhaustive(chk, 7)


def rebuild(case, truth):
    text = "\n".join(f">{n}\n{s}" if s else f">{n}" for n, s in truth)
    return dict(case, files=[text], truth=[list(t) for t in truth], klass="shrunk", eol="\\n", multiline=False,
                layout=None)


def minimise(chk):
    """shrink one violation per distinct signature (records, then residues); keep those only"""
    if not chk.spec_violations:
        return
    chosen = {}
    for sig, info in chk.spec_violations:
        c = info.get("case")
        if sig not in chosen or (chosen[sig].get("case", {}).get("truth") is None and c and c.get("truth")):
            chosen[sig] = info
    out = []
    for sig, info in list(chosen.items())[:6]:
        out.append((sig, shrink_one(chk, sig, info)))
    rest = [(s, i) for s, i in chk.spec_violations if s not in dict(out)]
    n = len(chk.spec_violations)
    chk.spec_violations = out + rest
    chk.extra["spec_violations_before_shrinking"] = n


def shrink_one(chk, sig, info):
    c0 = info.get("case")
    if not c0 or not c0.get("truth"):
        return info

    def fails_case(c):
        sub = common.Check(chk.prop, chk.tier, chk.seed)
        try:
            eval_cases(sub, [c])
        except Exception:  # noqa: BLE001
            return None
        for s, i in sub.spec_violations:
            if s == sig:
                return i
        return None

    if fails_case(rebuild(c0, c0["truth"])) is None:
        return info  # depends on the file layout: keep the original
    truth = common.shrink_list(c0["truth"], lambda t: fails_case(rebuild(c0, t)) is not None)
    for k in range(len(truth)):
        name, seq = truth[k]
        chars = common.shrink_list(list(seq), lambda cs: fails_case(
            rebuild(c0, truth[:k] + [[name, "".join(cs)]] + truth[k + 1:])) is not None, min_len=0)
        truth[k] = [name, "".join(chars)]
    i = fails_case(rebuild(c0, truth))
    return dict(i, shrunk_from_records=len(c0["truth"])) if i is not None else info


def main(chk, args):
    build = common.build_and_audit("C18")
    if not build.driver_ok:
        chk.finish(build, RULE)
    rng = chk.rng
    quick = chk.tier == "quick"
    QUICK[0] = quick
    # the defaults written in this file (from the documented signature) are the ones the model has
    dpre, dcut, dw = dec(common.driver_batch([req("c18-defaults")])[0])
    if (a_str(dpre), a_str(dcut), a_int(dw)) != (DEFAULTS["prefix"], "KR", DEFAULTS["width"]):
        chk.corr_break("c18-defaults", dict(model=[a_str(dpre), a_str(dcut), a_int(dw)], harness=DEFAULTS))
    cases = corpus_cases()
    cases += [gen_case(rng) for _ in range(2500 if quick else 25000)]
    # scripted generator states (the retry loop gives up / is entered k times / is never entered)
    cases += [gen_case(rng, script=rng.choice(SCRIPTS)) for _ in range(100 if quick else 1000)]
    # calls the reader refuses (the output path must stay as it was)
    cases += [gen_refused(rng) for _ in range(30 if quick else 300)]
    # a few calls that are large in one direction
    cases += [gen_case(rng, exotic_ok=False, size=sz) for _ in range(2 if quick else 10)
              for sz in ("many-records", "long-sequences")]
    for i in range(0, len(cases), 500):
        eval_cases(chk, cases[i:i + 500])
    exhaustive(chk, 7 if quick else 9)
    minimise(chk)
    lc = common.leanchecker("C18") if not quick else None
    chk.assumptions += [
        "the permutations `np.random.permutation` returned during the call are recorded by wrapping that function "
        "in the harness process and handed to the model (the theorems hold for every family of permutations)",
        "`textwrap.wrap(seq)` is modelled as chunks of 70 for sequences without blanks and hyphens; sequences with "
        "hyphens are checked against the spec only; sequences with blanks or '>' are outside the property",
        "files are written and read as UTF-8 text; text-mode newline translation is part of the model (univNL)",
        "`np.random.permutation` is the only source of randomness of the call: its results are handed to the stateful "
        "model in call order, which must consume exactly as many as were made (perms dict, retry loop)",
        "for ~4% of the cases the generator state is chosen by the harness: `np.random.permutation` is replaced by a "
        "function that returns the identity always / for the first k calls / with probability 0.9 / never and "
        "otherwise draws from numpy's global generator (such states have probability <= 2^-100 under numpy's own "
        "generator; the theorems quantify over every generator)",
        "the declarative description of the generated input files (records, lines, newline convention) is rendered "
        "by the driver (`c18-layout`) and must equal the files written by the harness byte for byte",
        "for enzymes that are no residue class the match ends are computed in the harness with CPython `re` "
        "(`[m.end() for m in finditer]`) and checked by the driver to be non-decreasing and inside the sequence "
        "(hypothesis EndsOK of the theorems)",
    ]
    chk.finish(build, RULE, search=search, lc=lc,
               trusted_extra=["CPython str.split/splitlines/join, re (residue-class regexes with optional negative "
                              "look-ahead), textwrap.wrap, text-mode open(); numpy.random.permutation / np.flip "
                              "(assumed to return permutations of arange(n))"])


def replay(chk, path):
    info = json.loads(open(path).read())
    if "case" not in info:
        print(json.dumps(info, indent=1)[:3000])
        return 0
    common.build_and_audit("C18")
    eval_cases(chk, [info["case"]])
    for sig, i in chk.spec_violations:
        print("REPRODUCED", sig, json.dumps(i, default=str)[:1500])
    for op, i in chk.corr_breaks:
        print("CORRESPONDENCE", op, json.dumps(i, default=str)[:1500])
    return 1 if chk.spec_violations else 0
