"""C04 (third extension) — the FDR bound with TIED scores, executed on the real q-value code.

`Props/C04Ties.lean` proves, for a ranking whose tie groups are arranged independently of the labels,

  * `C04_accepted_is_prefix_ties`: the set accepted at q <= a is the longest prefix of the best-first file that
    ends at a tie-group boundary and passes (D + 1) <= a * T  (closed form `tiedAccepted`), and
  * `C04_tdc_fdr_fixed_ranking_ties`: the sum over ALL 2^m labelings of the m null PSMs of the false discovery
    proportion of that set is <= a * 2^m, i.e. E[FDP] <= a, exactly.

Case kinds (both call the real code; nothing is sampled inside a case — the expectation is an exact rational):

* `ties_case` (T4t): a small ranking of correct targets and nulls with heavily tied integer scores (the output of
  a fully grown tree: 1-4 distinct values).  For EVERY labeling of the nulls the real `mokapot.qvalues.tdc` /
  `qvalues_from_scores` is called (rows in a random input order, higher- or lower-is-better, int or float scores).
  Spec, restated here independently of the Lean model: (T1) accepted decoys + 1 <= alpha * accepted targets for
  every labeling; (T4) sum over the labelings of V/T of the accepted set <= alpha * 2^m  — the statement of the
  property itself, exact.  Correspondence: accepted set and FDP of every labeling vs the driver op `tdctiedfdp`
  (closed form), cut flags vs `tdctiedstop`.
* `ties_file_case` (T4f): the real `assign_confidence` on a simulated mixture whose scores take 2-5 values; for the
  PSM- and the peptide-level result files and several alpha the rows with q-value <= alpha are compared with the
  closed form evaluated by the driver on the file's own rows (best first), and with the restatement in Python.
"""
from __future__ import annotations

import itertools
from fractions import Fraction

import numpy as np

import common
import mkdata
import pipeline as P
from common import a_int, a_rat, deep, dec, req
from c04ext import rounded

ALPHAS_T = [Fraction(1, 2), Fraction(1, 4), Fraction(3, 8), Fraction(1, 3), Fraction(1, 10), Fraction(2, 3),
            Fraction(3, 4), Fraction(1, 5)]


def closed_form(alpha: Fraction, ranked):
    """ranked: [(score, is_target)] best first.  Number of rows accepted by the closed form, evaluated with exact
    rationals (`exact`) and through the float32 primitive of the code (`impl`); `boundary` = some group boundary
    has (D+1)/T == alpha exactly while the stored float32 is larger than float(alpha)."""
    exact = impl = 0
    boundary = False
    T = D = 0
    n = len(ranked)
    for i, (s, t) in enumerate(ranked):
        if t:
            T += 1
        else:
            D += 1
        last = i + 1 == n or ranked[i + 1][0] != s
        if not last or T == 0:
            continue
        ratio = Fraction(D + 1, T)
        if ratio <= alpha:
            exact = i + 1
        if rounded(ratio) <= float(alpha):
            impl = i + 1
        if ratio == alpha and rounded(ratio) > float(alpha):
            boundary = True
    return exact, impl, boundary


def gen_ties(rng, quick=True):
    return dict(
        data_seed=rng.randrange(1 << 30),
        n=rng.choice([3, 5, 6, 8, 9, 11] if quick else [3, 5, 6, 8, 9, 11, 13, 14]),
        levels=rng.choice([1, 2, 2, 3, 4]),
        max_nulls=6 if quick else 9,
        alpha=str(rng.choice(ALPHAS_T)),
        desc=rng.random() < 0.7,
        entry=rng.choice(["tdc", "tdc", "qvalues_from_scores"]),
        dtype=rng.choice(["float", "float", "int"]),
    )


def ties_case(chk, rng, case=None):
    import random
    from mokapot import qvalues as Q

    case = case or gen_ties(rng, chk.tier == "quick")
    r = random.Random(case["data_seed"])
    n, alpha = case["n"], Fraction(case["alpha"])
    nulls = []
    kinds = []
    for i in range(n):
        is_null = r.random() < 0.65 and len(nulls) < case["max_nulls"]
        kinds.append(is_null)
        if is_null:
            nulls.append(i)
    m = len(nulls)
    # correct targets tend to score higher; nulls are scored without looking at any label
    score = [r.randrange(case["levels"]) if kinds[i] else min(case["levels"] - 1, r.randrange(case["levels"]) + 1)
             for i in range(n)]
    if case.get("fixed"):          # hand-picked ranking (corpus): which rows are nulls, and the integer scores
        kinds = [bool(x) for x in case["fixed"]["null"]]
        score = [int(x) for x in case["fixed"]["score"]]
        n = len(kinds)
        nulls = [i for i in range(n) if kinds[i]]
        m = len(nulls)
    # the ranking (best first) with a label-independent arrangement of the tie groups; input order = another shuffle
    arr = list(range(n)); r.shuffle(arr)
    ranking = sorted(arr, key=lambda i: -score[i])         # stable: ties keep the shuffled arrangement
    inp = list(range(n)); r.shuffle(inp)
    sgn = 1 if case["desc"] else -1
    sc_arr = np.array([sgn * score[i] for i in inp], dtype=np.int64 if case["dtype"] == "int" else np.float64)
    chk.case(None, ("T4t", case["data_seed"], n, case["levels"], case["alpha"], case["desc"]),
             sample=dict(kind="tied-ranking", **{k: str(v) for k, v in case.items()}, nulls=m))
    chk.count("T4t-levels", case["levels"]); chk.count("T4t-nulls", m); chk.count("T4t-alpha", case["alpha"])
    chk.count("T4t-entry", case["entry"]); chk.count("T4t-desc", case["desc"]); chk.count("T4t-dtype", case["dtype"])
    info = dict(case=case, scores_best_first=[score[i] for i in ranking],
                null_positions_best_first=[p for p, i in enumerate(ranking) if kinds[i]])
    total = Fraction(0)
    reqs, per = [], []
    for omega in itertools.product([True, False], repeat=m):
        lab = [True] * n
        for j, i in enumerate(nulls):
            lab[i] = omega[j]
        tg = np.array([lab[i] for i in inp], dtype=bool)
        try:
            if case["entry"] == "tdc" or not case["desc"]:
                q = Q.tdc(sc_arr, tg, desc=case["desc"])
            else:
                q = Q.qvalues_from_scores(sc_arr, tg, "tdc")
        except Exception as e:     # noqa: BLE001
            chk.reject("T4t-tdc-refused:" + type(e).__name__); return
        q = np.asarray(q, dtype=float)
        acc = {inp[p] for p in range(n) if q[p] <= float(alpha)}
        at = sum(1 for i in acc if lab[i]); ad = len(acc) - at
        v = sum(1 for i in acc if lab[i] and kinds[i])
        lab_best_first = [bool(lab[i]) for i in ranking]
        w = dict(info, labels_best_first=lab_best_first, accepted_positions=sorted(ranking.index(i) for i in acc))
        if acc and not (ad + 1 <= alpha * at):
            chk.spec_violation("T4t-counting-inequality",
                               dict(w, accepted_targets=at, accepted_decoys=ad,
                                    clause="accepted decoys + 1 > alpha x accepted targets on a tied ranking"))
            return
        total += Fraction(v, at) if at else 0
        exact, impl, boundary = closed_form(alpha, [(score[i], lab[i]) for i in ranking])
        per.append((w, acc, Fraction(v, at) if at else Fraction(0), exact, impl, boundary))
        reqs.append(req("tdctiedfdp", alpha, [p for p, i in enumerate(ranking) if kinds[i]],
                        [[score[i], bool(lab[i])] for i in ranking]))
    chk.count("T4t-some-labeling-accepts", any(x[1] for x in per))
    chk.count("T4t-expected-fdp", "positive" if total > 0 else "zero")
    if total > alpha * 2 ** m:
        chk.spec_violation("T4t-expected-fdp-exceeds-alpha",
                           dict(info, alpha=str(alpha), labelings=2 ** m, sum_of_fdp=str(total),
                                mean_fdp=float(total / 2 ** m),
                                clause="EXACT expectation over all labelings of the null PSMs (fair coins, fixed tied "
                                       "ranking) of the false discovery proportion among the targets accepted at "
                                       "q <= alpha by the real tdc exceeds alpha"))
        return
    cuts = deep(lambda x: x, dec(common.driver_batch([req("tdctiedstop", alpha,
                                                           [[score[i], True] for i in ranking])])[0]))
    exp_cuts = [p + 1 == n or score[ranking[p + 1]] != score[ranking[p]] for p in range(n)]
    got_cuts = [common.a_bool(x) for x in (cuts[1] if isinstance(cuts[1], list) else [cuts[1]])] if n else []
    if got_cuts != exp_cuts:
        chk.corr_break("tdctiedstop", dict(info, model=got_cuts, expected=exp_cuts))
        return
    for (w, acc, fdp, exact, impl, boundary), line in zip(per, common.driver_batch(reqs)):
        out = dec(line)
        ids = out[0] if isinstance(out[0], list) else [out[0]]
        macc = {ranking[a_int(x)] for x in ids} if ids != [] else set()
        mfdp = a_rat(out[1])
        if boundary:
            chk.count("T4t-float32-boundary"); continue
        want = set(ranking[:impl])
        if acc != want:
            # the real accepted set is not the closed form.  T1 and the expectation hold (checked above), so this is
            # a difference between code and model, not a violation of the property: correspondence break
            chk.corr_break("tdctiedfdp", dict(w, model_accepted=sorted(ranking.index(i) for i in macc),
                                              closed_form_rows=impl,
                                              note="accepted set of the real tdc is not the longest prefix ending at "
                                                   "a tie-group boundary with (D+1) <= alpha T"))
            return
        if macc != acc or mfdp != fdp or exact != impl:
            chk.corr_break("tdctiedfdp", dict(w, model_accepted=sorted(ranking.index(i) for i in macc),
                                              model_fdp=str(mfdp), impl_fdp=str(fdp)))
            return


# ---------------------------------------------------------------------------------------------------------
# T4f — result files of assign_confidence with tree-like scores
# ---------------------------------------------------------------------------------------------------------
def gen_ties_file(rng):
    return dict(data_seed=rng.randrange(1 << 30), n_spectra=rng.choice([40, 80, 150]),
                levels=rng.choice([2, 2, 3, 5]), chunk=rng.choice([None, 25]), desc=rng.random() < 0.7)


def ties_file_case(chk, rng, case=None):
    import random
    import c04

    case = case or gen_ties_file(rng)
    r = random.Random(case["data_seed"])
    df, truth = c04.simulate(r, case["n_spectra"])
    L = case["levels"]
    sc = np.clip(np.floor((df["feat0"].values.astype(float) + 1.0) * L / 4.0), 0, L - 1).astype(float)
    with P.workdir() as d:
        ds = mkdata.read_dataset(mkdata.write_table(df, d / "in.pin"))
        out = d / "out"; out.mkdir()
        try:
            with P.pep_kernel(stub=True), P.chunk_sizes(**({"confidence": case["chunk"]} if case["chunk"] else {})):
                P.run_assign_confidence([ds], [sc if case["desc"] else -sc], out, prefixes=[None],
                                        descs=[case["desc"]], decoys=True)
        except Exception as e:      # noqa: BLE001
            chk.reject("T4f-assign_confidence-failed:" + type(e).__name__); return
        tsc = dict(zip(df["SpecId"], sc))
        for level in ("psms", "peptides"):
            t = P.read_result(out / f"targets.{level}"); dd = P.read_result(out / f"decoys.{level}")
            if t is None or dd is None:
                chk.spec_violation("T4f-result-file-missing", dict(case=case, level=level,
                                                                   clause="a result file was not written"))
                return
            rows = [(int(tsc[i]), True, str(i), float(q)) for i, q in zip(t["PSMId"], t["q-value"])] + \
                   [(int(tsc[i]), False, str(i), float(q)) for i, q in zip(dd["PSMId"], dd["q-value"])]
            rows.sort(key=lambda x: -x[0])        # best first; the arrangement inside a tie group is irrelevant
            reqs, al = [], []
            for a in ALPHAS_T[:5]:
                chk.case(None, ("T4f", case["data_seed"], level, str(a)),
                         sample=dict(kind="tied-level-file", level=level, alpha=str(a), **{k: str(v) for k, v in case.items()}))
                chk.count("T4f-level", level); chk.count("T4f-levels", L)
                reqs.append(req("tdctiedstop", a, [[x[0], x[1]] for x in rows])); al.append(a)
            for a, line in zip(al, common.driver_batch(reqs)):
                out_ = dec(line)
                stop = a_int(out_[0])
                acc = {x[2] for x in rows if x[3] <= float(a)}
                at = sum(1 for x in rows if x[3] <= float(a) and x[1]); ad = len(acc) - at
                w = dict(case=case, level=level, alpha=str(a), accepted_targets=at, accepted_decoys=ad)
                if acc and not (ad + 1 <= a * at):
                    chk.spec_violation("T4f-counting-inequality",
                                       dict(w, clause="accepted decoys + 1 > alpha x accepted targets (tied scores)"))
                    return
                exact, impl, boundary = closed_form(a, [(x[0], x[1]) for x in rows])
                if boundary:
                    chk.count("T4f-float32-boundary"); continue
                want = {x[2] for x in rows[:impl]}
                if acc != want or stop != exact or exact != impl:
                    chk.corr_break("tdctiedstop", dict(w, impl_accepted_rows=len(acc), closed_form_rows=impl,
                                                       model_rows=stop,
                                                       note="rows with q-value <= alpha in the result file are not the "
                                                            "longest prefix ending at a tie-group boundary with "
                                                            "(D+1) <= alpha T"))
                    return


def search(chk):
    """failing-input search for a broken proof / correspondence of the tied-score clauses: many more exhaustive
    small rankings (every labeling) — reports `T4t-expected-fdp-exceeds-alpha` / `T4t-counting-inequality` if the
    real code violates the property"""
    n0 = len(chk.spec_violations)
    for _ in range(400):
        ties_case(chk, chk.rng)
        if len(chk.spec_violations) > n0:
            return
