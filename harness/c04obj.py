"""C04 (second extension) — model *objects* in `brew`, the reset path, and the 5 000 000-row loop of
`make_train_sets`; see GAPS-C04.md, section 'Second pass'.  Used by harness/c04.py and harness/c04ext.py.

* `chunk_range(v)`   runs the real `make_train_sets` with its local constant `chunk_range = 5000000` replaced by
  `v` (the function object is rebuilt from its own code object with that one constant changed; nothing in
  `/repo` is touched), so that the loop `while k + chunk_range < ds` — executed only for files above five
  million rows — is exercised on small tables.
* `trainloop_case`   (T2c) the patched real `make_train_sets` called directly on random folds of 1-2 files, with
  and without a training cap: the training rows of every fold must lie in the file, outside the held-out fold,
  without repetition (spec), and without a cap be exactly what the Lean model `tdctrainloop` collects.
* `reset_case`       (T2r) real `brew` handed ONE *trained* Model around a memorising probe estimator whose every
  copy carries a tag of its own and whose re-fit can be made to end in "Model performs worse after training."
  in all folds / in the folds whose training table contains a chosen row / in no fold.  Spec (clause "PSMs are
  only ever scored by a model that has not seen them"): the Model object handed in is never fitted; every
  scoring call that produces the returned scores is made by an object that was not fitted, in this call, on any
  of the rows it scores nor on a PSM of their spectra; the returned scores are those outputs (reset path: an
  increasing affine image of the outputs of the object handed in).  Model: `tdcfitcopies` (memories of the
  caller's object and of the copies, reset decision), `tdcresetraw` (chunked reset scoring), `tdcbrewobjects`
  (scores for memorising objects).
"""
from __future__ import annotations

import contextlib
import threading
import types
from fractions import Fraction

import numpy as np
from sklearn.base import BaseEstimator

import common
import mkdata
import pipeline as P
from common import a_bool, a_int, a_rat, deep, dec, req

CHUNK_RANGE_CONST = 5000000


# ---------------------------------------------------------------------------------------------------------
# the local constant of make_train_sets
# ---------------------------------------------------------------------------------------------------------
@contextlib.contextmanager
def chunk_range(value):
    """yield True when `mokapot.brew.make_train_sets` runs with chunk_range = value (None: as it is), False when
    the constant could not be found in the function's code object (the caller tallies a rejection)"""
    if value is None:
        yield True
        return
    B = P.mod("mokapot.brew")
    f = B.make_train_sets
    code = getattr(f, "__code__", None)
    if code is None or not any(type(c) is int and c == CHUNK_RANGE_CONST for c in code.co_consts):
        yield False
        return
    consts = tuple(int(value) if (type(c) is int and c == CHUNK_RANGE_CONST) else c for c in code.co_consts)
    g = types.FunctionType(code.replace(co_consts=consts), f.__globals__, f.__name__, f.__defaults__, f.__closure__)
    g.__kwdefaults__ = f.__kwdefaults__
    B.make_train_sets = g
    try:
        yield True
    finally:
        B.make_train_sets = f


def model_touched(m) -> bool:
    """has brew fitted the (untrained, memorising) Model object it was given?"""
    return bool(m.is_trained) or hasattr(m.estimator, "tag_") or bool(getattr(m.estimator, "memo_", None))


# ---------------------------------------------------------------------------------------------------------
# T2c — make_train_sets with a small chunk_range, called directly
# ---------------------------------------------------------------------------------------------------------
def gen_trainloop(rng):
    nfiles = rng.choice([1, 1, 2])
    return dict(seed=rng.randrange(1 << 30), nfiles=nfiles, folds=rng.choice([2, 3, 4, 5]),
                sizes=[rng.choice([5, 9, 17, 40]) for _ in range(nfiles)],
                cr=rng.choice([1, 2, 3, 4, 8, 16, 39, 40, 41]), cap=rng.choice([None, None, "two-thirds"]))


def trainloop_case(chk, rng, case=None):
    import random

    case = case or gen_trainloop(rng)
    r = random.Random(case["seed"])
    B = P.mod("mokapot.brew")
    k = case["folds"]
    test_idx = []
    for ds in case["sizes"]:
        owner = [r.randrange(k) for _ in range(ds)]
        folds = [[i for i in range(ds) if owner[i] == f] for f in range(k)]
        for f in folds:
            r.shuffle(f)
        test_idx.append(folds)
    total = [sum(case["sizes"][j] - len(test_idx[j][f]) for j in range(case["nfiles"])) for f in range(k)]
    cap = None if case["cap"] is None else max(case["nfiles"], (2 * min(total)) // 3)
    info = dict(case=case)
    with chunk_range(case["cr"]) as patched:
        if not patched:
            chk.reject("T2c-chunk-range-constant-not-found"); return
        try:
            trains = list(B.make_train_sets(test_idx=[[np.array(f, dtype=np.int64) for f in folds] for folds in test_idx],
                                            subset_max_train=cap, data_size=list(case["sizes"]),
                                            rng=np.random.default_rng(case["seed"] % 1000)))
        except ValueError as e:
            # the two refusals of rng.choice (C02: `choice` = none): more rows asked for than a file's training
            # rows, or a file without any training row for this fold
            if "Cannot take a larger sample" in str(e) or "a cannot be empty" in str(e):
                chk.reject("T2c-choice-larger-than-population"); return
            raise
    chk.case(None, ("T2c", case["seed"], case["cr"], tuple(case["sizes"]), k, str(cap)),
             sample=dict(kind="train-loop", **{a: str(b) for a, b in case.items()}))
    chk.count("T2c-chunk-range-vs-file", "loop-runs" if case["cr"] < max(case["sizes"]) else "loop-skipped")
    chk.count("T2c-files", case["nfiles"]); chk.count("T2c-cap", "none" if cap is None else "capped")
    if len(trains) != k or any(len(t) != case["nfiles"] for t in trains):
        chk.spec_violation("T2c-training-sets-shape", dict(info, clause="not one training index list per fold and file"))
        return
    reqs = [req("tdctrainloop", case["cr"], case["sizes"][j], test_idx[j][f]) for f in range(k)
            for j in range(case["nfiles"])]
    model = [deep(a_int, dec(x)) for x in common.driver_batch(reqs)]
    model = [m if isinstance(m, list) else [m] for m in model]
    pos = 0
    for f in range(k):
        for j in range(case["nfiles"]):
            got = [int(x) for x in trains[f][j]]
            held = set(test_idx[j][f])
            leaked = sorted(set(got) & held)
            if leaked or len(set(got)) != len(got) or any(x < 0 or x >= case["sizes"][j] for x in got):
                chk.spec_violation("T2c-heldout-row-in-training-set",
                                   dict(info, fold=f, file=j, heldout_rows_in_training_set=leaked[:8],
                                        training_rows=sorted(got)[:40], heldout_fold=sorted(held)[:40],
                                        clause="make_train_sets (run with a small chunk_range, i.e. as for a file of "
                                               "more than chunk_range rows): the training rows of a fold contain rows "
                                               "of its held-out fold, a row twice, or a row outside the file — the "
                                               "model that scores the fold is trained on PSMs it scores"))
                return
            if cap is None and sorted(got) != model[pos]:
                chk.corr_break("tdctrainloop", dict(info, fold=f, file=j, impl=sorted(got)[:40], model=model[pos][:40]))
                return
            pos += 1


# ---------------------------------------------------------------------------------------------------------
# T2r — one trained model handed to brew: reset path / warm start, with a memorising probe
# ---------------------------------------------------------------------------------------------------------
RUNS = {}
_lock = threading.Lock()
FEATMOD = 64
SEEN = 512
FOREIGN = 10 ** 6          # row ids of the table the probe was 'pre-trained' on
TURNED_DECOY = 10 ** 6


def new_run():
    rid = len(RUNS)
    RUNS[rid] = {"next": 0, "log": []}
    return rid


class Turn(BaseEstimator):
    """predict_proba-only memorising probe.  Column 0 of X is the row id, column 1 the integer feature.
    Normal output = feat + 64 * tag + 512 * [this object was fitted on the row].  Every deep copy gets a tag of
    its own and inherits the memory.  A fit whose rows include `turn_on` (or any fit after the first when
    `turn_on == -2`) *turns* the object: in its next scoring call (the one `Model.fit` makes right after the
    estimator's fit) every row it has been given as a decoy scores 10^6 + feat and every other row -feat, so no
    target passes the FDR threshold and `Model.fit` ends in "Model performs worse after training.".  Afterwards
    the object scores normally again — it is a trained-looking model that has memorised its training rows."""

    def __init__(self, run=0, turn_on=-1):
        self.run = run
        self.turn_on = turn_on

    def _tag(self):
        R = RUNS[self.run]
        t = R["next"]
        R["next"] += 1
        return t

    def __deepcopy__(self, memo):
        new = Turn(run=self.run, turn_on=self.turn_on)
        if hasattr(self, "tag_"):
            with _lock:
                new.tag_ = self._tag()
                new.memo_ = set(self.memo_)
                new.decoys_ = set(self.decoys_)
                new.turned_ = self.turned_
                new.was_turned_ = self.was_turned_
                new.nfit_ = self.nfit_
                RUNS[self.run]["log"].append(("copy", self.tag_, new.tag_))
        return new

    def fit(self, X, y):
        ids = X[:, 0].astype(np.int64).tolist()
        with _lock:
            if not hasattr(self, "tag_"):
                self.tag_ = self._tag()
                self.memo_, self.decoys_, self.turned_, self.was_turned_, self.nfit_ = set(), set(), False, False, 0
            self.nfit_ += 1
            self.memo_ |= set(ids)
            if (self.turn_on == -2 and self.nfit_ > 1) or self.turn_on in set(ids):
                self.turned_ = True
            if self.turned_:
                self.decoys_ |= {i for i, t in zip(ids, np.asarray(y).tolist()) if t == 0}
            RUNS[self.run]["log"].append(("fit", self.tag_, ids))
        return self

    def predict_proba(self, X):
        ids = X[:, 0].astype(np.int64)
        feat = X[:, 1].astype(np.int64) % FEATMOD
        if self.turned_:
            self.turned_, self.was_turned_ = False, True
            out = np.array([TURNED_DECOY + int(f) if int(i) in self.decoys_ else -int(f) for i, f in zip(ids, feat)],
                           dtype=float)
        else:
            seen = np.array([int(i) in self.memo_ for i in ids], dtype=np.int64)
            out = (feat + FEATMOD * self.tag_ + SEEN * seen).astype(float)
        with _lock:
            RUNS[self.run]["log"].append(("score", self.tag_, ids.tolist(), out.tolist()))
        return out


def gen_reset(rng):
    return dict(
        data_seed=rng.randrange(1 << 30),
        nfiles=rng.choice([1, 1, 2]),
        n_spectra=rng.choice([30, 45, 70]),
        max_per=rng.choice([1, 2, 3]),
        folds=rng.choice([2, 3, 3, 4, 5]),
        mode=rng.choice(["all-folds", "all-folds", "some-folds", "some-folds", "none"]),
        ensemble=rng.random() < 0.3,
        workers=rng.choice([1, 1, 3]),
        cpred=rng.choice([7, 23, 100000]),
        seed=rng.randrange(1000),
    )


def reset_case(chk, rng, case=None):
    import random
    import mokapot

    case = case or gen_reset(rng)
    r = random.Random(case["data_seed"])
    k = case["folds"]
    with P.workdir() as d:
        tabs, dss, offs, off = [], [], [], 0
        for j in range(case["nfiles"]):
            df = mkdata.make_psm_table(r, n_spectra=case["n_spectra"], max_per_spectrum=case["max_per"], n_feat=2,
                                       label_enc="pm1", optional=("ExpMass",), signal=4.0)
            df["rowid"] = np.arange(off, off + len(df))
            df["feat0"] = [r.randrange(FEATMOD // 2, FEATMOD) if (lab == 1 and r.random() < 0.6) else
                           r.randrange(0, FEATMOD // 2) for lab in df["Label"]]
            df["SpecId"] = [f"f{j}_{i}" for i in range(len(df))]
            offs.append(off); off += len(df); tabs.append(df)
            dss.append(mkdata.read_dataset(mkdata.write_table(df, d / f"in{j}.pin")))
        ntot = off
        spectra, feat, label = {}, {}, {}
        for j, (df, ds) in enumerate(zip(tabs, dss)):
            cols = list(ds.spectrum_columns)
            for i in range(len(df)):
                spectra[offs[j] + i] = (j,) + tuple(df[c].iloc[i] for c in cols)
                feat[offs[j] + i] = int(df["feat0"].iloc[i])
                label[offs[j] + i] = bool(df["Label"].iloc[i] == 1)
        decoys = [p for p in range(ntot) if not label[p]]
        if not decoys:
            chk.reject("T2r-no-decoy"); return
        turn_on = {"all-folds": -2, "none": -1}.get(case["mode"], decoys[r.randrange(len(decoys))])
        run = new_run()
        R = RUNS[run]
        # the model handed in: a *trained* Model (tag 0) whose estimator has memorised rows of another table;
        # the subclass only records which fits end in the RuntimeError that makes brew reset
        class RecModel(mokapot.Model):
            def fit(self, psms):
                try:
                    return super().fit(psms)
                except RuntimeError as e:
                    with _lock:
                        RUNS[run]["log"].append(("raised", getattr(self.estimator, "tag_", None), str(e)))
                    raise

        m0 = RecModel(Turn(run=run, turn_on=turn_on), scaler="as-is",
                      train_fdr=0.5, max_iter=2, override=True, rng=case["seed"])
        est0 = m0.estimator
        foreign = [FOREIGN, FOREIGN + 1, FOREIGN + 2, FOREIGN + 3]
        est0.fit(np.array([[i, 40 if n % 2 else 3] for n, i in enumerate(foreign)], dtype=float), np.array([0, 1, 0, 1]))
        m0.features = list(dss[0].feature_columns)
        m0.is_trained = True
        tag0 = est0.tag_
        R["log"].clear()
        try:
            with P.chunk_sizes(predict=case["cpred"]):
                _, models, scores, _ = mokapot.brew(dss if case["nfiles"] > 1 else dss[0], m0, test_fdr=0.5, folds=k,
                                                    max_workers=case["workers"], rng=case["seed"],
                                                    ensemble=case["ensemble"])
        except (IndexError, RuntimeError) as e:
            chk.reject("T2r-brew-refused:" + type(e).__name__ + ":" + str(e)[:60]); return
        except ValueError as e:
            if any(s in str(e) for s in ("PSMs were detected", "PSMs were available", "need at least one array")):
                chk.reject("T2r-brew-refused:ValueError"); return
            raise
        log = list(R["log"])
    # ---- what happened, from the probe's log ---------------------------------------------------------------
    parent, fitted, table, raised = {}, {}, {}, set()
    last_fit = -1
    training_loop = set()          # indices of the scoring calls made inside Model.fit (one after every estimator fit)
    pending = {}
    for n, ev in enumerate(log):
        if ev[0] == "copy":
            parent[ev[2]] = ev[1]
        elif ev[0] == "fit":
            fitted.setdefault(ev[1], set()).update(ev[2]); last_fit = n
            pending[ev[1]] = True
        elif ev[0] == "score":
            if ev[1] in parent and ev[1] not in table:
                table[ev[1]] = set(ev[2])          # a copy's first scoring call: its whole training table
            if pending.pop(ev[1], False):
                training_loop.add(n)
        elif ev[0] == "raised" and ev[2] == "Model performs worse after training.":
            raised.add(ev[1])
    final = [ev for n, ev in enumerate(log) if n > last_fit and ev[0] == "score" and n not in training_loop]
    flat = np.concatenate([np.asarray(s, dtype=float).ravel() for s in scores])
    copy_tags = [getattr(m.estimator, "tag_", None) for m in models]
    turned = {m.estimator.tag_ for m in models if getattr(m.estimator, "was_turned_", False)}
    if not turned <= raised:
        chk.reject("T2r-turned-copy-did-not-fail"); return
    expected_reset = bool(raised & set(copy_tags))
    path = "reset" if final and all(ev[1] == tag0 for ev in final) else ("ensemble" if case["ensemble"] else "per-fold")
    chk.case(None, ("T2r", case["data_seed"], k, case["mode"], case["nfiles"], case["ensemble"]),
             sample=dict(kind="one-trained-model", **{a: str(b) for a, b in case.items()}, path=path))
    chk.count("T2r-mode", case["mode"]); chk.count("T2r-path", path); chk.count("T2r-folds", k)
    chk.count("T2r-nfiles", case["nfiles"]); chk.count("T2r-workers", case["workers"])
    chk.count("T2r-predict-chunk", case["cpred"]); chk.count("T2r-ensemble-flag", case["ensemble"])
    chk.count("T2r-folds-whose-refit-got-worse", "all" if len(raised & set(copy_tags)) == k else
              "some" if expected_reset else "none")
    info = dict(case=case, path=path)
    # (iii) the object handed in is never fitted, and is returned to the caller as it was
    if m0.estimator is not est0 or tag0 in fitted or set(est0.memo_) != set(foreign) or est0.turned_ or est0.was_turned_ \
            or not m0.is_trained:
        chk.spec_violation("T2r-callers-model-was-fitted",
                           dict(info, rows_of_this_call_memorised=len(set(est0.memo_) - set(foreign)),
                                clause="brew fitted (or replaced) the trained Model object it was given instead of a "
                                       "copy: the object has memorised rows of this data set; on the reset path it "
                                       "is this object that scores every PSM"))
        return
    if len(models) != k or len(set(copy_tags)) != k or any(parent.get(t) != tag0 for t in copy_tags) \
            or [m.fold for m in models] != list(range(1, k + 1)):
        chk.spec_violation("T2r-fold-models-are-not-one-copy-per-fold",
                           dict(info, folds=[m.fold for m in models], tags=copy_tags,
                                clause="the returned fold models are not k distinct copies of the model handed in, "
                                       "in fold order"))
        return
    # (ii) held-out scoring of every final call (ensemble=True without a reset is by design not held-out: tallied)
    covered = []
    out_of = {}
    for _, t, ids, outs in final:
        covered += ids
        mine = fitted.get(t, set()) | table.get(t, set())
        bad = [p for p in ids if p in mine or any(spectra[q] == spectra[p] for q in mine if q in spectra)]
        if bad and (path != "ensemble" or expected_reset):
            chk.spec_violation("T2r-scored-by-a-model-that-saw-it",
                               dict(info, rows=bad[:6], refit_got_worse_in_some_fold=expected_reset,
                                    scoring_object=("model handed in" if t == tag0 else
                                                    f"copy of fold {copy_tags.index(t) + 1}" if t in copy_tags
                                                    else f"tag {t}"),
                                    clause="a PSM was scored by a model object that had been fitted, in this call, on "
                                           "it or on another PSM of its spectrum (held-out scoring violated)"))
            return
        for p, o in zip(ids, outs):
            out_of.setdefault(p, []).append((t, o))
    want = k if path == "ensemble" else 1
    if sorted(covered) != sorted(list(range(ntot)) * want) or len(flat) != ntot:
        chk.spec_violation("T2r-rows-not-scored-once",
                           dict(info, clause="the final scoring calls do not cover every PSM exactly once per scoring "
                                             "model / number of returned scores != number of PSMs"))
        return
    # (iv) the returned scores are the outputs of those calls
    if path == "ensemble":
        chk.count("T2r-ensemble-of-warm-started-copies")
        mean = [float(np.mean([o for _, o in sorted(out_of[p], key=lambda z: copy_tags.index(z[0]))]))
                for p in range(ntot)]
        if [float(x) for x in flat] != mean:
            chk.spec_violation("T2r-ensemble-not-the-mean-of-the-fold-models",
                               dict(info, clause="ensemble score != mean of the outputs of the fold models"))
        return
    raw = np.array([out_of[p][0][1] for p in range(ntot)], dtype=float)
    if path == "reset":
        for j in range(case["nfiles"]):
            lo, hi = offs[j], offs[j] + len(tabs[j])
            x, y = raw[lo:hi], flat[lo:hi]
            if not np.all(np.isfinite(y)):
                chk.reject("T2r-calibration-degenerate"); return      # threshold = decoy median: C11's subject
            i0, i1 = int(np.argmin(x)), int(np.argmax(x))
            if x[i0] == x[i1]:
                chk.reject("T2r-constant-scores"); return
            a = (y[i1] - y[i0]) / (x[i1] - x[i0])
            b = y[i0] - a * x[i0]
            if not np.allclose(a * x + b, y, rtol=1e-9, atol=1e-9 * (1 + abs(a) * 600 + abs(b))):
                chk.spec_violation("T2r-reset-scores-not-of-the-callers-model",
                                   dict(info, collection=j, impl=y[:6].tolist(), outputs_of_model_handed_in=x[:6].tolist(),
                                        clause="reset path: the returned scores of a collection are not an affine "
                                               "image of the outputs of the model handed in, row by row"))
                return
            if a <= 0:
                chk.count("T2r-calibration-not-increasing")     # C11's subject (threshold below the decoy median)
    else:
        if flat.tolist() != raw.tolist():
            chk.spec_violation("T2r-scores-not-the-outputs-of-the-fold-models",
                               dict(info, clause="a returned score is not the output of the scoring call for that row"))
            return
    # ---- the Lean model --------------------------------------------------------------------------------------
    tables = [sorted(fitted.get(t, set())) for t in copy_tags]
    worse = [t in raised for t in copy_tags]
    reqs = [req("tdcfitcopies", foreign, tables, worse, True)]
    if path == "reset":
        for j in range(case["nfiles"]):
            lo, hi = offs[j], offs[j] + len(tabs[j])
            reqs.append(req("tdcresetraw", int(case["cpred"]), [Fraction(feat[p] + FEATMOD * tag0) for p in range(lo, hi)]))
    else:
        routing = [copy_tags.index(out_of[p][0][0]) for p in range(ntot)]
        for j in range(case["nfiles"]):
            lo, hi = offs[j], offs[j] + len(tabs[j])
            reqs.append(req("tdcbrewobjects", False, int(case["cpred"]), foreign, tables, worse, True,
                            [[p, feat[p]] for p in range(lo, hi)], routing[lo:hi]))
    resp = [dec(x) for x in common.driver_batch(reqs)]
    fc = resp[0]
    m_init = sorted(int(x) for x in fc[0])
    m_copies = [sorted(int(x) for x in (c if isinstance(c, list) else [c])) for c in fc[1]]
    m_reset = a_bool(fc[2])
    i_copies = [sorted(int(x) for x in m.estimator.memo_) for m in models]
    if m_init != sorted(est0.memo_) or m_copies != i_copies:
        chk.corr_break("tdcfitcopies", dict(info, model_copies=[c[:8] for c in m_copies], impl_copies=[c[:8] for c in i_copies]))
        return
    if m_reset != (path == "reset"):
        # the model: reset iff the model handed in is trained and the re-fit of some fold got worse
        chk.corr_break("tdcfitcopies", dict(info, model_says_reset=m_reset, refit_got_worse=worse))
        return
    for j, v in enumerate(resp[1:]):
        lo, hi = offs[j], offs[j] + len(tabs[j])
        got = [float(a_rat(x)) for x in (v if isinstance(v, list) else [v])]
        if path == "reset":
            impl = raw[lo:hi].tolist()
            op = "tdcresetraw"
        else:
            impl = [float(flat[p]) - FEATMOD * out_of[p][0][0] for p in range(lo, hi)]
            op = "tdcbrewobjects"
        if got != impl:
            chk.corr_break(op, dict(info, collection=j, model=got[:8], impl=impl[:8]))
            return
