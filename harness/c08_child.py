"""Child process of the C08 harness: runs one complete analysis and prints a JSON digest of every artefact.
usage: c08_child.py <json params>  (PYTHONHASHSEED is set by the parent)

Dimensions of a case beyond the table (every one makes a result file or a returned value sensitive to a code path
that the seeded generator or a hash-ordered container can reach):
  level_cols    roll-up level columns of the table (ModifiedPeptide / Precursor / PeptideGroup result files)
  ncoll         1 or 2 collections handed to brew / assign_confidence together (prefixes "a", "b")
  fasta_decoys  a second protein-level run with a FASTA that holds the decoy proteins (group_with_decoys path), and a
                third one on the same FASTA with coarsely rounded scores
  ties          a third protein-level run with coarsely rounded scores: the seeded tie-breaking shuffle of
                groupby_max and the decoy/target pairing then decide which peptide represents a protein
  ensemble      the fed-back models also score as an ensemble (mean over the models in brew's order)
  cli           the same input through the command line entry point `mokapot.mokapot.main` (with --save_models)
  subset        `subset_max_train` (a third of the rows): the sub-sampling draws of make_train_sets precede the fits
  text_key      the table carries the optional `filename` column: read_pin puts it FIRST among the spectrum columns, so
                the key tuple that decides the cross-validation fold (dataset.py:667-673) starts with a str — the
                one kind of value whose builtin hash depends on PYTHONHASHSEED
  small_chunks  the six streaming constants set to small primes, so that prediction, training-set reading, the
                confidence sort/merge and the column-dropping pass of read_pin all run over SEVERAL chunks (the same
                constants in every run of the case: what varies is the worker count and the hash seed)
"""
import contextlib
import hashlib
import io
import json
import os
import pickle
import random
import sys
from pathlib import Path

sys.path.insert(0, str(Path(__file__).resolve().parent))


def sha(b: bytes) -> str:
    return hashlib.sha256(b).hexdigest()[:20]


def make_fasta_with_decoys(n_peptides: int, n_proteins: int, path, shared_every=5):
    """variant of mkdata.make_fasta (same target proteins) that also holds, for every target protein, the decoy
    protein `decoy_<name>` made of the reversed letter cores — the decoy peptides of the PSM table"""
    import mkdata

    prots = {j: [] for j in range(n_proteins)}
    for p in range(n_peptides):
        prots[p % n_proteins].append(p)
        if shared_every and p % shared_every == 0:
            prots[(p + 1) % n_proteins].append(p)
    lines = []
    for j, peps in prots.items():
        seq = "".join(mkdata.pep_letters(p) + "K" for p in peps) + "WWWWWWK"
        lines.append(f">sp|PROT{j}|test protein {j}\n{seq}\n")
    for j, peps in prots.items():
        seq = "".join(mkdata.pep_letters(p)[::-1] + "K" for p in peps) + "YYYYYYK"
        lines.append(f">decoy_sp|PROT{j}|test protein {j}\n{seq}\n")
    Path(path).write_text("".join(lines))
    return path


def make_table(params, r, n_spectra):
    import mkdata

    df = mkdata.make_psm_table(r, n_spectra=n_spectra, max_per_spectrum=2, n_feat=4, label_enc="pm1",
                               optional=("filename", "ExpMass") if params.get("text_key") else ("ExpMass",), signal=4.0, letter_peptides=True, n_peptides=params["n_pep"],
                               integer_scores=False, level_cols=tuple(params.get("level_cols", ())))
    # two feature columns carry a missing value, so that the feature-dropping path of read_pin runs
    # (its result must not depend on set/hash iteration order)
    df["lnrsp"] = [r.gauss(0, 1) for _ in range(len(df))]
    df["mass_err"] = [r.gauss(0, 1) for _ in range(len(df))]
    df.loc[r.randrange(len(df)), "lnrsp"] = float("nan")
    df.loc[r.randrange(len(df)), "mass_err"] = float("nan")
    # every third peptide is "weak": its target PSMs score like decoys, so that the decoy counterpart wins a fair
    # share of the protein pairs (only then do the seeded decoy/target pairing and the seeded tie-breaking shuffle of
    # the protein level show in the result files)
    weak = {mkdata.pep_letters(p) + "K" for p in range(params["n_pep"]) if p % 3 == 0}
    for i in df.index[df["Peptide"].isin(weak)]:
        for c in [c for c in df.columns if c.startswith("feat")]:
            df.loc[i, c] = r.gauss(0.0, 1.0)
    tail = ["Peptide"] + [c for c in ("ModifiedPeptide", "Precursor", "PeptideGroup") if c in df.columns] + ["Proteins"]
    cols = [c for c in df.columns if c not in tail] + tail
    return df[cols]


def files_digest(digest, key, out):
    for f in sorted(Path(out).iterdir()):
        digest[f"{key}:{f.name}"] = sha(f.read_bytes())
        if f.name.endswith("decoys.proteins"):      # how many protein pairs were won by the decoy (sensitivity tally)
            digest[f"n_decoy_proteins:{key}:{f.name}"] = max(0, len(f.read_bytes().splitlines()) - 1)


def confidence_run(params, paths, scores, descs, out, prot, rng):
    import numpy as np
    import mokapot
    import mkdata

    out.mkdir(exist_ok=True)
    dsets = [mkdata.read_dataset(p) for p in paths]
    prefixes = [None] if len(paths) == 1 else ["a", "b"][:len(paths)]
    with contextlib.redirect_stdout(io.StringIO()), contextlib.redirect_stderr(io.StringIO()):
        mokapot.assign_confidence(dsets, max_workers=params["workers"],
                                  scores=[np.asarray(s, dtype=float).ravel() for s in scores],
                                  descs=list(descs), dest_dir=out, prefixes=prefixes, decoys=True, proteins=prot,
                                  rng=rng, peps_algorithm=params.get("peps", "qvality"))


def extra_run(digest, key, params, paths, scores, descs, out, prot):
    """an additional protein-level run; when the real code refuses it (e.g. a PEP estimator that needs more decoy
    proteins than the table has) the exception is the artefact that must be the same in every run"""
    try:
        # the additional runs use the fast PEP estimator (the case's own choice is exercised by the main run)
        confidence_run(params if key == "file" else dict(params, peps="qvality"), paths, scores, descs, out, prot,
                       params["seed"])
    except Exception as e:
        digest[f"{key}:raised"] = f"{type(e).__name__}: {str(e)[:120]}"
    files_digest(digest, key, out)


SMALL_CHUNKS = dict(predict=97, read_all=113, confidence=89, merge=61, drop_rows=127, drop_cols=3)


def analysis(params, workdir: Path, models_in=None, model_order=None, proteins_in=None, keep=None):
    """returns (digest dict, models). All randomness derives from params['seed']."""
    import pipeline as P

    with P.chunk_sizes(**(SMALL_CHUNKS if params.get("small_chunks") else {})):
        return _analysis(params, workdir, models_in, model_order, proteins_in, keep)


def subset_of(params, n_rows):
    """`subset_max_train` of a case: a third of all rows (every file's share stays below its training rows)"""
    return max(20, n_rows // 3) if params.get("subset") else None


def _analysis(params, workdir: Path, models_in=None, model_order=None, proteins_in=None, keep=None):
    import numpy as np
    import mokapot
    import mkdata

    r = random.Random(params["data_seed"])
    workdir.mkdir(parents=True, exist_ok=True)
    ncoll = params.get("ncoll", 1)
    paths = []
    n_rows = 0
    for c in range(ncoll):
        df = make_table(params, r, params["n_spectra"] if c == 0 else max(60, (2 * params["n_spectra"]) // 3))
        n_rows += len(df)
        paths.append(mkdata.write_table(df, workdir / f"in{c}.{params['fmt']}"))
    subset = subset_of(params, n_rows)
    # 1-2 unique peptides per protein, so that decoy proteins do win some pairs (the decoy side of the picked-protein
    # step, which pairs decoy peptides with target peptides of equal composition, must show in the result files)
    n_prot = max(3, (3 * params["n_pep"]) // 4)
    fasta = mkdata.make_fasta(params["n_pep"], n_prot, workdir / "db.fasta", shared_every=7)
    digest = {}
    # deliberately perturb the global numpy state: a seeded analysis must not depend on it
    np.random.seed(params.get("global_noise", 0))
    dsets = [mkdata.read_dataset(p, max_workers=params["workers"]) for p in paths]
    split_rng = np.random.default_rng(params["seed"])
    folds = [mkdata.read_dataset(p)._split(params["folds"], split_rng) for p in paths]
    digest["feature_columns"] = [list(ds.feature_columns) for ds in dsets]
    digest["folds"] = sha(json.dumps([[list(map(int, f)) for f in fo] for fo in folds]).encode())
    if models_in is None:
        model = mokapot.PercolatorModel(train_fdr=0.25, max_iter=2, rng=params["seed"], override=True)
    else:
        model = [models_in[i] for i in model_order]
    _, models, scores, descs = mokapot.brew(dsets if ncoll > 1 else dsets[0], model, test_fdr=0.25,
                                            folds=params["folds"], max_workers=params["workers"], rng=params["seed"],
                                            subset_max_train=subset)
    digest["scores"] = sha(b"".join(np.ascontiguousarray(np.asarray(s, dtype=float)).tobytes() for s in scores))
    digest["descs"] = [bool(x) for x in descs]
    coefs = []
    for m in models:
        est = getattr(m.estimator, "best_estimator_", m.estimator)
        if hasattr(est, "coef_"):
            coefs.append(np.asarray(est.coef_, dtype=float).tobytes() + np.asarray(est.intercept_, dtype=float).tobytes())
        else:   # training failed for this fold (brew then falls back to the best feature)
            coefs.append(b"untrained")
    digest["coefs"] = sha(b"".join(coefs))
    digest["model_folds"] = [int(m.fold) for m in models]
    # the state of every returned model's private generator (a copy of brew's, advanced by the fit's permutation)
    digest["model_rng"] = sha(json.dumps([m.rng.bit_generator.state for m in models], sort_keys=True, default=str).encode())
    if models_in is not None and params.get("ensemble") and all(m.is_trained for m in models_in):
        ds_e = [mkdata.read_dataset(p) for p in paths]
        _, _, sc_e, _ = mokapot.brew(ds_e if ncoll > 1 else ds_e[0], [models_in[i] for i in model_order],
                                     test_fdr=0.25, folds=params["folds"], max_workers=params["workers"],
                                     rng=params["seed"], ensemble=True)
        digest["scores_ensemble"] = sha(b"".join(np.ascontiguousarray(np.asarray(s, dtype=float)).tobytes() for s in sc_e))
    # the same Proteins object may be reused for a second analysis in one process (it must not carry state over)
    prot = proteins_in if proteins_in is not None else mokapot.read_fasta(fasta, missed_cleavages=0, min_length=4)
    if keep is not None:
        keep["proteins"] = prot
        keep["paths"], keep["scores"], keep["descs"], keep["subset"] = paths, scores, descs, subset
    digest["fasta"] = sha(json.dumps([sorted(prot.peptide_map.items()), sorted(prot.protein_map.items()),
                                      sorted(prot.shared_peptides.items())]).encode())   # value strings exactly (D38)
    extra_run(digest, "file", params, paths, scores, descs, workdir / "out", prot)
    if params.get("fasta_decoys"):
        fasta2 = make_fasta_with_decoys(params["n_pep"], n_prot, workdir / "db_decoys.fasta", shared_every=7)
        prot2 = mokapot.read_fasta(fasta2, missed_cleavages=0, min_length=4)
        digest["fasta_decoys"] = sha(json.dumps([sorted(prot2.peptide_map.items()), sorted(prot2.protein_map.items()),
                                                 sorted(prot2.shared_peptides.items()), bool(prot2.has_decoys)]).encode())
        extra_run(digest, "file_fd", params, paths, scores, descs, workdir / "out_fd", prot2)
        # ... and with tied scores, so that the seeded tie-breaking shuffle decides on this path too
        extra_run(digest, "file_fd_ties", params, paths, tied_scores(scores), descs, workdir / "out_fd_ties", prot2)
    if params.get("ties"):
        extra_run(digest, "file_ties", params, paths, tied_scores(scores), descs, workdir / "out_ties", prot)
    if params.get("cli") and models_in is None:
        digest.update(cli_analysis(params, workdir, fasta))
    return digest, models


def tied_scores(scores):
    """scores rounded to whole numbers: many PSMs, peptides and proteins share a score"""
    import numpy as np

    return [np.round(np.asarray(s, dtype=float).ravel() * 1.5) for s in scores]


def cli_analysis(params, workdir: Path, fasta):
    """the command line entry point on a text copy of the first collection (plus the second, if any)"""
    import logging
    import numpy as np
    import pandas as pd
    import mokapot
    from mokapot.mokapot import main as cli_main

    r = random.Random(params["data_seed"])
    pins = []
    n_rows = 0
    for c in range(params.get("ncoll", 1)):
        df = make_table(params, r, params["n_spectra"] if c == 0 else max(60, (2 * params["n_spectra"]) // 3))
        n_rows += len(df)
        p = workdir / f"cli_in{c}.pin"
        df.to_csv(p, sep="\t", index=False)
        pins.append(p)
    out = workdir / "cli_out"
    args = [*map(str, pins), "--dest_dir", str(out), "--seed", str(params["seed"]), "--folds", str(params["folds"]),
            "--max_workers", str(params["workers"]), "--proteins", str(fasta), "--missed_cleavages", "0",
            "--min_length", "4", "--keep_decoys", "--train_fdr", "0.25", "--test_fdr", "0.25", "--max_iter", "2",
            "--override", "--save_models", "--verbosity", "0", "--peps_algorithm", params.get("peps", "qvality")]
    if subset_of(params, n_rows) is not None:
        args += ["--subset_max_train", str(subset_of(params, n_rows))]
    level = logging.root.manager.disable
    # (no chdir: every output of the tool goes to --dest_dir, and the parent harness runs this in-process while
    # its worker threads spawn the fresh interpreters)
    with contextlib.redirect_stdout(io.StringIO()), contextlib.redirect_stderr(io.StringIO()):
        try:
            cli_main(args)
        finally:
            logging.disable(level)
    d = {}
    for f in sorted(out.iterdir()):
        if f.suffix == ".pkl":
            m = mokapot.load_model(f)
            est = getattr(m.estimator, "best_estimator_", m.estimator)
            blob = (np.asarray(est.coef_, dtype=float).tobytes() + np.asarray(est.intercept_, dtype=float).tobytes()
                    if hasattr(est, "coef_") else b"untrained")
            d[f"cli:{f.name}"] = sha(blob + json.dumps(m.rng.bit_generator.state, sort_keys=True, default=str).encode())
        else:
            d[f"cli:{f.name}"] = sha(f.read_bytes())
    return d


KEY_NAMES = {
    "plain": lambda k: f"run{k}.mzML",
    "odd": lambda k: ["it's run.raw", 'say "a".raw', "rün é.mzML", "back\\slash.d", "a b  c.raw", "日本.raw", "x'\"y.raw"][k % 7]
    + ("" if k < 7 else str(k)),
}


def make_key_table(case):
    """table of a split-key case: which optional spectrum columns exist, what the run names look like, whether the
    masses / retention times are whole numbers (the `repr` of the key cells differs: 'run0.mzML', 1000, 500.25,
    np.int64(1000), np.float64(500.25) …)"""
    import mkdata

    r = random.Random(case["data_seed"])
    df = mkdata.make_psm_table(r, n_spectra=case["n_spectra"], max_per_spectrum=case["per_spectrum"], n_feat=2,
                               label_enc="pm1", optional=tuple(case["optional"]), signal=3.0, rowid=False)
    scan = df["ScanNr"].to_numpy()
    if "filename" in df.columns:
        df["filename"] = [KEY_NAMES[case["names"]](int(s) % case["n_files"]) for s in scan]
        if case.get("dup_scans"):      # the same scan numbers in every run: only the file name tells spectra apart
            df["ScanNr"] = [1000 + (int(s) - 1000) // case["n_files"] for s in scan]
    if case.get("fractional"):
        for c in ("ExpMass", "ret_time"):
            if c in df.columns:
                df[c] = [float(v) + (int(s) % 4) * 0.25 for v, s in zip(df[c], scan)]
    return df


def split_only(case, workdir: Path):
    """read the table and cut the folds: [[row numbers of fold 0, in the order _split returns them] …]"""
    import numpy as np
    import mkdata

    workdir.mkdir(parents=True, exist_ok=True)
    df = make_key_table(case)
    if case.get("narrow") and case["fmt"] == "parquet":
        # storage widths other than 64 bit (a Parquet file keeps them; text is always read as 64 bit)
        df["ScanNr"] = df["ScanNr"].astype(case["narrow"][0])
        for c in ("ExpMass", "ret_time"):
            if c in df.columns:
                df[c] = df[c].astype(case["narrow"][1])
    path = mkdata.write_table(df, workdir / f"key.{case['fmt']}")
    ds = mkdata.read_dataset(path)
    # the cells as the key function sees them: numeric key columns widened to 64 bit (dataset.py:654-665, D53), then
    # `.values` row by row
    spectra = ds.spectra_dataframe[ds.spectrum_columns]
    spectra = spectra.astype({c: (np.int64 if t.kind in "iu" else np.float64) for c, t in spectra.dtypes.items()
                              if t.kind in "iuf"})
    cells = [[repr(v) for v in tuple(row)] for row in spectra.values]
    try:
        folds = [[int(i) for i in f] for f in ds._split(case["folds"], np.random.default_rng(case["seed"]))]
    except IndexError:
        folds = "IndexError"
    return dict(columns=list(ds.spectrum_columns), cells=cells, folds=folds)


if __name__ == "__main__":
    import logging
    import warnings
    import tempfile
    import shutil

    warnings.filterwarnings("ignore")
    logging.disable(logging.CRITICAL)
    params = json.loads(sys.argv[1])
    d = Path(tempfile.mkdtemp(prefix="c08"))
    try:
        if params.get("kind") == "splitkey":
            dig = split_only(params, d)
        else:
            dig, _ = analysis(params, d)
        print("DIGEST " + json.dumps(dig, sort_keys=True))
    finally:
        shutil.rmtree(d, ignore_errors=True)
