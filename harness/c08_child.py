"""Child process of the C08 harness: runs one complete analysis and prints a JSON digest of every artefact.
usage: c08_child.py <json params>  (PYTHONHASHSEED is set by the parent)"""
import hashlib
import io
import json
import os
import pickle
import random
import sys
from pathlib import Path

sys.path.insert(0, str(Path(__file__).resolve().parent))


def sha(b: bytes) -> str:
    return hashlib.sha256(b).hexdigest()[:20]


def analysis(params, workdir: Path, models_in=None, model_order=None, proteins_in=None, keep=None):
    """returns (digest dict, models). All randomness derives from params['seed']."""
    import numpy as np
    import mokapot
    import mkdata
    import pipeline as P

    r = random.Random(params["data_seed"])
    df = mkdata.make_psm_table(r, n_spectra=params["n_spectra"], max_per_spectrum=2, n_feat=4, label_enc="pm1",
                               optional=("ExpMass",), signal=4.0, letter_peptides=True, n_peptides=params["n_pep"],
                               integer_scores=False)
    workdir.mkdir(parents=True, exist_ok=True)
    # two feature columns carry a missing value, so that the feature-dropping path of read_pin runs
    # (its result must not depend on set/hash iteration order)
    df["lnrsp"] = [r.gauss(0, 1) for _ in range(len(df))]
    df["mass_err"] = [r.gauss(0, 1) for _ in range(len(df))]
    df.loc[r.randrange(len(df)), "lnrsp"] = float("nan")
    df.loc[r.randrange(len(df)), "mass_err"] = float("nan")
    cols = [c for c in df.columns if c not in ("Peptide", "Proteins")] + ["Peptide", "Proteins"]
    df = df[cols]
    p = mkdata.write_table(df, workdir / f"in.{params['fmt']}")
    # 1-2 unique peptides per protein, so that decoy proteins do win some pairs (the decoy side of the picked-protein
    # step, which pairs decoy peptides with target peptides of equal composition, must show in the result files)
    fasta = mkdata.make_fasta(params["n_pep"], max(3, (3 * params["n_pep"]) // 4), workdir / "db.fasta", shared_every=7)
    digest = {}
    # deliberately perturb the global numpy state: a seeded analysis must not depend on it
    np.random.seed(params.get("global_noise", 0))
    ds = mkdata.read_dataset(p, max_workers=params["workers"])
    hashes = None
    folds = mkdata.read_dataset(p)._split(params["folds"], np.random.default_rng(params["seed"]))
    digest["feature_columns"] = list(ds.feature_columns)
    digest["folds"] = sha(json.dumps([list(map(int, f)) for f in folds]).encode())
    if models_in is None:
        model = mokapot.PercolatorModel(train_fdr=0.25, max_iter=2, rng=params["seed"], override=True)
    else:
        model = [models_in[i] for i in model_order]
    _, models, scores, descs = mokapot.brew(ds, model, test_fdr=0.25, folds=params["folds"],
                                            max_workers=params["workers"], rng=params["seed"])
    digest["scores"] = sha(np.ascontiguousarray(np.asarray(scores[0], dtype=float)).tobytes())
    digest["descs"] = [bool(x) for x in descs]
    coefs = []
    for m in models:
        est = getattr(m.estimator, "best_estimator_", m.estimator)
        if hasattr(est, "coef_"):
            coefs.append(np.asarray(est.coef_, dtype=float).tobytes() + np.asarray(est.intercept_, dtype=float).tobytes())
        else:   # training failed for this fold (brew then falls back to the best feature)
            coefs.append(b"untrained")
    digest["coefs"] = sha(b"".join(coefs))
    digest["model_folds"] = [int(m.fold) for m in models]
    # the same Proteins object may be reused for a second analysis in one process (it must not carry state over)
    prot = proteins_in if proteins_in is not None else mokapot.read_fasta(fasta, missed_cleavages=0, min_length=4)
    if keep is not None:
        keep["proteins"] = prot
    digest["fasta"] = sha(json.dumps([sorted(prot.peptide_map.items()), sorted(prot.protein_map.items()),
                                      sorted((k, sorted(v.split("; "))) for k, v in prot.shared_peptides.items())]).encode())
    out = workdir / "out"
    out.mkdir(exist_ok=True)
    ds2 = mkdata.read_dataset(p)
    import contextlib
    with contextlib.redirect_stdout(io.StringIO()), contextlib.redirect_stderr(io.StringIO()):
        mokapot.assign_confidence([ds2], max_workers=params["workers"], scores=[np.asarray(scores[0], dtype=float).ravel()],
                                  descs=list(descs), dest_dir=out, prefixes=[None], decoys=True, proteins=prot,
                                  rng=params["seed"], peps_algorithm=params.get("peps", "qvality"))
    for f in sorted(out.iterdir()):
        digest["file:" + f.name] = sha(f.read_bytes())
    return digest, models


if __name__ == "__main__":
    import logging
    import warnings
    import tempfile
    import shutil

    warnings.filterwarnings("ignore")
    logging.disable(logging.CRITICAL)
    params = json.loads(sys.argv[1])
    d = Path(tempfile.mkdtemp(prefix="c08"))
    try:
        dig, _ = analysis(params, d)
        print("DIGEST " + json.dumps(dig, sort_keys=True))
    finally:
        shutil.rmtree(d, ignore_errors=True)
