"""C04 (extension) — held-out scoring under every option of `brew`, the stand-alone roll-up tool, and the
end-to-end path; see GAPS-C04.md.  Used by harness/c04.py.

Three case kinds:

* `options_case`   (T2x) real `brew()` with a *memorising* probe estimator (maximal capacity: it recalls every row
  it was fitted on and says so in its output), under the options the base harness never drives: `ensemble`,
  a list of pre-trained models (given in fold order or in any other order), several collections, worker
  threads, a training cap, small prediction chunks.  Spec (clause "PSMs are only ever scored by a model that
  has not seen them or their decoy competitors"): whenever `ensemble` is off, no returned score carries the
  memorisation flag, every row is scored by the model of its own fold, and no training row of that model shares
  a spectrum with it.  With `ensemble=True` the code *by design* averages all fold models (Lean:
  `C04_ensemble_eq_spec`, `C04_ensemble_not_heldout`); there the run is compared with the Lean model
  (`tdcensemble`), and the number of models that had memorised each row is tallied, not judged.
* `rollup_tool_case` (T5x/T1x) real `brew_rollup.main` on PSM-level result files: the survivors of every level are
  compared with the Lean model of the tool (`tdcrollup`, ties included: the merged reader lists decoy files
  before target files), the counting inequality T1 is evaluated on the tool's output files, and the whole run
  is repeated with every label swapped (one-sided clause, see `one_sided`): where the row representing an id
  differs between the two runs, it must be a decoy in both — a tie decided for a decoy is conservative and is
  tallied, a tie decided for a target is a violation.
* `pipeline_case`  (E2E) `brew()` followed by `assign_confidence()` with the scores and directions it returned,
  one or two collections: the q-values of the result files must be the C01 formula applied to the winners of
  an independently computed competition on brew's scores (T1, T3 through the real hand-over).
"""
from __future__ import annotations

import contextlib
import io
import threading
from fractions import Fraction

import numpy as np
from sklearn.base import BaseEstimator

import common
import mkdata
import pipeline as P
from common import a_int, a_rat, deep, dec, req

# ---------------------------------------------------------------------------------------------------------
# memorising probe estimator
# ---------------------------------------------------------------------------------------------------------
RUNS = {}
_lock = threading.Lock()
FEATMOD = 64          # informative feature is an integer in [0, 64)
TAGMOD = 8            # at most 8 model instances per run
SEEN = FEATMOD * TAGMOD


def new_run():
    rid = len(RUNS)
    RUNS[rid] = {"next": 0, "first_score": {}, "fits": {}}
    return rid


class Memo(BaseEstimator):
    """predict_proba-only estimator (so `brew` does not calibrate and the returned scores are the raw outputs):
    output = feat + 64 * tag + 512 * [this instance was fitted on the row].  Column 0 of X is the row id,
    column 1 the integer feature.  Every row ever handed to `fit` is memorised."""

    def __init__(self, run=0):
        self.run = run

    def fit(self, X, y):
        with _lock:
            R = RUNS[self.run]
            if not hasattr(self, "tag_"):
                self.tag_ = R["next"]
                R["next"] += 1
                self.memo_ = set()
            ids = X[:, 0].astype(np.int64).tolist()
            self.memo_ |= set(ids)
            R["fits"].setdefault(self.tag_, set()).update(ids)
        return self

    def predict_proba(self, X):
        ids = X[:, 0].astype(np.int64)
        with _lock:
            R = RUNS[self.run]
            # the first scoring call of an instance is the training loop scoring all its training rows
            R["first_score"].setdefault(self.tag_, ids.tolist())
        seen = np.array([int(i) in self.memo_ for i in ids], dtype=np.int64)
        return (X[:, 1].astype(np.int64) % FEATMOD + FEATMOD * self.tag_ + SEEN * seen).astype(float)


def raw_score(feat, tag, seen):
    return int(feat) % FEATMOD + FEATMOD * int(tag) + SEEN * int(bool(seen))


# ---------------------------------------------------------------------------------------------------------
# T2x — held-out scoring under the options of brew
# ---------------------------------------------------------------------------------------------------------
def gen_options(rng):
    return dict(
        data_seed=rng.randrange(1 << 30),
        nfiles=rng.choice([1, 1, 2]),
        n_spectra=rng.choice([30, 45, 70]),
        max_per=rng.choice([1, 2, 3]),
        folds=rng.choice([2, 3, 3, 4, 5]),
        ensemble=rng.random() < 0.4,
        pretrained=rng.choice([None, "fold-order", "reversed", "rotated"]),
        # the rng of the call that re-uses trained fold models: fold membership is a function of the data alone, so
        # another seed, no seed or an already advanced generator must still route every PSM to a model that has not seen it
        reseed=rng.choice(["same", "other-int", "other-int", "none", "advanced-generator"]),
        workers=rng.choice([1, 1, 3]),
        cap=rng.choice([None, None, "mid"]),
        cpred=rng.choice([7, 23, 100000]),
        seed=rng.randrange(1000),
        # second pass (GAPS-C04.md): the 5 000 000-row loop of make_train_sets run with a small `chunk_range`
        # (None = the constant as it is), and the caller's Model object handed to a second brew call
        chunk_range=rng.choice([None, None, 1, 7, 16]),
        reuse_model=rng.random() < 0.6,
    )


def options_case(chk, rng, case=None):
    import random
    import mokapot

    case = case or gen_options(rng)
    r = random.Random(case["data_seed"])
    k = case["folds"]
    with P.workdir() as d:
        tabs, dss, offs, off = [], [], [], 0
        for j in range(case["nfiles"]):
            df = mkdata.make_psm_table(r, n_spectra=case["n_spectra"], max_per_spectrum=case["max_per"], n_feat=2,
                                       label_enc="pm1", optional=("ExpMass",), signal=4.0)
            df["rowid"] = np.arange(off, off + len(df))
            df["feat0"] = [r.randrange(FEATMOD // 2, FEATMOD) if (lab == 1 and r.random() < 0.6) else
                           r.randrange(0, FEATMOD // 2) for lab in df["Label"]]
            df["SpecId"] = [f"f{j}_{i}" for i in range(len(df))]
            offs.append(off); off += len(df); tabs.append(df)
            dss.append(mkdata.read_dataset(mkdata.write_table(df, d / f"in{j}.pin")))
        ntot = off
        spectra = {}
        for j, (df, ds) in enumerate(zip(tabs, dss)):
            cols = list(ds.spectrum_columns)
            for i in range(len(df)):
                spectra[offs[j] + i] = (j,) + tuple(df[c].iloc[i] for c in cols)
        feat = {offs[j] + i: int(v) for j, df in enumerate(tabs) for i, v in enumerate(df["feat0"])}
        cap = None if case["cap"] is None else max(2 * case["nfiles"], ntot // 3)
        run = new_run()

        def fresh():
            return mokapot.Model(Memo(run=run), scaler="as-is", train_fdr=0.5, max_iter=2, override=True,
                                 rng=case["seed"])

        kw = dict(test_fdr=0.5, folds=k, max_workers=case["workers"], rng=case["seed"])
        import c04obj
        m0 = fresh()          # the caller's model object: brew must fit deep copies of it, never the object itself
        second = None
        try:
            with P.chunk_sizes(predict=case["cpred"]), c04obj.chunk_range(case.get("chunk_range")) as patched:
                if not patched:
                    chk.reject("T2x-chunk-range-constant-not-found"); return
                if case["pretrained"] is None:
                    _, models, scores, _ = mokapot.brew(dss, m0, subset_max_train=cap, ensemble=case["ensemble"],
                                                        **kw)
                    if case.get("reuse_model") and 2 * k <= TAGMOD and not c04obj.model_touched(m0):
                        # object re-use: the same Model object, fresh dataset objects (brew consumes
                        # `spectra_dataframe`), the same settings
                        dss_b = [mkdata.read_dataset(d / f"in{j}.pin") for j in range(case["nfiles"])]
                        second = mokapot.brew(dss_b, m0, subset_max_train=cap, ensemble=case["ensemble"], **kw)[1:3]
                else:
                    _, first, _, _ = mokapot.brew(dss, m0, subset_max_train=cap, **kw)
                    if not all(m.is_trained for m in first):
                        chk.reject("T2x-training-failed"); return
                    given = list(first)
                    if case["pretrained"] == "reversed":
                        given = given[::-1]
                    elif case["pretrained"] == "rotated":
                        given = given[1:] + given[:1]
                    dss2 = [mkdata.read_dataset(d / f"in{j}.pin") for j in range(case["nfiles"])]
                    kw2 = dict(kw)
                    how = case.get("reseed", "same")
                    if how == "other-int":
                        kw2["rng"] = case["seed"] + 1 + case["data_seed"] % 97
                    elif how == "none":
                        kw2["rng"] = None
                    elif how == "advanced-generator":
                        g2 = np.random.default_rng(case["seed"])
                        g2.random(case["data_seed"] % 7 + 1)
                        kw2["rng"] = g2
                    _, models, scores, _ = mokapot.brew(dss2, given, ensemble=case["ensemble"], **kw2)
        except (IndexError, RuntimeError) as e:
            chk.reject("T2x-brew-refused:" + type(e).__name__); return
        except ValueError as e:
            msg = str(e)
            if any(s in msg for s in ("Cannot take a larger sample", "PSMs were detected", "PSMs were available",
                                      "need at least one array")):
                chk.reject("T2x-brew-refused:ValueError"); return
            raise
        if not all(m.is_trained for m in models):
            chk.reject("T2x-training-failed"); return
        R = RUNS[run]
        chk.case(None, ("T2x", case["data_seed"], k, case["ensemble"], str(case["pretrained"]), case["nfiles"]),
                 sample=dict(kind="brew-options", **{a: str(b) for a, b in case.items()}))
        chk.count("T2x-ensemble", case["ensemble"]); chk.count("T2x-pretrained", str(case["pretrained"]))
        if case["pretrained"] is not None:
            chk.count("T2x-reuse-rng", case.get("reseed", "same"))
        chk.count("T2x-nfiles", case["nfiles"]); chk.count("T2x-workers", case["workers"])
        chk.count("T2x-folds", k); chk.count("T2x-cap", str(case["cap"]))
        chk.count("T2x-chunk-range", str(case.get("chunk_range")))
        chk.count("T2x-model-object-reused", second is not None)
        info = dict(case=case)
        # the caller's model object is never fitted (brew.py:187 fits deep copies): Lean C04_fold_models_are_copies
        if c04obj.model_touched(m0):
            chk.spec_violation("T2x-callers-model-was-fitted",
                               dict(info, is_trained=bool(m0.is_trained),
                                    rows_memorised=len(getattr(m0.estimator, "memo_", ())),
                                    clause="brew fitted the Model object it was given instead of a copy of it: the "
                                           "object has memorised training rows of this call and carries them into "
                                           "every later use (a second brew call scores folds with a model that has "
                                           "seen them)"))
            return
        if not judge_options(chk, case, info, R, models, scores, k, ntot, feat, spectra, offs, tabs):
            return
        if second is not None:
            if not all(m.is_trained for m in second[0]):
                chk.reject("T2x-training-failed-second-call")
            elif not judge_options(chk, case, dict(info, call="second call with the same Model object"), R,
                                   second[0], second[1], k, ntot, feat, spectra, offs, tabs):
                return
        # the order in which pre-trained models are given must not matter (they are re-ordered by fold)
        if case["pretrained"] is not None:
            given_folds = [m.fold for m in given]
            order = deep(a_int, dec(common.driver_batch([req("tdcsortfold", given_folds)])[0]))
            order = order if isinstance(order, list) else [order]
            if [given[i] for i in order] != list(models) and [id(given[i]) for i in order] != [id(m) for m in models]:
                chk.corr_break("tdcsortfold", dict(info, given_folds=given_folds, model_order=order))


def judge_options(chk, case, info, R, models, scores, k, ntot, feat, spectra, offs, tabs):
    """the held-out clause on one brew call made with the memorising probe; False = a violation was reported"""
    n0 = len(chk.spec_violations)
    if True:
        tags = [m.estimator.tag_ for m in models]
        if [m.fold for m in models] != list(range(1, k + 1)) or len(set(tags)) != k:
            chk.spec_violation("T2x-models-not-in-fold-order",
                               dict(info, folds_of_returned_models=[m.fold for m in models],
                                    clause="the returned / used models are not one per fold in fold order"))
            return False
        train = [set(R["first_score"].get(t, [])) for t in tags]      # rows handed to Model.fit of fold f's model
        memo = [set(R["fits"].get(t, set())) for t in tags]           # rows the estimator memorised
        flat = np.concatenate([np.asarray(s, dtype=float).ravel() for s in scores])
        if len(flat) != ntot:
            chk.spec_violation("T2x-score-count", dict(info, clause="number of returned scores != number of PSMs"))
            return
        if not case["ensemble"]:
            for p in range(ntot):
                v = int(flat[p])
                if v != flat[p] or v % FEATMOD != feat[p] % FEATMOD:
                    chk.spec_violation("T2x-score-not-of-own-row", dict(info, row=p, score=float(flat[p]),
                                                                        clause="a returned score is not the "
                                                                               "output of a fold model on that row"))
                    return
                t = (v // FEATMOD) % TAGMOD
                seen = v // SEEN
                if t not in tags:
                    chk.spec_violation("T2x-scored-by-unknown-model", dict(info, row=p, clause="unknown model tag"))
                    return
                f = tags.index(t)
                shared = [q for q in train[f] if spectra[q] == spectra[p]]
                if seen or p in train[f] or shared:
                    chk.spec_violation("T2x-scored-by-a-model-that-saw-it",
                                       dict(info, row=p, model_fold=f + 1, memorised=bool(seen),
                                            row_in_training_set=p in train[f], training_rows_of_same_spectrum=shared[:4],
                                            clause="a PSM was scored by a model whose training set contains it or "
                                                   "another PSM of its spectrum (held-out scoring violated)"))
                    return
            # every model scores exactly one fold: spectra never split between models
            by_spec = {}
            for p in range(ntot):
                by_spec.setdefault(spectra[p], set()).add((int(flat[p]) // FEATMOD) % TAGMOD)
            if any(len(v) > 1 for v in by_spec.values()):
                chk.spec_violation("T2x-spectrum-split-between-models",
                                   dict(info, clause="two PSMs of one spectrum were scored by different fold models"))
        else:
            # the code as it is: mean over ALL fold models (brew.py:487-512) — compared with the Lean model
            table = [[raw_score(feat[p], t, p in memo[f]) for p in range(ntot)] for f, t in enumerate(tags)]
            reqs, spans = [], []
            for j in range(case["nfiles"]):
                lo, hi = offs[j], offs[j] + len(tabs[j])
                reqs.append(req("tdcensemble", max(1, int(case["cpred"])), [[Fraction(x) for x in row[lo:hi]]
                                                                            for row in table]))
                spans.append((lo, hi))
            exp = []
            for line in common.driver_batch(reqs):
                v = dec(line)
                exp += [float(a_rat(x)) for x in (v if isinstance(v, list) else [v])]
            nseen = [sum(p in memo[f] for f in range(k)) for p in range(ntot)]
            chk.count("T2x-ensemble-rows-scored-by-models-that-memorised-them", "some" if any(nseen) else "none")
            spec_mean = [float(Fraction(sum(table[f][p] for f in range(k)), k)) for p in range(ntot)]
            if [float(x) for x in flat] != spec_mean:
                bad = [p for p in range(ntot) if float(flat[p]) != spec_mean[p]][:5]
                chk.spec_violation("T2x-ensemble-not-the-mean-of-the-fold-models",
                                   dict(info, rows=bad, impl=[float(flat[p]) for p in bad],
                                        expected=[spec_mean[p] for p in bad],
                                        clause="ensemble score != mean over the fold models of their raw outputs"))
            elif exp != spec_mean:
                chk.corr_break("tdcensemble", dict(info, model=exp[:8], impl=[float(x) for x in flat[:8]]))
    return len(chk.spec_violations) == n0


# ---------------------------------------------------------------------------------------------------------
# T5x / T1x — the stand-alone roll-up tool
# ---------------------------------------------------------------------------------------------------------
ALPHAS = [Fraction(1, 100), Fraction(1, 20), Fraction(1, 10), Fraction(1, 4), Fraction(1, 2)]
TOOL_LEVELS = [("precursor", "Precursor"), ("modified_peptide", "ModifiedPeptide"), ("peptide", "peptide"),
               ("peptide_group", "PeptideGroup")]      # order of brew_rollup.compute_rollup_levels("psm")


def one_sided(surv_a, surv_b):
    """label-swap clause, one-sided.  surv_x: {identifier: (row, is_target_in_that_run)} = the row representing each
    identifier (spectrum / level id) in one run.  Where the two runs keep different rows for an identifier it is a
    violation only if the kept row is a TARGET in at least one of the runs (a tie was decided for a target); if it
    is a decoy in both runs the tie-break is conservative (FDR estimate can only grow).  Returns
    (violating identifiers, conservative identifiers)."""
    bad, cons = [], []
    for k in sorted(set(surv_a) | set(surv_b), key=str):
        a, b = surv_a.get(k), surv_b.get(k)
        if a is not None and b is not None and a[0] == b[0]:
            continue
        if (a is not None and a[1]) or (b is not None and b[1]):
            bad.append(k)
        else:
            cons.append(k)
    return bad, cons



def gen_rollup(rng):
    return dict(
        data_seed=rng.randrange(1 << 30),
        ncoll=rng.choice([1, 1, 2]),
        n=rng.choice([14, 30, 60]),
        score_levels=rng.choice([3, 6, 40, 10 ** 6]),          # few levels = many tied scores
        extra=[c for c in ("Precursor", "ModifiedPeptide", "PeptideGroup") if rng.random() < 0.4],
        nids=rng.choice([4, 9, 25]),
        shared_ids=rng.choice([False, False, True]),           # may a target and a decoy carry the same level id?
    )


def rollup_tables(case):
    """PSM-level result rows per collection (already competed: one PSM per spectrum), as written by
    assign_confidence: PSMId, peptide, extra level columns, score, q-value, posterior_error_prob, proteinIds"""
    import random

    if case.get("rows"):            # hand-picked case (harness/corpus/C04.json): explicit rows per collection
        colls, pid = [], 0
        for rows in case["rows"]:
            coll = []
            for x in rows:
                coll.append(dict(x, score=float(x["score"]), target=bool(x["target"]), row=pid)); pid += 1
            colls.append(coll)
        return colls
    r = random.Random(case["data_seed"])
    colls = []
    pid = 0
    for c in range(case["ncoll"]):
        rows = []
        for _ in range(case["n"]):
            target = r.random() < 0.6
            pre = "" if (target or case["shared_ids"]) else "decoy_"
            rec = dict(PSMId=f"psm{pid}", peptide=pre + f"PEP{r.randrange(case['nids'])}K", target=target,
                       score=float(r.randrange(case["score_levels"])), row=pid)
            for col in case["extra"]:
                rec[col] = pre + f"{col[:3]}{r.randrange(case['nids'])}"
            rows.append(rec)
            pid += 1
        colls.append(rows)
    return colls


def run_rollup_tool(case, colls, flip, d):
    """write the PSM-level files (label = `target` xor `flip`), run the real tool, return
    (files as lists of row numbers in file order: targets per collection, decoys per collection;
     per level: (target ids in file order, decoy ids in file order, {row: q}))"""
    import pandas as pd

    BR = P.mod("mokapot.brew_rollup")
    src = d / ("src_f" if flip else "src"); src.mkdir()
    dest = d / ("dest_f" if flip else "dest"); dest.mkdir()
    cols = ["PSMId", "peptide", *case["extra"], "score", "q-value", "posterior_error_prob", "proteinIds"]
    tfiles, dfiles = [], []
    for c, rows in enumerate(colls):
        for which, store in ((True, tfiles), (False, dfiles)):
            part = [x for x in rows if (x["target"] != flip) == which]
            part = sorted(part, key=lambda x: -x["score"])          # stable: ties keep generation order
            store.append([x["row"] for x in part])
            df = pd.DataFrame([{**{k: x[k] for k in ("PSMId", "peptide", *case["extra"], "score")},
                                "q-value": 0.5, "posterior_error_prob": 0.5, "proteinIds": "P"} for x in part],
                              columns=cols)
            df.to_csv(src / f"c{c}.{'targets' if which else 'decoys'}.psms", sep="\t", index=False)
    if any(len(f) == 0 for f in tfiles + dfiles):
        return None
    with contextlib.redirect_stdout(io.StringIO()), contextlib.redirect_stderr(io.StringIO()), P.pep_kernel(stub=True):
        BR.main(["--level", "psm", "-s", str(src), "-d", str(dest), "-r", "roll"])
    rowof = {x["PSMId"]: x["row"] for rows in colls for x in rows}
    levels = {}
    for ln, col in TOOL_LEVELS:
        if col != "peptide" and col not in case["extra"]:
            continue
        t = P.read_result(dest / f"roll.targets.{ln}s"); dd = P.read_result(dest / f"roll.decoys.{ln}s")
        if t is None or dd is None:
            levels[ln] = None
            continue
        idc = "psm_id" if "psm_id" in t.columns else "PSMId"
        qc = "q_value" if "q_value" in t.columns else "q-value"
        q = {rowof[i]: float(v) for i, v in list(zip(t[idc], t[qc])) + list(zip(dd[idc], dd[qc]))}
        levels[ln] = ([rowof[i] for i in t[idc]], [rowof[i] for i in dd[idc]], q)
    return tfiles, dfiles, levels


def rollup_tool_case(chk, rng, case=None):
    case = case or gen_rollup(rng)
    colls = rollup_tables(case)
    allrows = {x["row"]: x for rows in colls for x in rows}
    present = [(ln, col) for ln, col in TOOL_LEVELS if col == "peptide" or col in case["extra"]]
    keyids = [dict() for _ in present]

    def wire(row, flip):
        x = allrows[row]
        keys = [keyids[l].setdefault(x[col], len(keyids[l])) for l, (_, col) in enumerate(present)]
        return [row, row, keys, x["target"] != flip, int(x["score"])]

    with P.workdir() as d:
        try:
            runs = [run_rollup_tool(case, colls, flip, d) for flip in (False, True)]
        except SystemExit:
            chk.reject("T5x-rollup-exit"); return
    if any(r_ is None for r_ in runs):
        chk.reject("T5x-rollup-input-file-without-rows"); return
    info = dict(case=case)
    # cross ties: a target and a decoy of equal score carrying the same id at some level
    cross = 0
    for l, (_, col) in enumerate(present):
        seen = {}
        for x in allrows.values():
            seen.setdefault((x[col], x["score"]), set()).add(x["target"])
        cross += sum(1 for v in seen.values() if len(v) == 2)
    chk.case(None, ("T5x", case["data_seed"], case["score_levels"], case["shared_ids"]),
             sample=dict(kind="rollup-tool", **{a: str(b) for a, b in case.items()}, cross_label_ties=cross))
    chk.count("T5x-levels", len(present)); chk.count("T5x-collections", case["ncoll"])
    chk.count("T5x-score-levels", case["score_levels"]); chk.count("T5x-shared-ids", case["shared_ids"])
    chk.count("T5x-cross-label-ties", "some" if cross else "none")
    # (1) model of the tool, ties included
    reqs = []
    for flip, (tf, df_, _) in zip((False, True), runs):
        reqs.append(req("tdcrollup", len(present), [[wire(i, flip) for i in f] for f in tf],
                        [[wire(i, flip) for i in f] for f in df_]))
    resp = [dec(x) for x in common.driver_batch(reqs)]
    model_break = None
    for flip, (tf, df_, levels), model in zip((False, True), runs, resp):
        for l, (ln, _) in enumerate(present):
            if levels[ln] is None:
                chk.spec_violation("T5x-rollup-missing-file", dict(info, level=ln, clause="level file missing")); return
            t_ids, d_ids, q = levels[ln]
            lab = {i: (allrows[i]["target"] != flip) for i in allrows}
            if any(not lab[i] for i in t_ids) or any(lab[i] for i in d_ids):
                chk.spec_violation("T5x-rollup-target-decoy-misrouted", dict(info, level=ln, flipped=flip,
                                                                             clause="a row is in the wrong file"))
                return
            # T1 on the tool's own output
            for a in ALPHAS:
                at = sum(1 for i in t_ids if q[i] <= float(a)); ad = sum(1 for i in d_ids if q[i] <= float(a))
                chk.count("T1x-rollup-level", ln)
                if at > 0 and not (ad + 1 <= a * at):
                    chk.spec_violation("T1x-rollup-counting-inequality",
                                       dict(info, level=ln, alpha=str(a), accepted_targets=at, accepted_decoys=ad,
                                            flipped=flip, clause="roll-up tool: accepted decoys + 1 > alpha x "
                                                                 "accepted targets"))
                    return
            mrows = [int(a_int(x)) for x in (model[l] if isinstance(model[l], list) else [model[l]])]
            m_t = [i for i in mrows if lab[i]]; m_d = [i for i in mrows if not lab[i]]
            if (t_ids, d_ids) != (m_t, m_d):
                # is it at least a correct competition (one best row per id)?  then only the tie rule differs
                best = {}
                col = dict(present)[ln]
                for i, x in allrows.items():
                    best[x[col]] = max(best.get(x[col], -1), x["score"])
                got = t_ids + d_ids
                ok = (len({allrows[i][col] for i in got}) == len(got) == len(best)
                      and all(allrows[i]["score"] == best[allrows[i][col]] for i in got))
                if not ok:
                    chk.spec_violation("T5x-rollup-not-the-best-row-per-id",
                                       dict(info, level=ln, flipped=flip, impl=[t_ids, d_ids],
                                            clause="roll-up tool: a level does not hold exactly one best row per id"))
                    return
                if model_break is None:      # reported below unless the spec itself is violated on this case
                    model_break = dict(info, level=ln, flipped=flip, impl=[t_ids, d_ids], model=[m_t, m_d])
    # (2) label swap, one-sided: a tie between a target and a decoy of one id must never be decided for the target
    for ln, col in present:
        surv = []
        for flip, run in zip((False, True), runs):
            t_ids, d_ids, _ = run[2][ln]
            m = {allrows[i][col]: (i, True) for i in t_ids}
            m.update({allrows[i][col]: (i, False) for i in d_ids})
            surv.append(m)
        bad, cons = one_sided(*surv)
        if cons:
            chk.count("T5-conservative-tiebreak", "rollup-tool")
        if bad:
            show = lambda m, k: None if m.get(k) is None else dict(PSMId=allrows[m[k][0]]["PSMId"],
                                                                    target_in_that_run=m[k][1],
                                                                    score=allrows[m[k][0]]["score"])
            chk.spec_violation("T5x-rollup-tie-decided-for-a-target",
                               dict(info, level=ln, cross_label_ties=cross, ids=bad[:6],
                                    survivor_with_original_labels=[show(surv[0], k) for k in bad[:6]],
                                    survivor_with_swapped_labels=[show(surv[1], k) for k in bad[:6]],
                                    clause="brew_rollup: the row representing an id changes when every label is "
                                           "swapped (scores and ids unchanged) and the representative is a TARGET in "
                                           "at least one of the two runs: a score tie between a target and a decoy "
                                           "carrying the same id was decided for the target (anti-conservative)"))
            return
    if model_break is not None:
        chk.corr_break("tdcrollup", model_break)


# ---------------------------------------------------------------------------------------------------------
# E2E — the command-line pipeline: read_pin -> brew -> assign_confidence, checked against an independently
# computed competition + C01 q-values on the scores of a reference brew run with the same settings
# ---------------------------------------------------------------------------------------------------------
def rounded(q: Fraction) -> float:
    """the float the code stores for (D+1)/T: np.divide of int arrays into a float32 out-array"""
    out = np.ones(1, dtype=np.float32)
    np.divide(np.array([q.numerator]), np.array([q.denominator]), out=out)
    return float(out[0])


def sim_table(r, n_spectra, tag, pi0=0.5):
    """every spectrum has a target and a decoy PSM (rows in random order, so that the position in the file carries
    no information about the label); the target is correct with probability 1-pi0"""
    import pandas as pd

    rows, truth = [], {}
    for i in range(n_spectra):
        correct = r.random() > pi0
        pair = [dict(SpecId=f"{tag}t{i}", Label=1, ScanNr=1000 + i, ExpMass=500 + i,
                     feat0=r.gauss(3.0 if correct else 0.0, 1.0), feat1=r.gauss(0, 1), feat2=r.gauss(0, 1),
                     Peptide=f"PEPT{tag}{i % max(3, n_spectra // 2)}K", Proteins=f"PROT{i % 11}"),
                dict(SpecId=f"{tag}d{i}", Label=-1, ScanNr=1000 + i, ExpMass=500 + i,
                     feat0=r.gauss(0.0, 1.0), feat1=r.gauss(0, 1), feat2=r.gauss(0, 1),
                     Peptide=f"decoy_PEPT{tag}{i % max(3, n_spectra // 2)}K", Proteins=f"decoy_PROT{i % 11}")]
        truth[f"{tag}t{i}"] = correct
        r.shuffle(pair)
        rows += pair
    return pd.DataFrame(rows), truth


def expected_levels(df, score):
    """independent competition: per spectrum the best-scoring PSM, then per peptide the best-scoring winner; rows of
    equal score are ordered by identifier (the files are canonicalised the same way).  None when the winner of a
    spectrum or the representative of a peptide is not determined by the scores (a tie at the top).
    Returns {level: [(SpecId, target, score)] best first}"""
    best = {}
    for i in range(len(df)):
        key = (df["ScanNr"].iloc[i], df["ExpMass"].iloc[i])
        cur = best.get(key)
        s = float(score[i])
        if cur is None or s > cur[0]:
            best[key] = (s, [i])
        elif s == cur[0]:
            cur[1].append(i)
    if any(len(v[1]) > 1 for v in best.values()):
        return None
    psm = sorted(((s, ix[0]) for s, ix in best.values()), key=lambda x: (-x[0], df["SpecId"].iloc[x[1]]))
    rep = {}
    for s, i in psm:
        p = df["Peptide"].iloc[i]
        if p not in rep:
            rep[p] = (s, [i])
        elif rep[p][0] == s:
            rep[p][1].append(i)
    if any(len(v[1]) > 1 for v in rep.values()):
        return None
    pep = sorted(((s, ix[0]) for s, ix in rep.values()), key=lambda x: (-x[0], df["SpecId"].iloc[x[1]]))
    fmt = lambda lst: [(df["SpecId"].iloc[i], bool(df["Label"].iloc[i] == 1), s) for s, i in lst]
    return {"psms": fmt(psm), "peptides": fmt(pep)}


def gen_pipeline(rng):
    return dict(data_seed=rng.randrange(1 << 30), ncoll=rng.choice([1, 2, 2]), n_spectra=rng.choice([60, 90]),
                folds=rng.choice([2, 3]), seed=rng.randrange(1000), aggregate=rng.random() < 0.4,
                keep_decoys=rng.random() < 0.7, ensemble=rng.random() < 0.25, cap=rng.choice([None, None, 90]),
                load_models=rng.random() < 0.6,
                # rows per temporary sorted chunk file of assign_confidence (None = one chunk), second pass
                conf_chunk=rng.choice([None, 37]))


def pipeline_case(chk, rng, case=None):
    import random
    import mokapot

    case = case or gen_pipeline(rng)
    M = P.mod("mokapot.mokapot")
    r = random.Random(case["data_seed"])
    with P.workdir() as d:
        tabs, paths, truth = [], [], {}
        for j in range(case["ncoll"]):
            df, tr = sim_table(r, case["n_spectra"], "abc"[j], pi0=0.4)
            truth.update(tr); tabs.append(df)
            paths.append(mkdata.write_table(df, d / f"run{j}.pin"))
        out = d / "out"
        argv = [*map(str, paths), "--dest_dir", str(out), "--verbosity", "0", "--seed", str(case["seed"]),
                "--folds", str(case["folds"]), "--train_fdr", "0.25", "--test_fdr", "0.25", "--max_iter", "2",
                "--override"]
        argv += ["--keep_decoys"] if case["keep_decoys"] else []
        argv += ["--aggregate"] if case["aggregate"] else []
        argv += ["--ensemble"] if case["ensemble"] else []
        argv += ["--subset_max_train", str(case["cap"])] if case["cap"] else []
        try:
            # reference scores: the same brew call as mokapot.py:103-128 makes
            np.random.seed(case["seed"])
            model = mokapot.PercolatorModel(train_fdr=0.25, max_iter=2, direction=None, override=True,
                                            rng=case["seed"])
            dss = mokapot.read_pin([d / f"run{j}.pin" for j in range(case["ncoll"])], max_workers=1)
            _, models, scores, descs = mokapot.brew(dss, model=model, test_fdr=0.25, folds=case["folds"],
                                                    max_workers=1, subset_max_train=case["cap"],
                                                    ensemble=case["ensemble"], rng=case["seed"])
            if case["load_models"]:
                # the command line re-scores with the saved fold models (given in reverse order: brew re-orders
                # them by fold) instead of training again
                if not all(m.is_trained for m in models):
                    chk.reject("E2E-training-failed"); return
                files = []
                for m in models:
                    f = d / f"model{m.fold}.pkl"; m.save(f); files.append(str(f))
                argv += ["--load_models", *files[::-1]]
            with contextlib.redirect_stdout(io.StringIO()), contextlib.redirect_stderr(io.StringIO()), \
                    P.pep_kernel(stub=True), \
                    P.chunk_sizes(**({"confidence": case["conf_chunk"]} if case.get("conf_chunk") else {})):
                M.main(argv)
        except (RuntimeError, ValueError, IndexError) as e:
            chk.reject("E2E-pipeline-refused:" + type(e).__name__); return
        except SystemExit:
            chk.reject("E2E-pipeline-exit"); return
        chk.case(None, ("E2E", case["data_seed"], case["ncoll"], case["aggregate"]),
                 sample=dict(kind="cli-pipeline", **{a: str(b) for a, b in case.items()}))
        chk.count("E2E-collections", case["ncoll"]); chk.count("E2E-aggregate", case["aggregate"])
        chk.count("E2E-keep-decoys", case["keep_decoys"]); chk.count("E2E-ensemble", case["ensemble"])
        chk.count("E2E-load-models", case["load_models"])
        chk.count("E2E-confidence-chunk", str(case.get("conf_chunk")))
        info = dict(case=case)
        shared = case["aggregate"] or case["ncoll"] == 1
        qreqs, plan = [], []
        for j, df in enumerate(tabs):
            s = np.asarray(scores[j], dtype=float).ravel()
            s = s if descs[j] else -s
            exp = expected_levels(df, s)
            if exp is None:
                chk.reject("E2E-tied-scores"); return
            prefix = "" if shared else f"run{j}."
            for level in ("psms", "peptides"):
                t = P.read_result(out / f"{prefix}targets.{level}")
                dd = P.read_result(out / f"{prefix}decoys.{level}")
                if t is None or (case["keep_decoys"] and dd is None):
                    chk.spec_violation("E2E-result-file-missing", dict(info, level=level, collection=j,
                                                                       clause="result file missing")); return
                if not case["keep_decoys"] and dd is not None:
                    chk.spec_violation("E2E-decoys-written", dict(info, clause="decoys written without --keep_decoys"))
                    return
                if shared:          # collections share the files: split by identifier
                    mine = set(df["SpecId"])
                    t = t[t["PSMId"].isin(mine)]
                    dd = dd[dd["PSMId"].isin(mine)] if dd is not None else None
                plan.append((j, level, exp[level], t, dd))
                qreqs.append(req("qspec", True, [[Fraction(sc), tg] for _, tg, sc in exp[level]]))
        for (j, level, exp, t, dd), line in zip(plan, common.driver_batch(qreqs)):
            v = dec(line)
            qexp = [rounded(a_rat(x)) for x in (v if isinstance(v, list) else [v])]
            want_t = [(i, q) for (i, tg, _), q in zip(exp, qexp) if tg]
            want_d = [(i, q) for (i, tg, _), q in zip(exp, qexp) if not tg]
            sc_of = {i: sc for i, _, sc in exp}
            canon = lambda f: sorted(zip(f["PSMId"], (float(x) for x in f["q-value"])),
                                     key=lambda z: (-sc_of.get(z[0], float("inf")), z[0]))
            got_t = canon(t)
            got_d = canon(dd) if dd is not None else None
            chk.count("E2E-level", level)
            if [i for i, _ in got_t] != [i for i, _ in want_t] or \
                    (got_d is not None and [i for i, _ in got_d] != [i for i, _ in want_d]):
                chk.spec_violation("E2E-competition",
                                   dict(info, collection=j, level=level,
                                        impl=[i for i, _ in got_t][:8], expected=[i for i, _ in want_t][:8],
                                        clause="the rows of the result file are not the winners of the target-decoy "
                                               "competition on the scores brew returned for this collection, best "
                                               "first"))
                return
            if got_t != want_t or (got_d is not None and got_d != want_d):
                bad = [(a_, b_) for a_, b_ in zip(got_t, want_t) if a_ != b_][:4]
                chk.spec_violation("E2E-qvalues", dict(info, collection=j, level=level, impl_vs_expected=bad,
                                                       clause="reported q-values are not (decoys + 1) / targets, "
                                                              "minimised over worse thresholds, of the competed rows"))
                return
            # T1 with the decoys counted independently of the files (works without --keep_decoys too)
            for a in ALPHAS:
                acc = [i for i, q in got_t if q <= float(a)]
                if not acc:
                    continue
                worst = min(sc for i, tg, sc in exp if tg and i in set(acc))
                nd = sum(1 for _, tg, sc in exp if not tg and sc >= worst)
                chk.count("E2E-T1-alpha", str(a))
                if not (nd + 1 <= a * len(acc)):
                    chk.spec_violation("E2E-counting-inequality",
                                       dict(info, collection=j, level=level, alpha=str(a), accepted_targets=len(acc),
                                            decoys_at_or_above_threshold=nd,
                                            clause="competed decoys scoring at least as well as the worst accepted "
                                                   "target, + 1, exceed alpha x accepted targets"))
                    return


# ---------------------------------------------------------------------------------------------------------
# hand-picked cases (run first)
# ---------------------------------------------------------------------------------------------------------
def run_corpus(chk):
    import json

    p = common.VERIF / "harness" / "corpus" / "C04.json"
    if not p.exists():
        return
    for c in json.loads(p.read_text()).get("cases", []):
        kind, case = c["kind"], c["case"]
        chk.count("corpus", kind)
        import c04ties
        {"brew-options": options_case, "rollup-tool": rollup_tool_case, "cli-pipeline": pipeline_case,
         "tied-ranking": c04ties.ties_case, "tied-level-file": c04ties.ties_file_case}[kind](
            chk, chk.rng, case=case)
