"""C05 — results do not depend on chunk sizes, worker count, thread timing or file format.

Differential execution of the real pipeline: one baseline configuration (text input, every chunk larger than
the file, one worker) against variant configurations of the same table."""
from __future__ import annotations

import contextlib
import hashlib
import json
import threading
import time
from fractions import Fraction

import numpy as np
import pandas as pd
from sklearn.base import BaseEstimator

import common
import mkdata
import pipeline as P
import recest
from c01 import rounded
from common import a_rat, dec, req

RULE = (
    "case = (PSM table, estimator kind, variant configuration: each of the six streaming constants drawn from "
    "{1,2,3,7,n-1,n,n+1,larger}, max_workers 1..16 with seeded random delays injected around every delayed task, "
    "text or Parquet with a random row-group size); read_pin dataset, brew scores/models and all assign_confidence "
    "result files of the variant are compared with the baseline run of the same table; distinct = distinct "
    "(table, estimator, configuration); non-trivial = at least one chunk constant smaller than the table or "
    "workers > 1 or Parquet. Extension (GAPS-C05.md): scoring mode per-fold / ensemble=True / reset path "
    "(pretrained model whose re-fit fails), 1 or 2 collections with or without prefixes, an additional confidence "
    "run on tied scores in about a fifth of the cases (score column and per-spectrum score compared); "
    "every configuration (baseline too) is also compared with the Lean models of Model/Cross.lean: ensemble and "
    "reset scores against the mean / calibration of whole-table predictions of the returned models, the training "
    "tables handed to the fold fits against rows[train_idx] per file, every result file (ids, order, q-values, "
    "target/decoy split) against the chunked model and its chunk-free specification"
)
THR = 0.25
DELAYED = [
    ("mokapot.brew", "_fit_model"),
    ("mokapot.brew", "predict_fold"),
    ("mokapot.parsers.pin", "get_rows_from_dataframe"),
    ("mokapot.parsers.pin", "concat_and_reindex_chunks"),
    ("mokapot.parsers.pin", "drop_missing_values_and_fill_spectra_dataframe"),
    ("mokapot.confidence", "_save_sorted_metadata_chunks"),
]


class FlipRefit(BaseEstimator):
    """decision function = 16 * (informative feature) until the instance is fitted, all zeros afterwards.
    A *trained* Model around it makes every fold's re-fit end in "Model performs worse after training."
    (no PSM passes), which is the reset path of brew: the original model scores all collections through
    `_predict_with_ensemble` and the result is calibrated per collection."""

    def __init__(self, col=1):
        self.col = col

    def fit(self, X, y):
        self.refit_ = True
        return self

    def decision_function(self, X):
        X = np.asarray(X, dtype=float)
        if getattr(self, "refit_", False):
            return np.zeros(len(X))
        return X[:, self.col] * 16.0


@contextlib.contextmanager
def record_parse(rec):
    """records train_idx and the materialised training tables of every parse_in_chunks call made by brew"""
    bm = P.mod("mokapot.brew")
    old = bm.parse_in_chunks

    def wrapped(psms, train_idx, chunk_size, max_workers):
        idx = [[[int(i) for i in file_idx] for file_idx in fold] for fold in train_idx]
        res = old(psms=psms, train_idx=train_idx, chunk_size=chunk_size, max_workers=max_workers)
        rec.append(dict(train_idx=idx, chunk_size=int(chunk_size),
                        tables=[[None if x != x else int(x) for x in t["rowid"].tolist()] for t in res]))
        return res

    bm.parse_in_chunks = wrapped
    try:
        yield
    finally:
        bm.parse_in_chunks = old


@contextlib.contextmanager
def jitter(seed, on):
    """seeded random delays around the callables handed to joblib.delayed"""
    if not on:
        yield
        return
    counter = [0]
    lock = threading.Lock()
    saved = []

    def wrap(f):
        def g(*a, **k):
            with lock:
                counter[0] += 1
                c = counter[0]
            h = int(hashlib.sha1(f"{seed}-{c}".encode()).hexdigest()[:6], 16)
            time.sleep((h % 7) * 0.0015)
            out = f(*a, **k)
            time.sleep((h // 7 % 5) * 0.001)
            return out
        g.__name__ = getattr(f, "__name__", "wrapped")
        return g

    try:
        for m, name in DELAYED:
            mo = P.mod(m)
            saved.append((mo, name, getattr(mo, name)))
            setattr(mo, name, wrap(getattr(mo, name)))
        yield
    finally:
        for mo, name, old in saved:
            setattr(mo, name, old)


MODES = ("perfold", "ensemble", "reset")


def gen_case(rng, idx=None):
    """idx (position of the case in the run) stratifies the new dimensions, so that every quick run holds an
    ensemble, a reset and a two-collection case; all values still come from `rng`"""
    n_spec = rng.choice([80, 120, 160])
    case = dict(
        n_spectra=n_spec, max_per=rng.choice([1, 2, 3]), nfeat=rng.choice([2, 5, 17, 18, 22]),
        est=rng.choice(["tagdecision", "tagproba", "orderprobe", "orderprobe", "svm", "forest"]),
        folds=rng.choice([2, 2, 3, 4]), seed=rng.randrange(1000), data_seed=rng.randrange(1 << 30),
        cap=rng.choice([None, None, 0.4, 0.8]),
        nan_col=rng.random() < 0.4, levels=[c for c in ("ModifiedPeptide", "Precursor") if rng.random() < 0.4],
        dedup=rng.random() < 0.7,
    )
    mode = rng.choice(["perfold", "perfold", "perfold", "ensemble", "ensemble", "reset"])
    ncoll = rng.choice([1, 1, 2])
    if idx is not None:
        mode = {1: "ensemble", 3: "reset"}.get(idx % 5, mode if idx % 5 == 4 else "perfold")
        ncoll = {2: 2}.get(idx % 5, ncoll if idx % 5 >= 3 else 1)
    case["mode"] = mode
    case["ncoll"] = ncoll
    case["prefixes"] = rng.random() < 0.6
    # the additional run on tied scores (not for collections aggregated into one file: the projection compared
    # there is defined per collection)
    case["ties"] = rng.random() < 0.2 and (ncoll == 1 or case["prefixes"])
    if mode == "ensemble":
        # estimators whose fold models differ from one another (otherwise the mean over models says nothing)
        case["est"] = rng.choice(["orderprobe", "orderprobe", "svm", "tagged", "forest"])
    elif mode == "reset":
        case["est"] = "flip"
        if case["cap"] == 0.4:      # a very small training subset can leave the pretrained model without any
            case["cap"] = 0.8       # accepted PSM (brew raises before the reset decision): keep the cases productive
    pick = lambda: rng.choice([1, 2, 3, 7, "n-1", "n", "n+1", 10 ** 7])  # noqa: E731
    case["variants"] = []
    for _ in range(rng.choice([2, 3])):
        case["variants"].append(dict(
            confidence=pick(), merge=pick(), predict=pick(), read_all=pick(),
            drop_rows=rng.choice([5, 7, "n-1", "n", "n+1", 10 ** 7, 1]),
            drop_cols=rng.choice([1, 2, 3, 5, 19, 40]), workers=rng.choice([1, 2, 4, 8, 16]),
            fmt=rng.choice(["pin", "parquet"]), rg=rng.choice([1, 3, 50, None]), jitter=rng.random() < 0.7,
            jseed=rng.randrange(1 << 20),
        ))
    return case


def make_model(case, ds=None):
    import mokapot
    from sklearn.ensemble import RandomForestClassifier

    k = case["est"]
    if k == "tagdecision":
        return mokapot.Model(recest.TagDecision(run=recest.new_run(), tagged=False), scaler="as-is", train_fdr=THR, max_iter=2,
                             override=True, rng=case["seed"])
    if k == "tagproba":
        return mokapot.Model(recest.TagProba(run=recest.new_run(), tagged=False), scaler="as-is", train_fdr=THR, max_iter=2,
                             override=True, rng=case["seed"])
    if k == "tagged":       # ensemble mode only: the tags 0..folds-1 depend on scheduling, their mean does not
        return mokapot.Model(recest.TagProba(run=recest.new_run(), tagged=True), scaler="as-is", train_fdr=THR, max_iter=2,
                             override=True, rng=case["seed"])
    if k == "orderprobe":   # output depends on the order of the training rows: any reordering shows in the scores
        return mokapot.Model(recest.TagProba(run=recest.new_run(), tagged=False, order=True), scaler="as-is",
                             train_fdr=THR, max_iter=2, override=True, rng=case["seed"])
    if k == "flip":         # a trained model whose re-fit fails in every fold: reset path
        feats = list(ds.feature_columns)
        m = mokapot.Model(FlipRefit(col=feats.index("feat0")), scaler="as-is", train_fdr=THR, max_iter=2,
                          override=True, rng=case["seed"])
        m.features = feats
        m.is_trained = True
        return m
    if k == "svm":
        return mokapot.PercolatorModel(train_fdr=THR, max_iter=2, rng=case["seed"], override=True)
    return mokapot.Model(RandomForestClassifier(n_estimators=8, random_state=case["seed"], max_depth=4),
                         train_fdr=THR, max_iter=2, rng=case["seed"], override=True)


def csize(v, n):
    return {"n-1": max(1, n - 1), "n": n, "n+1": n + 1}.get(v, v)


def conf_scores(case, df):
    """the (integer-valued, pairwise distinct) score vector handed to assign_confidence"""
    return df["feat0"].values.astype(float)


def tied_scores(df):
    """integer-valued scores with many ties (the row id in the low bits of feat0 is dropped)"""
    return np.floor(df["feat0"].values.astype(float) / (4096.0 * 16.0))


def full_lin(ds):
    """the whole collection as the in-memory dataset that Model.predict takes (one chunk: the whole file)"""
    bm = P.mod("mokapot.brew")
    return bm._create_psms(ds, ds.read_data(columns=ds.columns), enforce_checks=False)


def coll_prefixes(case):
    if case.get("ncoll", 1) == 1:
        return [None]
    return ["a", "b"] if case.get("prefixes") else [None, None]


def run_config(case, dfs, d, cfg, tag):
    """returns dict(dataset=[...per collection], scores=..., files={name: DataFrame}, ...)"""
    import mokapot

    n = len(dfs[0])
    sizes = {k: csize(cfg[k], n) for k in ("confidence", "merge", "predict", "read_all", "drop_rows")}
    sizes["drop_cols"] = cfg["drop_cols"]
    if len(dfs) == 1:
        paths = [mkdata.write_table(dfs[0], d / f"{tag}.{cfg['fmt']}", row_group_size=cfg["rg"])]
    else:
        paths = [mkdata.write_table(x, d / f"{tag}_{k}.{cfg['fmt']}", row_group_size=cfg["rg"]) for k, x in enumerate(dfs)]
    out = {}
    mode = case.get("mode", "perfold")
    rec = []
    with P.chunk_sizes(**sizes), jitter(cfg["jseed"], cfg["jitter"]), record_parse(rec):
        if len(paths) == 1:
            dss = [mkdata.read_dataset(paths[0], max_workers=cfg["workers"])]
        else:
            dss = list(mokapot.read_pin(list(paths), max_workers=cfg["workers"]))
        out["dataset"] = []
        for ds in dss:
            sd = ds.spectra_dataframe
            out["dataset"].append(dict(features=list(ds.feature_columns), spectrum=list(ds.spectrum_columns),
                                       metadata=list(ds.metadata_columns), levels=list(ds.level_columns),
                                       spectra_cols=list(sd.columns), spectra=sd.astype(float).values.tolist(),
                                       spectra_index=list(sd.index)))
        model = make_model(case, dss[0])
        ntot = sum(len(x) for x in dfs)
        cap = None if case.get("cap") is None else max(10, int(case["cap"] * ntot * (case["folds"] - 1) / case["folds"]))
        _, models, scores, descs = mokapot.brew(dss if len(dss) > 1 else dss[0], model, test_fdr=THR, folds=case["folds"],
                                                max_workers=cfg["workers"], rng=case["seed"], subset_max_train=cap,
                                                ensemble=(mode == "ensemble"))
        out["scores_per"] = [np.asarray(s_, dtype=float).ravel() for s_ in scores]
        out["scores"] = np.concatenate(out["scores_per"])
        out["descs"] = [bool(x) for x in descs]
        out["trained"] = all(m.is_trained for m in models)
        out["train"] = rec
        coefs = []
        for m in models:
            est = getattr(m.estimator, "best_estimator_", m.estimator)
            if hasattr(est, "coef_"):
                coefs.append(np.asarray(est.coef_, dtype=float).ravel().tolist() + np.ravel(est.intercept_).tolist())
        out["coefs"] = coefs
    # whole-table predictions of the returned models (outside the chunk-size context: one chunk = the file)
    if mode == "ensemble" and out["trained"]:
        lins = [full_lin(ds) for ds in dss]
        out["raw"] = [[np.asarray(m.predict(lin), dtype=float).ravel() for m in models] for lin in lins]
    if mode == "reset":
        lins = [full_lin(ds) for ds in dss]
        out["reset_taken"] = all(getattr(m.estimator, "refit_", False) for m in models) \
            and not getattr(model.estimator, "refit_", False)
        out["raw0"] = [np.asarray(model.predict(lin), dtype=float).ravel() for lin in lins]
        out["targets"] = [np.asarray(lin.targets, dtype=bool) for lin in lins]
    with P.chunk_sizes(**sizes), jitter(cfg["jseed"], cfg["jitter"]):
        # confidence on exact (integer-valued) scores, so that every comparison below is exact
        if len(paths) == 1:
            ds2 = [mkdata.read_dataset(paths[0], max_workers=cfg["workers"])]
        else:
            ds2 = dss       # several collections: the datasets brew has used are handed on (as the CLI does)
        cdir = d / f"conf-{tag}"
        cdir.mkdir()
        with P.pep_kernel(stub=True):
            P.run_assign_confidence(ds2, [conf_scores(case, x) for x in dfs], cdir, prefixes=coll_prefixes(case),
                                    decoys=True, deduplication=case["dedup"], max_workers=cfg["workers"])
        out["files"] = {f.name: P.read_result(f) for f in sorted(cdir.iterdir())}
        if case.get("ties"):
            # a second confidence run of the same configuration on tied scores (theorem
            # C05_psm_scores_chunk_invariant_ties); the tie-free run above keeps every exact comparison
            cdir2 = d / f"conf-tied-{tag}"
            cdir2.mkdir()
            with P.pep_kernel(stub=True):
                P.run_assign_confidence(ds2, [tied_scores(x) for x in dfs], cdir2, prefixes=coll_prefixes(case),
                                        decoys=True, deduplication=case["dedup"], max_workers=cfg["workers"])
            out["files_tied"] = {f.name: P.read_result(f) for f in sorted(cdir2.iterdir())}
    return out


BASE = dict(confidence=10 ** 7, merge=10 ** 7, predict=10 ** 7, read_all=10 ** 7, drop_rows=10 ** 7, drop_cols=10 ** 3,
            workers=1, fmt="pin", rg=None, jitter=False, jseed=0)


def tie_projection(case, dfs, run):
    """what remains independent of the chunk size when the confidence scores are tied (theorem
    C05_psm_scores_chunk_invariant_ties): per PSM-level file pair the score column and, with de-duplication, the
    score reported for every spectrum (without: the set of PSMs).  None for collections written into one file."""
    out = []
    for k, (df, pref) in enumerate(zip(dfs, coll_prefixes(case))):
        if len(dfs) > 1 and pref is None:
            return None
        pre = f"{pref}." if pref else ""
        t, dcy = run["files_tied"].get(f"{pre}targets.psms"), run["files_tied"].get(f"{pre}decoys.psms")
        if t is None or dcy is None:
            return None
        spec_cols = run["dataset"][k]["spectrum"]
        spec_of = dict(zip(df["SpecId"], (tuple(x) for x in df[spec_cols].values.tolist())))
        both = pd.concat([t, dcy])
        col = sorted(both["score"].astype(float).tolist(), reverse=True)
        if case["dedup"]:
            per = sorted((spec_of.get(i), float(s_)) for i, s_ in zip(both["PSMId"], both["score"]))
        else:
            per = sorted((i, float(s_)) for i, s_ in zip(both["PSMId"], both["score"]))
        out.append((col, per))
    return out


def compare(base, var, case=None, dfs=None):
    """first difference between two runs, or None"""
    if len(base["dataset"]) != len(var["dataset"]):
        return "read_pin: number of collections differs"
    for kc, (bd, vd) in enumerate(zip(base["dataset"], var["dataset"])):
        for k in ("features", "spectrum", "metadata", "levels", "spectra_cols", "spectra", "spectra_index"):
            if bd[k] != vd[k]:
                return f"read_pin: dataset field {k} differs" + (f" (collection {kc})" if kc else "")
    if base["descs"] != var["descs"]:
        return "brew: descs differ"
    if base["scores"].shape != var["scores"].shape or [x.shape for x in base["scores_per"]] != [x.shape for x in var["scores_per"]]:
        return "brew: number of scores differs"
    if not np.allclose(base["scores"], var["scores"], rtol=1e-9, atol=1e-9):
        i = int(np.argmax(np.abs(base["scores"] - var["scores"])))
        return f"brew: scores differ (row {i}: {base['scores'][i]!r} vs {var['scores'][i]!r})"
    if len(base["coefs"]) != len(var["coefs"]) or any(
            not np.allclose(a, b, rtol=1e-9, atol=1e-12) for a, b in zip(base["coefs"], var["coefs"])):
        return "brew: model coefficients differ"
    if [(r["train_idx"], r["tables"]) for r in base["train"]] != [(r["train_idx"], r["tables"]) for r in var["train"]]:
        return "brew: training tables handed to the fold fits differ"
    if sorted(base["files"]) != sorted(var["files"]):
        return f"assign_confidence: set of files differs {sorted(base['files'])} vs {sorted(var['files'])}"
    for name, fb in base["files"].items():
        fv = var["files"][name]
        if fb is None or fv is None:
            continue
        if list(fb.columns) != list(fv.columns) or len(fb) != len(fv):
            return f"assign_confidence: {name} shape/columns differ"
        for c in fb.columns:
            a, b = fb[c].values, fv[c].values
            same = np.array_equal(a, b) if a.dtype.kind not in "fc" else np.allclose(a, b, rtol=1e-12, atol=0, equal_nan=True)
            if not same:
                return f"assign_confidence: {name} column {c} differs"
    if case is not None and case.get("ties"):
        # tied scores: which of several equally scored PSMs survives is C03's tie rule; compare what the
        # chunk size may not influence
        if sorted(base["files_tied"]) != sorted(var["files_tied"]):
            return "assign_confidence: set of files differs (tied scores)"
        pb, pv = tie_projection(case, dfs, base), tie_projection(case, dfs, var)
        if pb is not None and pv is not None and pb != pv:
            return "assign_confidence: PSM-level score column / per-spectrum score differs (tied scores)"
    return None


# ------------------------------------------------------------------------------------------------
# comparisons with the Lean models of Model/Cross.lean (every configuration, the baseline included)
# ------------------------------------------------------------------------------------------------
def _floats(tokens):
    return np.array([float(a_rat(t)) for t in tokens], dtype=float)


def check_ensemble(case, cfg, out, n0):
    """-> (kind, op/signature, detail) or None"""
    if case.get("mode") != "ensemble" or "raw" not in out:
        return None
    c = csize(cfg["predict"], n0)
    reqs = []
    for raw in out["raw"]:
        tbl = [[Fraction(float(x)) for x in r] for r in raw]
        reqs += [req("xensemble", c, tbl), req("xensemblespec", tbl)]
    resp = common.driver_batch(reqs)
    for k, raw in enumerate(out["raw"]):
        impl = out["scores_per"][k]
        expected = np.mean(np.vstack(raw), axis=0)
        if impl.shape != expected.shape or not np.allclose(impl, expected, rtol=1e-9, atol=1e-9):
            i = int(np.argmax(np.abs(impl - expected))) if impl.shape == expected.shape else -1
            return ("spec", "ensemble-scores", f"collection {k}: score of row {i} is not the mean of the fold models' outputs")
        spec = _floats(dec(resp[2 * k + 1]))
        if spec.shape != impl.shape or not np.allclose(impl, spec, rtol=1e-9, atol=1e-9):
            return ("spec", "ensemble-scores", f"collection {k}: scores differ from the Lean specification ensembleSpec")
        model = _floats(dec(resp[2 * k]))
        if model.shape != impl.shape or not np.allclose(impl, model, rtol=1e-9, atol=1e-9):
            return ("corr", "xensemble", f"collection {k}: chunked model differs from the implementation")
    return None


def check_reset(case, cfg, out, n0):
    if case.get("mode") != "reset":
        return None
    import mokapot.dataset as D

    if not out.get("reset_taken"):
        return ("skip", "reset-not-taken", None)
    c = csize(cfg["predict"], n0)
    reqs = [req("xreset", c, Fraction(1, 4), [Fraction(float(x)) for x in raw], [bool(t) for t in tg])
            for raw, tg in zip(out["raw0"], out["targets"])]
    resp = common.driver_batch(reqs)
    for k, (raw, tg) in enumerate(zip(out["raw0"], out["targets"])):
        impl = out["scores_per"][k]
        expected = np.asarray(D.calibrate_scores(raw.copy(), tg.copy(), THR), dtype=float)
        if impl.shape != expected.shape or not np.allclose(impl, expected, rtol=1e-9, atol=1e-9):
            return ("spec", "reset-scores", f"collection {k}: scores are not the calibrated outputs of the original model")
        r = resp[k].strip()
        if r.startswith("reject"):
            return ("corr", "xreset", f"collection {k}: model rejects ({r}) where the implementation returned scores")
        toks = dec(r)
        if any(t in ("pinf", "ninf", "nan") for t in toks):
            return ("corr", "xreset", f"collection {k}: model returns a non-finite score")
        model = _floats(toks)
        if model.shape != impl.shape or not np.allclose(impl, model, rtol=1e-9, atol=1e-9):
            return ("corr", "xreset", f"collection {k}: chunked model differs from the implementation")
    return None


def check_train_tables(case, cfg, out, dfs, n0):
    """the tables handed to the fold fits = rows[train_idx] of every file, file after file"""
    rowids = [x["rowid"].tolist() for x in dfs]
    c = csize(cfg["read_all"], n0)
    for call in out["train"]:
        reqs, folds_sent = [], []
        for k, (idx, table) in enumerate(zip(call["train_idx"], call["tables"])):
            expected = [rowids[f][i] if 0 <= i < len(rowids[f]) else None for f, file_idx in enumerate(idx) for i in file_idx]
            if table != expected:
                return ("spec", "train-table", f"fold {k}: the training table is not rows[train_idx] of every file in file order")
            if k in (0, len(call["train_idx"]) - 1):
                pieces = []
                for f, file_idx in enumerate(idx):
                    want = set(file_idx)
                    nrow = len(rowids[f])
                    pieces.append([[[i, rowids[f][i]] for i in range(a, min(a + c, nrow)) if i in want]
                                   for a in range(0, nrow, c)])
                reqs.append(req("xmaterialise", pieces, idx))
                folds_sent.append(k)
        if reqs:
            for k, r in zip(folds_sent, common.driver_batch(reqs)):
                toks = dec(r)
                model = [None if t == "none" else int(t[0]) for t in toks] if isinstance(toks, list) else None
                if model != call["tables"][k]:
                    return ("corr", "xmaterialise", f"fold {k}: model of the materialised training rows differs")
    return None


def check_files(case, cfg, out, dfs, n0):
    """every result file against the chunked model (xfiles) and its chunk-free specification (xfilesspec)"""
    prefs = coll_prefixes(case)
    if len(dfs) > 1 and prefs[0] is None:
        return ("skip", "xfiles-skipped-aggregated", None)
    c = csize(cfg["confidence"], n0)
    reqs, metas = [], []
    for k, (df, pref) in enumerate(zip(dfs, prefs)):
        info = out["dataset"][k]
        score = conf_scores(case, df)
        rows = P.table_rows(df, info["spectrum"], info["levels"], score)
        sc = [int(x) for x in score]
        reqs += [req("xfiles", c, case["dedup"], len(info["levels"]), rows, sc),
                 # the specification is evaluated with one chunk holding the whole table: no chunk size in it
                 req("xfilesspec", 10 ** 7, case["dedup"], len(info["levels"]), rows, sc)]
        metas.append((k, df, pref, info))
    resp = common.driver_batch(reqs)
    for (k, df, pref, info), rm, rs in zip(metas, resp[0::2], resp[1::2]):
        pre = f"{pref}." if pref else ""
        byid = {sid: i for i, sid in enumerate(df["SpecId"])}
        names = ["psms"] + [c_.lower() + "s" for c_ in info["levels"]]
        impl = []
        for ln in names:
            per = []
            for which in ("targets", "decoys"):
                f = out["files"].get(f"{pre}{which}.{ln}")
                if f is None:
                    return ("spec", "result-files", f"collection {k}: file {pre}{which}.{ln} is missing")
                per.append([(byid.get(i, -1), float(q)) for i, q in zip(f["PSMId"], f["q-value"])])
            impl.append(per)

        def parse(r):
            lv = dec(r)
            return [[[(int(x[0]), rounded(a_rat(x[1]))) for x in part] for part in level] for level in lv]

        spec, model = parse(rs), parse(rm)
        if impl != spec:
            lvl = next((names[i] for i in range(len(names)) if i >= len(spec) or impl[i] != spec[i]), "?")
            return ("spec", "result-files", f"collection {k}: level {lvl}: rows / order / q-values / target-decoy split "
                                            "differ from the chunk-free specification")
        if impl != model:
            return ("corr", "xfiles", f"collection {k}: chunked model differs from the implementation")
    return None


def model_checks(chk, case, cfg, out, dfs):
    """runs all comparisons with the Lean models on one configuration; returns True when a violation or a
    broken correspondence was recorded"""
    n0 = len(dfs[0])
    for fn in (lambda: check_ensemble(case, cfg, out, n0), lambda: check_reset(case, cfg, out, n0),
               lambda: check_train_tables(case, cfg, out, dfs, n0), lambda: check_files(case, cfg, out, dfs, n0)):
        res = fn()
        if res is None:
            continue
        kind, name, detail = res
        if kind == "skip":
            chk.count("model-check", name)
            continue
        info = dict(case={k: v for k, v in case.items() if k != "variants"}, variant=cfg, clause=detail)
        if kind == "spec":
            chk.spec_violation("config-dependence:" + name, info)
        else:
            chk.corr_break(name, dict(case=info["case"], variant=cfg, impl=detail, model=name))
        return True
    return False


def split_table(df, ncoll):
    """1 or 2 collections: the table is cut at a spectrum boundary near the middle"""
    if ncoll == 1:
        return [df]
    cut = len(df) // 2
    while 0 < cut < len(df) and df["ScanNr"].iloc[cut] == df["ScanNr"].iloc[cut - 1]:
        cut += 1
    return [df.iloc[:cut].reset_index(drop=True), df.iloc[cut:].reset_index(drop=True)]


def run_case(chk, case):
    import random

    r = random.Random(case["data_seed"])
    df = mkdata.make_psm_table(r, n_spectra=case["n_spectra"], max_per_spectrum=case["max_per"], n_feat=case["nfeat"],
                               label_enc=r.choice(["pm1", "01"]), optional=("ExpMass",), signal=4.0,
                               level_cols=tuple(case["levels"]))
    dfs = split_table(df, case.get("ncoll", 1))
    if case["nan_col"]:
        col = f"feat{case['nfeat'] - 1}"
        for x in dfs:     # the same column of every collection (brew requires equal feature sets)
            x[col] = x[col].astype(float)
            x.loc[r.randrange(len(x)), col] = np.nan
    ntot = sum(len(x) for x in dfs)
    with P.workdir() as d:
        try:
            base = run_config(case, dfs, d, BASE, "base")
        except Exception as e:
            chk.reject("baseline-failed:" + type(e).__name__ + ":" + str(e)[:50])
            return
        chk.count("mode", case.get("mode", "perfold")); chk.count("collections", len(dfs))
        chk.count("ties", bool(case.get("ties")))
        if len(dfs) > 1:
            chk.count("prefixes", bool(case.get("prefixes")))
        if case.get("mode") == "reset":
            chk.count("reset-taken", bool(base.get("reset_taken")))
        if case.get("mode") == "ensemble":
            chk.count("ensemble-models-trained", bool(base.get("trained")))
        if model_checks(chk, case, BASE, base, dfs):
            return
        for vi, cfg in enumerate(case["variants"]):
            nontriv = cfg["workers"] > 1 or cfg["fmt"] == "parquet" or any(
                isinstance(cfg[k], str) or cfg[k] < ntot for k in ("confidence", "merge", "predict", "read_all", "drop_rows"))
            key = (case["data_seed"], case["est"], case.get("mode"), len(dfs), json.dumps(cfg, sort_keys=True)) if nontriv else None
            var = None
            try:
                var = run_config(case, dfs, d, cfg, f"v{vi}")
                diff = compare(base, var, case, dfs)
            except Exception as e:
                import traceback
                diff = f"variant run failed although the baseline succeeded: {type(e).__name__}: {e}"[:300]
                tb = traceback.format_exc()[-600:]
            chk.case(None, key, sample=dict(table_rows=ntot, est=case["est"], mode=case.get("mode"), collections=len(dfs),
                                            variant={k: str(v) for k, v in cfg.items()}))
            chk.count("est", case["est"]); chk.count("cap", str(case.get("cap"))); chk.count("folds", case["folds"]); chk.count("fmt", cfg["fmt"]); chk.count("workers", cfg["workers"])
            for k in ("confidence", "merge", "predict", "read_all", "drop_rows", "drop_cols"):
                chk.count(k, str(cfg[k]))
            chk.count("jitter", cfg["jitter"])
            chk.count("mode-x-predict", f"{case.get('mode', 'perfold')}/{cfg['predict']}")
            chk.count("collections-x-read_all", f"{len(dfs)}/{cfg['read_all']}")
            if diff:
                sig = "config-dependence:" + diff.split(":")[0]
                chk.spec_violation(sig, dict(case={k: v for k, v in case.items() if k != "variants"}, variant=cfg,
                                             clause=diff))
                return
            if model_checks(chk, case, cfg, var, dfs):
                return


def search(chk):
    for i in range(10 * chk.budget_mult):
        run_case(chk, gen_case(chk.rng, i))
        if chk.spec_violations:
            return


def main(chk, args):
    build = common.build_and_audit("C05")
    if not build.driver_ok:
        chk.finish(build, RULE)
    n = chk.scale(5 if chk.tier == "quick" else 60)
    for i in range(n):
        run_case(chk, gen_case(chk.rng, i))
    lc = None
    if chk.tier == "thorough":      # both property modules (Props/C05.lean and the extension Props/C05Cross.lean)
        lcs = [common.leanchecker("C05"), common.leanchecker("C05Cross")]
        lc = (all(x[0] for x in lcs), "".join(x[1] for x in lcs)[-2000:])
    chk.assumptions += [
        "PARTIAL: the theorems carry the chunk/worker/format-independence logic of the models of C02, C03, C13, C14 "
        "and of Model/Cross.lean (ensemble / reset scoring, several collections, the score-slice zip, level batches "
        "and the chunked result writer of assign_confidence); "
        "real preemption inside numpy/sklearn/pyarrow, BLAS summation order and per-chunk CSV type inference are "
        "covered only by these differential runs (scores compared with rtol 1e-9, everything else exactly)",
        "thread timing is perturbed by seeded sleeps around the callables given to joblib.delayed",
        "Model.predict is row-wise (the score of a row does not depend on the other rows of the chunk): hypothesis of "
        "the ensemble / reset theorems, exercised by comparing chunked runs with whole-table predictions",
        "the training tables are observed by wrapping mokapot.brew.parse_in_chunks (arguments and return value)",
        "reset path: the expected scores are mokapot.dataset.calibrate_scores (C11's subject) applied to whole-table "
        "predictions of the original model; the Lean side uses the calibrate model of C11",
    ]
    chk.extra["differential_runs"] = chk.evaluations
    chk.finish(build, RULE, search=search, lc=lc,
               trusted_extra=["theorems of C02, C03, C13, C14 (imported)", "joblib threading backend, GIL",
                              "joblib.Parallel returns results in submission order"])


def replay(chk, path):
    info = json.loads(open(path).read())
    case = info.get("case")
    if not isinstance(case, dict) or "est" not in case:
        print(json.dumps(info, indent=1)[:3000])
        return 0
    common.build_and_audit("C05")
    case["variants"] = [info["variant"]] if info.get("variant") and info["variant"] != BASE else []
    run_case(chk, case)
    for sig, i in chk.spec_violations:
        print("REPRODUCED", sig, i.get("clause"))
    return 1 if chk.spec_violations else 0
