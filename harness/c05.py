"""C05 — results do not depend on chunk sizes, worker count, thread timing or file format.

Differential execution of the real pipeline: one baseline configuration (text input, every chunk larger than
the file, one worker) against variant configurations of the same table."""
from __future__ import annotations

import contextlib
import hashlib
import json
import os
import subprocess
import sys
import threading
import time
from pathlib import Path
from fractions import Fraction

import numpy as np
import pandas as pd
from sklearn.base import BaseEstimator

import common
import mkdata
import pipeline as P
import recest
from c01 import rounded
from common import a_rat, dec, req

RULE = (
    "case = (PSM table, estimator kind, variant configuration: each of the six streaming constants drawn from "
    "{1,2,3,7,n-1,n,n+1,larger}, max_workers 1..16 with seeded random delays injected around every delayed task, "
    "text or Parquet with a random row-group size); read_pin dataset, brew scores/models and all assign_confidence "
    "result files of the variant are compared with the baseline run of the same table; distinct = distinct "
    "(table, estimator, configuration); non-trivial = at least one chunk constant smaller than the table or "
    "workers > 1 or Parquet. Extension (GAPS-C05.md): scoring mode per-fold / ensemble=True / reset path "
    "(pretrained model whose re-fit fails), 1 or 2 collections with or without prefixes, an additional confidence "
    "run on tied scores in about a fifth of the cases (score column and per-spectrum score compared); "
    "every configuration (baseline too) is also compared with the Lean models of Model/Cross.lean: ensemble and "
    "reset scores against the mean / calibration of whole-table predictions of the returned models, the training "
    "tables handed to the fold fits against rows[train_idx] per file, every result file (ids, order, q-values, "
    "target/decoy split) against the chunked model and its chunk-free specification. Second pass: text input also "
    "as .tab / .csv, decoys=True/False, worker counts drawn per stage (read_pin / brew / assign_confidence); every "
    "chunked pass of the real readers is recorded (chunk_size argument, first index label and size of every chunk) "
    "and compared with the configured constant and the Lean stream profile (xspans / closed form); in a part of "
    "the cases an additional confidence run on the same table with a numeric spectrum column spelled "
    "non-uniformly in the text file (500 / 500.5; Parquet: a double column) and a roll-up level column whose ids "
    "look numeric only in part (117 / 120_b) is compared with the chunk-free specification on canonical keys and "
    "with the model of the per-chunk dtype inference and of _entity_key (xkeyfiles); once per run "
    "a fresh interpreter checks that every MOKAPOT_* environment variable reaches the module constant the "
    "harness varies. Third pass: Parquet variants whose integer spectrum columns are stored as int32 / uint32 / int16 / "
    "uint64 (values unchanged); the folds returned by every real _split call are recorded and compared with the "
    "baseline and with the Lean model of the fold key (xfoldkeys / xfoldkeysspec, rendered with numpy, crc32, split "
    "op of C02); in the mixed-spelling run a part of the SpecId / Proteins / PeptideGroup cells look numeric "
    "(zero-padded, trailing zero): every identifier cell of every result file must be the text of the input cell, and "
    "the files are compared with the model of the three chunked text reads (xtextfiles)"
)
THR = 0.25
DELAYED = [
    ("mokapot.brew", "_fit_model"),
    ("mokapot.brew", "predict_fold"),
    ("mokapot.parsers.pin", "get_rows_from_dataframe"),
    ("mokapot.parsers.pin", "concat_and_reindex_chunks"),
    ("mokapot.parsers.pin", "drop_missing_values_and_fill_spectra_dataframe"),
    ("mokapot.confidence", "_save_sorted_metadata_chunks"),
]


class FlipRefit(BaseEstimator):
    """decision function = 16 * (informative feature) until the instance is fitted, all zeros afterwards.
    A *trained* Model around it makes every fold's re-fit end in "Model performs worse after training."
    (no PSM passes), which is the reset path of brew: the original model scores all collections through
    `_predict_with_ensemble` and the result is calibrated per collection."""

    def __init__(self, col=1):
        self.col = col

    def fit(self, X, y):
        self.refit_ = True
        return self

    def decision_function(self, X):
        X = np.asarray(X, dtype=float)
        if getattr(self, "refit_", False):
            return np.zeros(len(X))
        return X[:, self.col] * 16.0


@contextlib.contextmanager
def record_parse(rec):
    """records train_idx and the materialised training tables of every parse_in_chunks call made by brew"""
    bm = P.mod("mokapot.brew")
    old = bm.parse_in_chunks

    def wrapped(psms, train_idx, chunk_size, max_workers):
        idx = [[[int(i) for i in file_idx] for file_idx in fold] for fold in train_idx]
        res = old(psms=psms, train_idx=train_idx, chunk_size=chunk_size, max_workers=max_workers)
        rec.append(dict(train_idx=idx, chunk_size=int(chunk_size),
                        tables=[[None if x != x else int(x) for x in t["rowid"].tolist()] for t in res]))
        return res

    bm.parse_in_chunks = wrapped
    try:
        yield
    finally:
        bm.parse_in_chunks = old


@contextlib.contextmanager
def jitter(seed, on):
    """seeded random delays around the callables handed to joblib.delayed"""
    if not on:
        yield
        return
    counter = [0]
    lock = threading.Lock()
    saved = []

    def wrap(f):
        def g(*a, **k):
            with lock:
                counter[0] += 1
                c = counter[0]
            h = int(hashlib.sha1(f"{seed}-{c}".encode()).hexdigest()[:6], 16)
            time.sleep((h % 7) * 0.0015)
            out = f(*a, **k)
            time.sleep((h // 7 % 5) * 0.001)
            return out
        g.__name__ = getattr(f, "__name__", "wrapped")
        return g

    try:
        for m, name in DELAYED:
            mo = P.mod(m)
            saved.append((mo, name, getattr(mo, name)))
            setattr(mo, name, wrap(getattr(mo, name)))
        yield
    finally:
        for mo, name, old in saved:
            setattr(mo, name, old)


@contextlib.contextmanager
def record_streams(log, phase):
    """records every chunked pass the real text / Parquet readers make: the `chunk_size` argument they were
    really asked for and, per chunk delivered, the index label of its first row and its number of rows.
    `phase` is a one-element list naming the pipeline stage that is running."""
    td = P.mod("mokapot.tabular_data")
    lock = threading.Lock()
    saved = []

    def wrap(cls):
        old = cls.get_chunked_data_iterator

        def gen(self, chunk_size, columns=None):
            entry = dict(phase=phase[0], file=Path(self.file_name).name, chunk_size=int(chunk_size), spans=[],
                         reader=cls.__name__)
            with lock:
                log.append(entry)
            for ch in old(self, chunk_size=chunk_size, columns=columns):
                entry["spans"].append((int(ch.index[0]) if len(ch) else -1, int(len(ch))))
                yield ch
            entry["done"] = True

        saved.append((cls, old))
        cls.get_chunked_data_iterator = gen

    try:
        for name in ("CSVFileReader", "ParquetFileReader"):
            wrap(getattr(td, name))
        yield
    finally:
        for cls, old in saved:
            cls.get_chunked_data_iterator = old


@contextlib.contextmanager
def record_split(rec):
    """records the folds (sorted row numbers) returned by every real OnDiskPsmDataset._split call"""
    cls = P.mod("mokapot.dataset").OnDiskPsmDataset
    old = cls._split
    lock = threading.Lock()

    def wrapped(self, folds, rng):
        res = old(self, folds, rng)
        with lock:
            rec.append(dict(file=Path(self.filename).name, folds=[sorted(int(i) for i in f) for f in res]))
        return res

    cls._split = wrapped
    try:
        yield
    finally:
        cls._split = old


NARROW = {  # storage types of (ScanNr, ExpMass) in a Parquet variant; None = as pandas holds them (int64)
    "i32": ("int32", "int32"), "u32": ("uint32", "uint32"), "i16-i32": ("int16", "int32"),
    "i32-i64": ("int32", None), "u64-i64": ("uint64", None),
}


def write_variant_table(df, path, cfg):
    """the table in the variant's format; a `narrow` Parquet variant stores the integer spectrum columns with
    another width / signedness (same values)"""
    nar = cfg.get("narrow")
    if not nar or Path(path).suffix != ".parquet":
        return mkdata.write_table(df, path, row_group_size=cfg["rg"])
    cast = {c: t for c, t in zip(("ScanNr", "ExpMass"), NARROW[nar]) if t and c in df.columns
            and df[c].dtype.kind in "iu"}
    return mkdata.write_table(df.astype(cast), path, row_group_size=cfg["rg"])


def stored_types(df, cfg, cols):
    """[float?, bits, signed] of every spectrum column as the variant's file stores it (text: always 64 bit)"""
    nar = NARROW.get(cfg.get("narrow")) if cfg["fmt"] == "parquet" else None
    out = []
    for c in cols:
        dt = df[c].dtype
        if nar and c in ("ScanNr", "ExpMass") and dt.kind in "iu" and nar[("ScanNr", "ExpMass").index(c)]:
            dt = np.dtype(nar[("ScanNr", "ExpMass").index(c)])
        out.append([dt.kind == "f", int(dt.itemsize * 8), dt.kind != "u"])
    return out


TEXT_FMTS = ("pin", "tab", "csv")


def mixed_tables(case, dfs):
    """the same tables with (a) fractional masses for about a third of the spectra (all PSMs of a spectrum alike) and
    (b) a roll-up level column `PeptideGroup` whose ids are numeric-looking (`117`) for two thirds of the groups and
    not (`120_b`) for the others: a text chunk holding only the former is parsed as integers, any other as strings"""
    import random

    r = random.Random(case["data_seed"] ^ 0x5EED)
    out = []
    for df in dfs:
        x = df.copy()
        frac = {s: (r.random() < 0.3) for s in sorted(set(x["ScanNr"].tolist()))}
        x["ExpMass"] = x["ExpMass"].astype(float) + np.array([0.5 if frac[s] else 0.0 for s in x["ScanNr"]])
        groups = []
        for pep in x["Peptide"]:
            decoy = pep.startswith("decoy_")
            g = int(pep.replace("decoy_", "")[3:-1]) // 2
            gid = (5000 if decoy else 100) + g
            # third pass: zero-padded ids (0118) and ids with a trailing zero (119.50); every group keeps ONE spelling
            # and distinct groups are distinct numbers, so that no two spellings of one number meet
            groups.append(f"{gid}_b" if g % 3 == 0 else (f"0{gid}" if g % 3 == 1 else (f"{gid}.50" if g % 6 == 2 else str(gid))))
        if "PeptideGroup" in x.columns:
            x["PeptideGroup"] = groups
        else:
            x.insert(list(x.columns).index("Proteins"), "PeptideGroup", groups)
        # third pass (D54): identifier cells that look like numbers — a third of the PSM ids zero-padded (unique:
        # the row id), the protein ids of two proteins in seven (007 / 0907)
        x["SpecId"] = [f"{int(i):05d}" if r.random() < 0.35 else sid for i, sid in zip(x["rowid"], x["SpecId"])]
        x["Proteins"] = [(("09" if p_.startswith("decoy_") else "00") + p_[-1]) if p_[-1] in "03" else p_ for p_ in x["Proteins"]]
        out.append(x)
    return out


def read_result_text(path):
    """a result file with every identifier cell as the text it is (the inferring reader would turn 007 into 7)"""
    path = Path(path)
    if not path.exists():
        return None
    f = pd.read_csv(path, sep="\t", dtype=str, keep_default_na=False)
    for c in ("score", "q-value", "posterior_error_prob"):
        if c in f.columns:
            f[c] = f[c].astype(float)
    return f


def numeric_looking(v):
    """text made of digits, sign, decimal point and exponent only (re-statement of what `_entity_key` keys as a
    number; `INF`, `NAN`, `1_7` are text).  The generator never writes texts that pandas itself reads as numbers or
    as missing values when they are alone in a chunk (INF, NAN, NA, NULL, …)"""
    import re

    return re.fullmatch(r"[+-]?(\d+\.?\d*|\.\d+)([eE][+-]?\d+)?", str(v)) is not None


def write_input(df, path, rg, mixed=False):
    """mixed: the text file spells integral masses without a decimal point (500) and the others with one (500.5),
    as `%g`-style writers do; the Parquet file of the same table holds a double column"""
    path = Path(path)
    if not mixed or path.suffix == ".parquet":
        return mkdata.write_table(df, path, row_group_size=rg)
    x = df.copy()
    x["ExpMass"] = pd.Series([int(v) if float(v).is_integer() else float(v) for v in df["ExpMass"]], dtype=object)
    x.to_csv(path, sep="\t", index=False)
    return path


MODES = ("perfold", "ensemble", "reset")


def gen_case(rng, idx=None):
    """idx (position of the case in the run) stratifies the new dimensions, so that every quick run holds an
    ensemble, a reset and a two-collection case; all values still come from `rng`"""
    n_spec = rng.choice([80, 120, 160])
    case = dict(
        n_spectra=n_spec, max_per=rng.choice([1, 2, 3]), nfeat=rng.choice([2, 5, 17, 18, 22]),
        est=rng.choice(["tagdecision", "tagproba", "orderprobe", "orderprobe", "svm", "forest"]),
        folds=rng.choice([2, 2, 3, 4]), seed=rng.randrange(1000), data_seed=rng.randrange(1 << 30),
        cap=rng.choice([None, None, 0.4, 0.8]),
        nan_col=rng.random() < 0.4, levels=[c for c in ("ModifiedPeptide", "Precursor") if rng.random() < 0.4],
        dedup=rng.random() < 0.7,
    )
    mode = rng.choice(["perfold", "perfold", "perfold", "ensemble", "ensemble", "reset"])
    ncoll = rng.choice([1, 1, 2])
    if idx is not None:
        mode = {1: "ensemble", 3: "reset"}.get(idx % 5, mode if idx % 5 == 4 else "perfold")
        ncoll = {2: 2}.get(idx % 5, ncoll if idx % 5 >= 3 else 1)
    case["mode"] = mode
    case["ncoll"] = ncoll
    case["prefixes"] = rng.random() < 0.6
    # the additional run on tied scores (not for collections aggregated into one file: the projection compared
    # there is defined per collection)
    case["ties"] = rng.random() < 0.2 and (ncoll == 1 or case["prefixes"])
    if mode == "ensemble":
        # estimators whose fold models differ from one another (otherwise the mean over models says nothing)
        case["est"] = rng.choice(["orderprobe", "orderprobe", "svm", "tagged", "forest"])
    elif mode == "reset":
        case["est"] = "flip"
        if case["cap"] == 0.4:      # a very small training subset can leave the pretrained model without any
            case["cap"] = 0.8       # accepted PSM (brew raises before the reset decision): keep the cases productive
    # second pass: decoy files on / off (the tie projection reads both files), the additional run on a table
    # whose numeric spectrum column is spelled non-uniformly in the text file
    case["decoys"] = True if case["ties"] else rng.random() < 0.75
    # scores straddling zero, one of them exactly 0.0 (every second case, drawn last so that the other dimensions
    # keep their values for a given seed)
    case["center"] = None
    case["mixed"] = rng.random() < 0.2
    if idx is not None and idx % 5 == 0:
        case["mixed"] = True
    if case["mixed"]:
        case["max_per"] = max(2, case["max_per"])       # spectra with several PSMs: something to compete
    pick = lambda: rng.choice([1, 2, 3, 7, "n-1", "n", "n+1", 10 ** 7])  # noqa: E731
    case["variants"] = []
    for _ in range(rng.choice([2, 3])):
        w = rng.choice([1, 2, 4, 8, 16])
        case["variants"].append(dict(
            confidence=pick(), merge=pick(), predict=pick(), read_all=pick(),
            drop_rows=rng.choice([5, 7, "n-1", "n", "n+1", 10 ** 7, 1]),
            drop_cols=rng.choice([1, 2, 3, 5, 19, 40]), workers=w,
            # worker counts of read_pin and assign_confidence drawn on their own in half of the variants
            workers_read=rng.choice([w, w, 1, 3, 16]), workers_conf=rng.choice([w, w, 1, 2, 16]),
            fmt=rng.choice(["pin", "tab", "csv", "parquet", "parquet", "parquet"]), rg=rng.choice([1, 3, 50, None]),
            jitter=rng.random() < 0.7, jseed=rng.randrange(1 << 20),
        ))
    if case["mixed"]:
        # a chunk size that mixes chunks with and without a fractional mass
        case["variants"][0]["confidence"] = rng.choice([2, 3, 5, 7])
    case["center"] = (idx % 2 == 0) if idx is not None else rng.random() < 0.5
    if case["center"]:
        # at least one variant whose confidence chunks are merged (several chunk files, the zero in one of them)
        case["variants"][-1]["confidence"] = rng.choice([2, 3, 7])
    # third pass (drawn last): Parquet variants that store the integer spectrum columns narrower / unsigned
    for v in case["variants"]:
        nar = rng.choice(sorted(NARROW))
        v["narrow"] = nar if (v["fmt"] == "parquet" and rng.random() < 0.6) else None
    if idx is not None and idx % 5 == 2:     # every quick run holds a signed-narrow and an unsigned Parquet variant
        case["variants"][0].update(fmt="parquet", narrow=["i32", "i16-i32"][(idx // 5) % 2])
    if idx is not None and idx % 5 == 4:
        case["variants"][-1].update(fmt="parquet", narrow=["u32", "u64-i64"][(idx // 5) % 2])
    return case


def make_model(case, ds=None):
    import mokapot
    from sklearn.ensemble import RandomForestClassifier

    k = case["est"]
    if k == "tagdecision":
        return mokapot.Model(recest.TagDecision(run=recest.new_run(), tagged=False), scaler="as-is", train_fdr=THR, max_iter=2,
                             override=True, rng=case["seed"])
    if k == "tagproba":
        return mokapot.Model(recest.TagProba(run=recest.new_run(), tagged=False), scaler="as-is", train_fdr=THR, max_iter=2,
                             override=True, rng=case["seed"])
    if k == "tagged":       # ensemble mode only: the tags 0..folds-1 depend on scheduling, their mean does not
        return mokapot.Model(recest.TagProba(run=recest.new_run(), tagged=True), scaler="as-is", train_fdr=THR, max_iter=2,
                             override=True, rng=case["seed"])
    if k == "orderprobe":   # output depends on the order of the training rows: any reordering shows in the scores
        return mokapot.Model(recest.TagProba(run=recest.new_run(), tagged=False, order=True), scaler="as-is",
                             train_fdr=THR, max_iter=2, override=True, rng=case["seed"])
    if k == "flip":         # a trained model whose re-fit fails in every fold: reset path
        feats = list(ds.feature_columns)
        m = mokapot.Model(FlipRefit(col=feats.index("feat0")), scaler="as-is", train_fdr=THR, max_iter=2,
                          override=True, rng=case["seed"])
        m.features = feats
        m.is_trained = True
        return m
    if k == "svm":
        return mokapot.PercolatorModel(train_fdr=THR, max_iter=2, rng=case["seed"], override=True)
    return mokapot.Model(RandomForestClassifier(n_estimators=8, random_state=case["seed"], max_depth=4),
                         train_fdr=THR, max_iter=2, rng=case["seed"], override=True)


def csize(v, n):
    return {"n-1": max(1, n - 1), "n": n, "n+1": n + 1}.get(v, v)


def conf_scores(case, df):
    """the (integer-valued, pairwise distinct) score vector handed to assign_confidence; with `center` the vector is
    shifted by its median element, so that one PSM scores exactly 0.0 and about half of them score below zero (what
    calibrated scores look like: the threshold PSM of a fold is mapped onto exactly 0.0)"""
    v = df["feat0"].values.astype(float)
    if case.get("center") and len(v):
        v = v - np.sort(v)[len(v) // 2]
    return v


def tied_scores(df):
    """integer-valued scores with many ties (the row id in the low bits of feat0 is dropped)"""
    return np.floor(df["feat0"].values.astype(float) / (4096.0 * 16.0))


def full_lin(ds):
    """the whole collection as the in-memory dataset that Model.predict takes (one chunk: the whole file)"""
    bm = P.mod("mokapot.brew")
    return bm._create_psms(ds, ds.read_data(columns=ds.columns), enforce_checks=False)


def coll_prefixes(case):
    if case.get("ncoll", 1) == 1:
        return [None]
    return ["a", "b"] if case.get("prefixes") else [None, None]


def run_config(case, dfs, d, cfg, tag):
    """returns dict(dataset=[...per collection], scores=..., files={name: DataFrame}, ...)"""
    import mokapot

    n = len(dfs[0])
    sizes = {k: csize(cfg[k], n) for k in ("confidence", "merge", "predict", "read_all", "drop_rows")}
    sizes["drop_cols"] = cfg["drop_cols"]
    if len(dfs) == 1:
        paths = [write_variant_table(dfs[0], d / f"{tag}.{cfg['fmt']}", cfg)]
    else:
        paths = [write_variant_table(x, d / f"{tag}_{k}.{cfg['fmt']}", cfg) for k, x in enumerate(dfs)]
    out = {}
    out["narrow"] = cfg.get("narrow") if cfg["fmt"] == "parquet" else None
    out["splits"] = []
    mode = case.get("mode", "perfold")
    rec = []
    w_read, w_conf = cfg.get("workers_read", cfg["workers"]), cfg.get("workers_conf", cfg["workers"])
    decoys = case.get("decoys", True)
    slog, phase = [], ["read"]
    out["streams"] = slog
    out["input_rows"] = {Path(p_).name: len(x) for p_, x in zip(paths, dfs)}
    with record_streams(slog, phase):
        _run_config_body(case, dfs, d, cfg, tag, out, sizes, paths, mode, rec, w_read, w_conf, decoys, phase)
    out["splits"].sort(key=lambda e: e["file"])
    return out


def _run_config_body(case, dfs, d, cfg, tag, out, sizes, paths, mode, rec, w_read, w_conf, decoys, phase):
    import mokapot

    with P.chunk_sizes(**sizes), jitter(cfg["jseed"], cfg["jitter"]), record_parse(rec), record_split(out["splits"]):
        if len(paths) == 1:
            dss = [mkdata.read_dataset(paths[0], max_workers=w_read)]
        else:
            dss = list(mokapot.read_pin(list(paths), max_workers=w_read))
        phase[0] = "brew"
        out["dataset"] = []
        for ds in dss:
            sd = ds.spectra_dataframe
            out["dataset"].append(dict(features=list(ds.feature_columns), spectrum=list(ds.spectrum_columns),
                                       metadata=list(ds.metadata_columns), levels=list(ds.level_columns),
                                       spectra_cols=list(sd.columns), spectra=sd.astype(float).values.tolist(),
                                       spectra_index=list(sd.index)))
        model = make_model(case, dss[0])
        ntot = sum(len(x) for x in dfs)
        cap = None if case.get("cap") is None else max(10, int(case["cap"] * ntot * (case["folds"] - 1) / case["folds"]))
        _, models, scores, descs = mokapot.brew(dss if len(dss) > 1 else dss[0], model, test_fdr=THR, folds=case["folds"],
                                                max_workers=cfg["workers"], rng=case["seed"], subset_max_train=cap,
                                                ensemble=(mode == "ensemble"))
        out["scores_per"] = [np.asarray(s_, dtype=float).ravel() for s_ in scores]
        out["scores"] = np.concatenate(out["scores_per"])
        out["descs"] = [bool(x) for x in descs]
        out["trained"] = all(m.is_trained for m in models)
        out["train"] = rec
        coefs = []
        for m in models:
            est = getattr(m.estimator, "best_estimator_", m.estimator)
            if hasattr(est, "coef_"):
                coefs.append(np.asarray(est.coef_, dtype=float).ravel().tolist() + np.ravel(est.intercept_).tolist())
        out["coefs"] = coefs
    # whole-table predictions of the returned models (outside the chunk-size context: one chunk = the file)
    if mode == "ensemble" and out["trained"]:
        lins = [full_lin(ds) for ds in dss]
        out["raw"] = [[np.asarray(m.predict(lin), dtype=float).ravel() for m in models] for lin in lins]
    if mode == "reset":
        lins = [full_lin(ds) for ds in dss]
        out["reset_taken"] = all(getattr(m.estimator, "refit_", False) for m in models) \
            and not getattr(model.estimator, "refit_", False)
        out["raw0"] = [np.asarray(model.predict(lin), dtype=float).ravel() for lin in lins]
        out["targets"] = [np.asarray(lin.targets, dtype=bool) for lin in lins]
    with P.chunk_sizes(**sizes), jitter(cfg["jseed"], cfg["jitter"]):
        # confidence on exact (integer-valued) scores, so that every comparison below is exact
        if len(paths) == 1:
            phase[0] = "read2"
            ds2 = [mkdata.read_dataset(paths[0], max_workers=w_read)]
        else:
            ds2 = dss       # several collections: the datasets brew has used are handed on (as the CLI does)
        phase[0] = "conf"
        cdir = d / f"conf-{tag}"
        cdir.mkdir()
        with P.pep_kernel(stub=True):
            P.run_assign_confidence(ds2, [conf_scores(case, x) for x in dfs], cdir, prefixes=coll_prefixes(case),
                                    decoys=decoys, deduplication=case["dedup"], max_workers=w_conf)
        out["files"] = {f.name: P.read_result(f) for f in sorted(cdir.iterdir())}
        if case.get("ties"):
            # a second confidence run of the same configuration on tied scores (theorem
            # C05_psm_scores_chunk_invariant_ties); the tie-free run above keeps every exact comparison
            phase[0] = "conf-tied"
            cdir2 = d / f"conf-tied-{tag}"
            cdir2.mkdir()
            with P.pep_kernel(stub=True):
                P.run_assign_confidence(ds2, [tied_scores(x) for x in dfs], cdir2, prefixes=coll_prefixes(case),
                                        decoys=decoys, deduplication=case["dedup"], max_workers=w_conf)
            out["files_tied"] = {f.name: P.read_result(f) for f in sorted(cdir2.iterdir())}
    if case.get("mixed"):
        # the same table with key columns spelled non-uniformly in the text file (theorems
        # C05_number_spelling_chunk_invariant / C05_keyed_files_…; GAPS-C05.md second pass).  Only the two constants
        # of assign_confidence are varied here (no injected delays, read_pin with its defaults): the subject is the
        # key of the streaming scan
        mdfs = mixed_tables(case, dfs)
        mpaths = [write_input(x, d / f"{tag}_mx{k}.{cfg['fmt']}", cfg["rg"], mixed=True) for k, x in enumerate(mdfs)]
        out["input_rows"].update({Path(p_).name: len(x) for p_, x in zip(mpaths, mdfs)})
        phase[0] = "mixed-read"
        if len(mpaths) == 1:
            mds = [mkdata.read_dataset(mpaths[0], max_workers=1)]
        else:
            mds = list(mokapot.read_pin(list(mpaths), max_workers=1))
        out["dataset_mixed"] = [dict(spectrum=list(ds.spectrum_columns), levels=list(ds.level_columns)) for ds in mds]
        with P.chunk_sizes(confidence=sizes["confidence"], merge=sizes["merge"]):
            phase[0] = "conf-mixed"
            cdir3 = d / f"conf-mixed-{tag}"
            cdir3.mkdir()
            with P.pep_kernel(stub=True):
                P.run_assign_confidence(mds, [conf_scores(case, x) for x in mdfs], cdir3, prefixes=coll_prefixes(case),
                                        decoys=decoys, deduplication=case["dedup"], max_workers=w_conf)
            out["files_mixed"] = {f.name: read_result_text(f) for f in sorted(cdir3.iterdir())}


BASE = dict(confidence=10 ** 7, merge=10 ** 7, predict=10 ** 7, read_all=10 ** 7, drop_rows=10 ** 7, drop_cols=10 ** 3,
            workers=1, fmt="pin", rg=None, jitter=False, jseed=0)


def tie_projection(case, dfs, run):
    """what remains independent of the chunk size when the confidence scores are tied (theorem
    C05_psm_scores_chunk_invariant_ties): per PSM-level file pair the score column and, with de-duplication, the
    score reported for every spectrum (without: the set of PSMs).  None for collections written into one file."""
    out = []
    for k, (df, pref) in enumerate(zip(dfs, coll_prefixes(case))):
        if len(dfs) > 1 and pref is None:
            return None
        pre = f"{pref}." if pref else ""
        t, dcy = run["files_tied"].get(f"{pre}targets.psms"), run["files_tied"].get(f"{pre}decoys.psms")
        if t is None or dcy is None:
            return None
        spec_cols = run["dataset"][k]["spectrum"]
        spec_of = dict(zip(df["SpecId"], (tuple(x) for x in df[spec_cols].values.tolist())))
        both = pd.concat([t, dcy])
        col = sorted(both["score"].astype(float).tolist(), reverse=True)
        if case["dedup"]:
            per = sorted((spec_of.get(i), float(s_)) for i, s_ in zip(both["PSMId"], both["score"]))
        else:
            per = sorted((i, float(s_)) for i, s_ in zip(both["PSMId"], both["score"]))
        out.append((col, per))
    return out


def diff_files(bfiles, vfiles):
    """first difference between the result files of two runs, or None"""
    if sorted(bfiles) != sorted(vfiles):
        return f"assign_confidence: set of files differs {sorted(bfiles)} vs {sorted(vfiles)}"
    for name, fb in bfiles.items():
        fv = vfiles[name]
        if fb is None or fv is None:
            continue
        if list(fb.columns) != list(fv.columns) or len(fb) != len(fv):
            return f"assign_confidence: {name} shape/columns differ"
        for c in fb.columns:
            a, b = fb[c].values, fv[c].values
            same = np.array_equal(a, b) if a.dtype.kind not in "fc" else np.allclose(a, b, rtol=1e-12, atol=0, equal_nan=True)
            if not same:
                return f"assign_confidence: {name} column {c} differs"
    return None


def compare(base, var, case=None, dfs=None):
    """first difference between two runs, or None"""
    if len(base["dataset"]) != len(var["dataset"]):
        return "read_pin: number of collections differs"
    for kc, (bd, vd) in enumerate(zip(base["dataset"], var["dataset"])):
        for k in ("features", "spectrum", "metadata", "levels", "spectra_cols", "spectra", "spectra_index"):
            if bd[k] != vd[k]:
                return f"read_pin: dataset field {k} differs" + (f" (collection {kc})" if kc else "")
    if [x["folds"] for x in base.get("splits", [])] != [x["folds"] for x in var.get("splits", [])]:
        if var.get("narrow"):
            return (f"brew-folds-dtype: the cross-validation folds differ from those of the text file although the Parquet file "
                    f"holds the same values (integer spectrum columns stored as {NARROW[var['narrow']]})")
        return "brew-folds: the cross-validation folds (_split) differ"
    if base["descs"] != var["descs"]:
        return "brew: descs differ"
    if base["scores"].shape != var["scores"].shape or [x.shape for x in base["scores_per"]] != [x.shape for x in var["scores_per"]]:
        return "brew: number of scores differs"
    if not np.allclose(base["scores"], var["scores"], rtol=1e-9, atol=1e-9):
        i = int(np.argmax(np.abs(base["scores"] - var["scores"])))
        return f"brew: scores differ (row {i}: {base['scores'][i]!r} vs {var['scores'][i]!r})"
    if len(base["coefs"]) != len(var["coefs"]) or any(
            not np.allclose(a, b, rtol=1e-9, atol=1e-12) for a, b in zip(base["coefs"], var["coefs"])):
        return "brew: model coefficients differ"
    if [(r["train_idx"], r["tables"]) for r in base["train"]] != [(r["train_idx"], r["tables"]) for r in var["train"]]:
        return "brew: training tables handed to the fold fits differ"
    fd = diff_files(base["files"], var["files"])
    if fd:
        return fd
    if case is not None and case.get("ties"):
        # tied scores: which of several equally scored PSMs survives is C03's tie rule; compare what the
        # chunk size may not influence
        if sorted(base["files_tied"]) != sorted(var["files_tied"]):
            return "assign_confidence: set of files differs (tied scores)"
        pb, pv = tie_projection(case, dfs, base), tie_projection(case, dfs, var)
        if pb is not None and pv is not None and pb != pv:
            return "assign_confidence: PSM-level score column / per-spectrum score differs (tied scores)"
    return None


# ------------------------------------------------------------------------------------------------
# comparisons with the Lean models of Model/Cross.lean (every configuration, the baseline included)
# ------------------------------------------------------------------------------------------------
def _floats(tokens):
    return np.array([float(a_rat(t)) for t in tokens], dtype=float)


def check_ensemble(case, cfg, out, n0):
    """-> (kind, op/signature, detail) or None"""
    if case.get("mode") != "ensemble" or "raw" not in out:
        return None
    c = csize(cfg["predict"], n0)
    reqs = []
    for raw in out["raw"]:
        tbl = [[Fraction(float(x)) for x in r] for r in raw]
        reqs += [req("xensemble", c, tbl), req("xensemblespec", tbl)]
    resp = common.driver_batch(reqs)
    for k, raw in enumerate(out["raw"]):
        impl = out["scores_per"][k]
        expected = np.mean(np.vstack(raw), axis=0)
        if impl.shape != expected.shape or not np.allclose(impl, expected, rtol=1e-9, atol=1e-9):
            i = int(np.argmax(np.abs(impl - expected))) if impl.shape == expected.shape else -1
            return ("spec", "ensemble-scores", f"collection {k}: score of row {i} is not the mean of the fold models' outputs")
        spec = _floats(dec(resp[2 * k + 1]))
        if spec.shape != impl.shape or not np.allclose(impl, spec, rtol=1e-9, atol=1e-9):
            return ("spec", "ensemble-scores", f"collection {k}: scores differ from the Lean specification ensembleSpec")
        model = _floats(dec(resp[2 * k]))
        if model.shape != impl.shape or not np.allclose(impl, model, rtol=1e-9, atol=1e-9):
            return ("corr", "xensemble", f"collection {k}: chunked model differs from the implementation")
    return None


def check_reset(case, cfg, out, n0):
    if case.get("mode") != "reset":
        return None
    import mokapot.dataset as D

    if not out.get("reset_taken"):
        return ("skip", "reset-not-taken", None)
    c = csize(cfg["predict"], n0)
    reqs = [req("xreset", c, Fraction(1, 4), [Fraction(float(x)) for x in raw], [bool(t) for t in tg])
            for raw, tg in zip(out["raw0"], out["targets"])]
    resp = common.driver_batch(reqs)
    for k, (raw, tg) in enumerate(zip(out["raw0"], out["targets"])):
        impl = out["scores_per"][k]
        expected = np.asarray(D.calibrate_scores(raw.copy(), tg.copy(), THR), dtype=float)
        if impl.shape != expected.shape or not np.allclose(impl, expected, rtol=1e-9, atol=1e-9):
            return ("spec", "reset-scores", f"collection {k}: scores are not the calibrated outputs of the original model")
        r = resp[k].strip()
        if r.startswith("reject"):
            return ("corr", "xreset", f"collection {k}: model rejects ({r}) where the implementation returned scores")
        toks = dec(r)
        if any(t in ("pinf", "ninf", "nan") for t in toks):
            return ("corr", "xreset", f"collection {k}: model returns a non-finite score")
        model = _floats(toks)
        if model.shape != impl.shape or not np.allclose(impl, model, rtol=1e-9, atol=1e-9):
            return ("corr", "xreset", f"collection {k}: chunked model differs from the implementation")
    return None


def check_train_tables(case, cfg, out, dfs, n0):
    """the tables handed to the fold fits = rows[train_idx] of every file, file after file"""
    rowids = [x["rowid"].tolist() for x in dfs]
    c = csize(cfg["read_all"], n0)
    for call in out["train"]:
        reqs, folds_sent = [], []
        for k, (idx, table) in enumerate(zip(call["train_idx"], call["tables"])):
            expected = [rowids[f][i] if 0 <= i < len(rowids[f]) else None for f, file_idx in enumerate(idx) for i in file_idx]
            if table != expected:
                return ("spec", "train-table", f"fold {k}: the training table is not rows[train_idx] of every file in file order")
            if k in (0, len(call["train_idx"]) - 1):
                pieces = []
                for f, file_idx in enumerate(idx):
                    want = set(file_idx)
                    nrow = len(rowids[f])
                    pieces.append([[[i, rowids[f][i]] for i in range(a, min(a + c, nrow)) if i in want]
                                   for a in range(0, nrow, c)])
                reqs.append(req("xmaterialise", pieces, idx))
                folds_sent.append(k)
        if reqs:
            for k, r in zip(folds_sent, common.driver_batch(reqs)):
                toks = dec(r)
                model = [None if t == "none" else int(t[0]) for t in toks] if isinstance(toks, list) else None
                if model != call["tables"][k]:
                    return ("corr", "xmaterialise", f"fold {k}: model of the materialised training rows differs")
    return None


def impl_levels(case, files, df, pref, info):
    """per level [[(row id, q) … targets], [… decoys]] as the implementation wrote them; str = what is wrong"""
    pre = f"{pref}." if pref else ""
    byid = {sid: i for i, sid in enumerate(df["SpecId"])}
    names = ["psms"] + [c_.lower() + "s" for c_ in info["levels"]]
    impl = []
    for ln in names:
        per = []
        for which in ("targets", "decoys"):
            f = files.get(f"{pre}{which}.{ln}")
            if which == "decoys" and not case.get("decoys", True):
                if f is not None:
                    return f"file {pre}{which}.{ln} written although decoys=False", names
                continue
            if f is None:
                return f"file {pre}{which}.{ln} is missing", names
            per.append([(byid.get(i, -1), float(q)) for i, q in zip(f["PSMId"], f["q-value"])])
        impl.append(per)
    return impl, names


def parse_levels(case, r):
    lv = dec(r)
    keep = 2 if case.get("decoys", True) else 1
    return [[[(int(x[0]), rounded(a_rat(x[1]))) for x in part] for part in level[:keep]] for level in lv]


def check_files(case, cfg, out, dfs, n0):
    """every result file against the chunked model (xfiles) and its chunk-free specification (xfilesspec)"""
    prefs = coll_prefixes(case)
    if len(dfs) > 1 and prefs[0] is None:
        return ("skip", "xfiles-skipped-aggregated", None)
    c = csize(cfg["confidence"], n0)
    reqs, metas = [], []
    for k, (df, pref) in enumerate(zip(dfs, prefs)):
        info = out["dataset"][k]
        score = conf_scores(case, df)
        rows = P.table_rows(df, info["spectrum"], info["levels"], score)
        sc = [int(x) for x in score]
        reqs += [req("xfiles", c, case["dedup"], len(info["levels"]), rows, sc),
                 # the specification is evaluated with one chunk holding the whole table: no chunk size in it
                 req("xfilesspec", 10 ** 7, case["dedup"], len(info["levels"]), rows, sc)]
        metas.append((k, df, pref, info))
    resp = common.driver_batch(reqs)
    for (k, df, pref, info), rm, rs in zip(metas, resp[0::2], resp[1::2]):
        impl, names = impl_levels(case, out["files"], df, pref, info)
        if isinstance(impl, str):
            return ("spec", "result-files", f"collection {k}: {impl}")
        spec, model = parse_levels(case, rs), parse_levels(case, rm)
        if impl != spec:
            lvl = next((names[i] for i in range(len(names)) if i >= len(spec) or impl[i] != spec[i]), "?")
            return ("spec", "result-files", f"collection {k}: level {lvl}: rows / order / q-values / target-decoy split "
                                            "differ from the chunk-free specification")
        if impl != model:
            return ("corr", "xfiles", f"collection {k}: chunked model differs from the implementation")
    return None


KEY_VARIANTS = {0: "_entity_key", 1: "numbers as floats only (before 0d68f96)", 2: "str() of the typed values (before 5233470)"}


def check_mixed(case, cfg, out, dfs, n0):
    """the run on the table with mixed spellings: result files against the chunk-free specification on CANONICAL
    keys (500 and 500.0 are one mass, a group id is its text) and against the model of the code as it is
    (per-chunk dtype inference + `_entity_key`); the two refuted earlier keys only name what a disagreement is"""
    if not case.get("mixed") or "files_mixed" not in out:
        return None
    prefs = coll_prefixes(case)
    if len(dfs) > 1 and prefs[0] is None:
        return ("skip", "xkeyfiles-skipped-aggregated", None)
    mdfs = mixed_tables(case, dfs)
    c = csize(cfg["confidence"], n0)
    text_input = cfg["fmt"] != "parquet"
    reqs, metas = [], []
    for k, (df, pref) in enumerate(zip(mdfs, prefs)):
        info = out["dataset_mixed"][k]
        if not info["levels"] or info["levels"][-1] != "PeptideGroup":
            return ("spec", "read_pin", f"collection {k}: PeptideGroup is not the last roll-up level: {info['levels']}")
        score = conf_scores(case, df)
        rows = P.table_rows(df, info["spectrum"], info["levels"], score)
        sc = [int(x) for x in score]
        nl = len(info["levels"])
        # Parquet: the columns are typed by the schema (double / string) in every chunk; text: a cell with a fraction
        # makes its chunk float64, a group id that is not a number makes its chunk a chunk of strings
        frac = [not float(v).is_integer() for v in df["ExpMass"]] if text_input else [True] * len(df)
        txt = [not numeric_looking(v) for v in df["PeptideGroup"]]
        reqs += [req("xkeyfiles", 0, c, case["dedup"], nl, rows, sc, frac, txt),
                 req("xfilesspec", 10 ** 7, case["dedup"], nl, rows, sc),
                 req("xkeyfiles", 1, c, case["dedup"], nl, rows, sc, frac, txt),
                 req("xkeyfiles", 2, c, case["dedup"], nl, rows, sc, frac, txt),
                 req("xdtypes", c, [1 if f else 0 for f in frac]), req("xdtypes", c, [2 if t else 0 for t in txt])]
        metas.append((k, df, pref, info))
    resp = common.driver_batch(reqs)
    for (k, df, pref, info), rm, rs, r1, r2, rd1, rd2 in zip(metas, *(resp[i::6] for i in range(6))):
        impl, names = impl_levels(case, out["files_mixed"], df, pref, info)
        if isinstance(impl, str):
            return ("spec", "number-spelling", f"collection {k}: {impl} (mixed spellings)")
        spec, model = parse_levels(case, rs), parse_levels(case, rm)
        old = {1: parse_levels(case, r1), 2: parse_levels(case, r2)}
        if text_input:
            out.setdefault("mixed_dtypes_vary", []).append(
                (len(set(str(t) for t in dec(rd1))) > 1, len(set(str(t) for t in dec(rd2))) > 1))
            out.setdefault("mixed_old_keys_would_differ", []).append((old[1] != spec, old[2] != spec))
        if impl != spec:
            lvl = next((names[i] for i in range(len(names)) if i >= len(spec) or impl[i] != spec[i]), "?")
            like = [KEY_VARIANTS[v] for v in (1, 2) if text_input and impl == old[v]]
            return ("spec", "number-spelling",
                    f"collection {k}: level {lvl}: with the spectrum column spelled 500 / 500.5 and the level column "
                    f"PeptideGroup holding ids like 117 / 120_b in the {'text' if text_input else 'Parquet'} file, the "
                    f"result files for CONFIDENCE_CHUNK_SIZE={c} differ from the chunk-free specification (entities keyed "
                    f"by their canonical value)" + (f"; they are the files of the refuted key variant(s): {like}" if like else ""))
        if impl != model:
            return ("corr", "xkeyfiles", f"collection {k}: model of the keys of the streaming scan differs from the "
                                         "implementation (which satisfies the canonical-key specification)")
    return None


def np_key_text(is_float, vals):
    """the text `_split` hashes for a row whose printed scalars are 64 bit: rendered by numpy itself (numpy < 2
    prints no type name at all)"""
    return str(tuple((np.float64(v) if is_float else np.int64(v)) for v in vals))


def check_folds(case, cfg, out, dfs, n0):
    """the folds of every real _split call against the Lean model of the fold key (kinds and values of the spectrum
    columns, whatever their storage types) fed through crc32 into the split model of C02"""
    from zlib import crc32

    splits = out.get("splits", [])
    if not splits:
        return None
    if len(splits) != len(dfs):
        return ("corr", "xfoldkeys", f"brew called _split {len(splits)} times for {len(dfs)} collections")
    reqs = []
    for k, df in enumerate(dfs):
        cols = out["dataset"][k]["spectrum"]
        if any(df[c].dtype.kind not in "iuf" for c in cols):
            return ("skip", "xfoldkeys-skipped-text-spectrum-column", None)
        vals = df[cols].values
        if not np.all(vals == np.floor(vals)):
            return ("skip", "xfoldkeys-skipped-fractional", None)
        rows = [[int(v) for v in x] for x in vals.tolist()]
        types = stored_types(df, cfg, cols)
        reqs += [req("xfoldkeys", types, rows), req("xfoldkeysspec", [t[0] for t in types], rows)]
    resp = common.driver_batch(reqs)
    hashes = []
    for k in range(len(dfs)):
        km, ks = dec(resp[2 * k]), dec(resp[2 * k + 1])
        if km != ks:
            return ("corr", "xfoldkeys", f"collection {k}: the model's fold keys depend on the storage types")
        hashes.append([crc32(np_key_text(str(x[0]) == "T", [int(v) for v in x[3]]).encode()) for x in km])
    resp = common.driver_batch([req("split", case["folds"], h) for h in hashes])
    for k, (r, sp) in enumerate(zip(resp, splits)):
        if r.strip().startswith("reject"):
            return ("corr", "xfoldkeys", f"collection {k}: the split model rejects ({r.strip()}) where _split returned folds")
        model = sorted(sorted(int(i) for i in f) for f in dec(r))
        if model != sorted(sp["folds"]):
            return ("spec" if out.get("narrow") else "corr", "brew-folds-dtype" if out.get("narrow") else "xfoldkeys",
                    f"collection {k}: the folds of _split are not those of the key made of the kinds and values of the "
                    f"spectrum columns {out['dataset'][k]['spectrum']} (stored as {stored_types(dfs[k], cfg, out['dataset'][k]['spectrum'])})")
    out["folds_checked"] = len(dfs)
    return None


def text_class(v):
    """cell class of a text as pandas' inference sees it: 0 integer spelling, 1 number with fraction / exponent, 2 text"""
    import re

    v = str(v)
    if re.fullmatch(r"[+-]?\d+", v):
        return 0
    return 1 if numeric_looking(v) else 2


def check_idtext(case, cfg, out, dfs, n0):
    """D54: every identifier cell of every result file of the mixed-spelling run is the text of the input cell
    (direct re-statement), and the files are those of the Lean model of the three chunked text reads"""
    if not case.get("mixed") or "files_mixed" not in out:
        return None
    prefs = coll_prefixes(case)
    mdfs = mixed_tables(case, dfs)
    c, m = csize(cfg["confidence"], n0), csize(cfg["merge"], n0)
    idcols = [("PSMId", "SpecId"), ("peptide", "Peptide"), ("proteinIds", "Proteins"), ("PeptideGroup", "PeptideGroup")]
    allrows = {}
    for df in mdfs:
        for rec_ in df[[b for _, b in idcols]].astype(str).to_dict(orient="records"):
            allrows[rec_["SpecId"]] = rec_
    nres = 0
    for name, f in out["files_mixed"].items():
        if f is None:
            continue
        for rec_ in f.to_dict(orient="records"):
            src = allrows.get(rec_["PSMId"])
            if src is None:
                return ("spec", "identifier-spelling", f"{name}: PSMId {rec_['PSMId']!r} is not the text of any SpecId cell of the input "
                                                       f"(CONFIDENCE_CHUNK_SIZE={c}, MERGE_SORT_CHUNK_SIZE={m}, {cfg['fmt']} input)")
            for a, b in idcols[1:]:
                if a in rec_ and rec_[a] != src[b]:
                    return ("spec", "identifier-spelling", f"{name}: PSM {rec_['PSMId']}: column {a} holds {rec_[a]!r}, the input cell "
                                                           f"is {src[b]!r} (CONFIDENCE_CHUNK_SIZE={c}, MERGE_SORT_CHUNK_SIZE={m}, {cfg['fmt']} input)")
            nres += 1
    out["idtext_rows"] = nres
    if len(dfs) > 1 and prefs[0] is None:
        return ("skip", "xtextfiles-skipped-aggregated", None)
    reqs, metas = [], []
    for k, (df, pref) in enumerate(zip(mdfs, prefs)):
        info = out["dataset_mixed"][k]
        score = conf_scores(case, df)
        rows = P.table_rows(df, info["spectrum"], info["levels"], score)
        n = len(df)
        # text ids: i = the SpecId of row i as written; n + i = pandas' spelling of the number it reads as
        tb = [[i, text_class(sid), n + i, n + i] for i, sid in enumerate(df["SpecId"])]
        reqs.append(req("xtextfiles", True, c, m, case["dedup"], len(info["levels"]), tb, rows, [int(x) for x in score]))
        metas.append((k, df, pref, info))
    resp = common.driver_batch(reqs)
    for (k, df, pref, info), r in zip(metas, resp):
        impl, names = impl_levels(case, out["files_mixed"], df, pref, info)
        if isinstance(impl, str):
            return ("spec", "identifier-spelling", f"collection {k}: {impl} (mixed spellings)")
        if impl != parse_levels(case, r):
            return ("corr", "xtextfiles", f"collection {k}: the result files differ from the model of the chunked text reads "
                                          f"(identifiers read as text)")
    out["idtext_numeric_ids"] = sum(1 for df in mdfs for sid in df["SpecId"] if text_class(sid) != 2)
    return None


def closed_spans(c, n):
    """direct re-statement of the stream profile: chunk k starts at row k*c and holds min(c, n - k*c) rows"""
    return [(k * c, min(c, n - k * c)) for k in range(-(-n // c))]


def check_streams(case, cfg, out, dfs, n0):
    """every chunked pass of the real readers: was it asked for the configured constant, and does it deliver the
    chunks of the Lean stream model (first index label and size of every chunk)?"""
    sizes = {k: csize(cfg[k], n0) for k in ("confidence", "merge", "predict", "read_all", "drop_rows")}
    inputs = out.get("input_rows", {})
    todo = []
    for e in out.get("streams", []):
        ph, name = e["phase"], e["file"]
        if ph == "mixed-read":
            continue        # read_pin of the mixed-spelling table runs with the default constants
        if name in inputs:
            if ph.startswith("read"):
                exp, what = {sizes["drop_rows"]}, "CHUNK_SIZE_ROWS_FOR_DROP_COLUMNS"
            elif ph == "brew":
                exp, what = {sizes["read_all"], sizes["predict"]}, "CHUNK_SIZE_READ_ALL_DATA / CHUNK_SIZE_ROWS_PREDICTION"
            else:
                exp, what = {sizes["confidence"]}, "CONFIDENCE_CHUNK_SIZE"
            total = inputs[name]
            kind = "input file"
        elif "scores_metadata" in name:
            exp, what, total, kind = {sizes["merge"]}, "MERGE_SORT_CHUNK_SIZE", None, "sorted chunk file"
        else:
            exp, what, total, kind = {sizes["confidence"]}, "CONFIDENCE_CHUNK_SIZE", None, "level file"
        if e["chunk_size"] not in exp:
            return ("corr", "xspans", f"{ph}: the reader of the {kind} was asked for chunks of {e['chunk_size']} rows, "
                                      f"the configured {what} is {sorted(exp)}")
        if not e.get("done"):
            continue        # a pass that was not read to its end says nothing about the last chunk
        spans = [s_ for s_ in e["spans"] if s_[1] > 0] if sum(l_ for _, l_ in e["spans"]) == 0 else list(e["spans"])
        got = sum(l_ for _, l_ in spans)
        if total is not None and got != total:
            return ("corr", "xspans", f"{ph}: the chunks of the {kind} hold {got} of its {total} rows")
        todo.append((e["chunk_size"], got, spans, ph, kind))
    nb = [e["chunk_size"] for e in out.get("streams", []) if e["phase"] == "brew"]
    r_, p_, nf = sizes["read_all"], sizes["predict"], len(dfs)
    ok = (len(nb) in (nf, 2 * nf)) if r_ == p_ else (nb.count(r_) == nf and nb.count(p_) in (0, nf))
    if not ok:
        return ("corr", "xspans", f"brew: chunked passes over the input with chunk sizes {nb}; expected one training "
                                  f"read per file with {r_} and at most one prediction pass per file with {p_}")
    pairs = sorted({(c, n) for c, n, _, _, _ in todo})
    resp = common.driver_batch([req("xspans", c, n) for c, n in pairs] + [req("xspansspec", c, n) for c, n in pairs])
    model = {pr: [tuple(int(v) for v in x) for x in dec(r)] for pr, r in zip(pairs, resp[:len(pairs)])}
    spec = {pr: [tuple(int(v) for v in x) for x in dec(r)] for pr, r in zip(pairs, resp[len(pairs):])}
    for c, n, spans, ph, kind in todo:
        if spec[(c, n)] != closed_spans(c, n):
            return ("corr", "xspansspec", f"Lean closed form differs from its re-statement for c={c}, n={n}")
        if [tuple(x) for x in spans] != model[(c, n)] or model[(c, n)] != spec[(c, n)]:
            return ("corr", "xspans", f"{ph}: the chunks of the {kind} (first label, rows) {spans[:4]}… differ from the "
                                      f"stream model for c={c}, n={n}: {model[(c, n)][:4]}…")
    out["streams_checked"] = [(ph, len(spans)) for _, _, spans, ph, _ in todo]
    return None


def model_checks(chk, case, cfg, out, dfs):
    """runs all comparisons with the Lean models on one configuration; returns True when a violation or a
    broken correspondence was recorded"""
    n0 = len(dfs[0])
    for fn in (lambda: check_ensemble(case, cfg, out, n0), lambda: check_reset(case, cfg, out, n0),
               lambda: check_train_tables(case, cfg, out, dfs, n0), lambda: check_files(case, cfg, out, dfs, n0),
               lambda: check_streams(case, cfg, out, dfs, n0), lambda: check_folds(case, cfg, out, dfs, n0),
               lambda: check_idtext(case, cfg, out, dfs, n0), lambda: check_mixed(case, cfg, out, dfs, n0)):
        res = fn()
        if res is None:
            continue
        kind, name, detail = res
        if kind == "skip":
            chk.count("model-check", name)
            continue
        info = dict(case={k: v for k, v in case.items() if k != "variants"}, variant=cfg, clause=detail)
        if kind == "spec":
            chk.spec_violation("config-dependence:" + name, info)
        else:
            chk.corr_break(name, dict(case=info["case"], variant=cfg, impl=detail, model=name))
        return True
    for ph, nch in out.get("streams_checked", []):
        chk.count("stream-pass", ph.split("-")[0])
        chk.count("stream-chunks", "1" if nch == 1 else ("2-9" if nch < 10 else "10+"))
    if out.get("folds_checked"):
        chk.count("fold-key-model", f"{out.get('narrow') or '64-bit'}")
    if "idtext_rows" in out:
        chk.count("identifier-text-rows-checked", "0" if not out["idtext_rows"] else ("1-99" if out["idtext_rows"] < 100 else "100+"))
        chk.count("identifier-numeric-looking-ids", "none" if not out.get("idtext_numeric_ids") else "some")
    for a, b in out.get("mixed_dtypes_vary", []):
        chk.count("mixed-chunk-dtypes-vary", f"mass:{a}/group:{b}")
    for a, b in out.get("mixed_old_keys_would_differ", []):
        # how often the dimension can tell the refuted keys from the repaired one
        chk.count("mixed-refuted-key-would-differ", f"numbers-only:{a}/str:{b}")
    return False


def split_table(df, ncoll):
    """1 or 2 collections: the table is cut at a spectrum boundary near the middle"""
    if ncoll == 1:
        return [df]
    cut = len(df) // 2
    while 0 < cut < len(df) and df["ScanNr"].iloc[cut] == df["ScanNr"].iloc[cut - 1]:
        cut += 1
    return [df.iloc[:cut].reset_index(drop=True), df.iloc[cut:].reset_index(drop=True)]


def run_case(chk, case):
    import random

    r = random.Random(case["data_seed"])
    df = mkdata.make_psm_table(r, n_spectra=case["n_spectra"], max_per_spectrum=case["max_per"], n_feat=case["nfeat"],
                               label_enc=r.choice(["pm1", "01"]), optional=("ExpMass",), signal=4.0,
                               level_cols=tuple(case["levels"]))
    dfs = split_table(df, case.get("ncoll", 1))
    if case["nan_col"]:
        col = f"feat{case['nfeat'] - 1}"
        for x in dfs:     # the same column of every collection (brew requires equal feature sets)
            x[col] = x[col].astype(float)
            x.loc[r.randrange(len(x)), col] = np.nan
    ntot = sum(len(x) for x in dfs)
    with P.workdir() as d:
        try:
            base = run_config(case, dfs, d, BASE, "base")
        except Exception as e:
            chk.reject("baseline-failed:" + type(e).__name__ + ":" + str(e)[:50])
            return
        chk.count("mode", case.get("mode", "perfold")); chk.count("collections", len(dfs))
        chk.count("ties", bool(case.get("ties")))
        chk.count("scores-straddle-zero", bool(case.get("center")))
        chk.count("case-decoys", bool(case.get("decoys", True))); chk.count("case-mixed-spelling", bool(case.get("mixed")))
        if len(dfs) > 1:
            chk.count("prefixes", bool(case.get("prefixes")))
        if case.get("mode") == "reset":
            chk.count("reset-taken", bool(base.get("reset_taken")))
        if case.get("mode") == "ensemble":
            chk.count("ensemble-models-trained", bool(base.get("trained")))
        if model_checks(chk, case, BASE, base, dfs):
            return
        for vi, cfg in enumerate(case["variants"]):
            nontriv = cfg["workers"] > 1 or cfg["fmt"] != "pin" or any(
                isinstance(cfg[k], str) or cfg[k] < ntot for k in ("confidence", "merge", "predict", "read_all", "drop_rows"))
            key = (case["data_seed"], case["est"], case.get("mode"), len(dfs), json.dumps(cfg, sort_keys=True)) if nontriv else None
            var = None
            try:
                var = run_config(case, dfs, d, cfg, f"v{vi}")
                diff = compare(base, var, case, dfs)
            except Exception as e:
                import traceback
                diff = f"variant run failed although the baseline succeeded: {type(e).__name__}: {e}"[:300]
                tb = traceback.format_exc()[-600:]
            chk.case(None, key, sample=dict(table_rows=ntot, est=case["est"], mode=case.get("mode"), collections=len(dfs),
                                            variant={k: str(v) for k, v in cfg.items()}))
            chk.count("est", case["est"]); chk.count("cap", str(case.get("cap"))); chk.count("folds", case["folds"]); chk.count("fmt", cfg["fmt"]); chk.count("workers", cfg["workers"])
            for k in ("confidence", "merge", "predict", "read_all", "drop_rows", "drop_cols"):
                chk.count(k, str(cfg[k]))
            chk.count("jitter", cfg["jitter"]); chk.count("parquet-storage", str(cfg.get("narrow")) if cfg["fmt"] == "parquet" else "text")
            chk.count("mode-x-predict", f"{case.get('mode', 'perfold')}/{cfg['predict']}")
            chk.count("collections-x-read_all", f"{len(dfs)}/{cfg['read_all']}")
            chk.count("decoys", bool(case.get("decoys", True))); chk.count("mixed-spelling", bool(case.get("mixed")))
            chk.count("workers-per-stage", "same" if cfg.get("workers_read", cfg["workers"]) == cfg["workers"]
                      == cfg.get("workers_conf", cfg["workers"]) else "differ")
            if case.get("mixed"):
                chk.count("mixed-x-confidence", f"{cfg['fmt'] if cfg['fmt'] == 'parquet' else 'text'}/{cfg['confidence']}")
            if not diff and var is not None and case.get("mixed") and "files_mixed" in base and "files_mixed" in var:
                idr = check_idtext(case, cfg, var, dfs, len(dfs[0]))
                if idr is not None and idr[0] == "spec":
                    chk.spec_violation("config-dependence:" + idr[1], dict(
                        case={k: v for k, v in case.items() if k != "variants"}, variant=cfg, clause=idr[2]))
                    return
                md = diff_files(base["files_mixed"], var["files_mixed"])
                if md:
                    chk.spec_violation("config-dependence:number-spelling", dict(
                        case={k: v for k, v in case.items() if k != "variants"}, variant=cfg,
                        clause="spectrum column spelled 500 / 500.5, level column PeptideGroup 117 / 120_b: " + md + " between the baseline "
                               "(one chunk) and this configuration"))
                    return
            if diff:
                sig = "config-dependence:" + diff.split(":")[0]
                chk.spec_violation(sig, dict(case={k: v for k, v in case.items() if k != "variants"}, variant=cfg,
                                             clause=diff))
                return
            if model_checks(chk, case, cfg, var, dfs):
                return


def env_channel_start(chk):
    """the command line tool configures the streaming constants through MOKAPOT_* environment variables read at
    import (constants.py); the harness varies the module attributes.  A fresh interpreter shows that the two are
    the same channel: every variable of the generated inventory (theorem C05_constants_inventory) set to a random
    value must be the value of the module attribute the harness patches."""
    attrs = [(m, a) for v in P.CHUNK_ATTRS.values() for m, a in v]
    vals = {a: chk.rng.randrange(2, 10 ** 6) for _, a in attrs}
    env = dict(os.environ)
    env.update({"MOKAPOT_" + a: str(v) for a, v in vals.items()})
    code = ("import importlib, json\n"
            f"attrs = {attrs!r}\n"
            "print('ENVCONST ' + json.dumps({a: getattr(importlib.import_module(m), a) for m, a in attrs}))\n")
    try:
        proc = subprocess.Popen([sys.executable, "-W", "ignore", "-c", code], env=env, stdout=subprocess.PIPE,
                                stderr=subprocess.PIPE, text=True)
    except Exception as e:      # no second interpreter available: tallied, not a verdict
        chk.reject("env-channel-not-run:" + type(e).__name__)
        return None
    return proc, vals


def env_channel_finish(chk, job):
    if job is None:
        return
    proc, vals = job
    try:
        so, se = proc.communicate(timeout=300)
    except Exception as e:
        proc.kill()
        chk.reject("env-channel-not-run:" + type(e).__name__)
        return
    line = next((l_ for l_ in so.splitlines() if l_.startswith("ENVCONST ")), None)
    if line is None:
        chk.corr_break("envconst", dict(case=dict(env=vals), impl="a fresh interpreter with the MOKAPOT_* variables set "
                                        "failed to import mokapot: " + se[-300:], model="constants inventory"))
        return
    got = json.loads(line[len("ENVCONST "):])
    bad = {a: (vals[a], got.get(a)) for a in vals if got.get(a) != vals[a]}
    chk.count("env-channel", "ok" if not bad else "differs")
    if bad:
        chk.corr_break("envconst", dict(case=dict(env=vals), impl=f"module constants do not take the values of their "
                                        f"MOKAPOT_* variables (set, found): {bad}", model="constants inventory"))


def search(chk):
    for i in range(10 * chk.budget_mult):
        run_case(chk, gen_case(chk.rng, i))
        if chk.spec_violations:
            return


def main(chk, args):
    build = common.build_and_audit("C05")
    if not build.driver_ok:
        chk.finish(build, RULE)
    n = chk.scale(5 if chk.tier == "quick" else 60)
    env_job = env_channel_start(chk)        # a fresh interpreter, running beside the cases
    for i in range(n):
        run_case(chk, gen_case(chk.rng, i))
    env_channel_finish(chk, env_job)
    lc = None
    if chk.tier == "thorough":      # the property modules (Props/C05.lean and the extensions C05Cross, C05Stream)
        lcs = [common.leanchecker("C05"), common.leanchecker("C05Cross"), common.leanchecker("C05Stream"),
               common.leanchecker("C05Text")]
        lc = (all(x[0] for x in lcs), "".join(x[1] for x in lcs)[-2000:])
    chk.assumptions += [
        "PARTIAL: the theorems carry the chunk/worker/format-independence logic of the models of C02, C03, C13, C14 "
        "and of Model/Cross.lean (ensemble / reset scoring, several collections, the score-slice zip, level batches "
        "and the chunked result writer of assign_confidence); "
        "real preemption inside numpy/sklearn/pyarrow, BLAS summation order and per-chunk CSV type inference are "
        "covered only by these differential runs (scores compared with rtol 1e-9, everything else exactly)",
        "thread timing is perturbed by seeded sleeps around the callables given to joblib.delayed",
        "Model.predict is row-wise (the score of a row does not depend on the other rows of the chunk): hypothesis of "
        "the ensemble / reset theorems, exercised by comparing chunked runs with whole-table predictions",
        "the training tables are observed by wrapping mokapot.brew.parse_in_chunks (arguments and return value)",
        "reset path: the expected scores are mokapot.dataset.calibrate_scores (C11's subject) applied to whole-table "
        "predictions of the original model; the Lean side uses the calibrate model of C11",
        "the chunk streams are observed by wrapping CSVFileReader / ParquetFileReader.get_chunked_data_iterator "
        "(argument and chunks); the Parquet merge iterator (pq.ParquetFile.iter_batches in utils.py) is not observed",
        "per-chunk dtype inference of pandas.read_csv is modelled as: a chunk is typed by its widest cell (integer "
        "spelling < fraction spelling < text that is not a number); generated for one numeric spectrum column and one "
        "roll-up level column; empty cells, several spellings of one number inside a text chunk ('017' / '17'), "
        "and text spectrum columns are named in GAPS-C05.md and not generated",
    ]
    chk.assumptions += [
        "third pass: the folds are observed by wrapping OnDiskPsmDataset._split (return value); the Lean fold key "
        "(xfoldkeys: common 64 bit dtype of all spectrum columns, first two values) is rendered with numpy's own scalar "
        "repr and hashed with zlib.crc32 by the harness, the folds come from the split op of C02; numpy's result_type is "
        "a parameter of the theorems (driver instance: its restriction to 64 bit signed columns); tables with a text "
        "spectrum column or fractional spectrum values are tallied as skipped for this comparison",
        "third pass: identifier cells are compared as text (result files read with dtype=str); the model of the three "
        "chunked text reads (xtextfiles) is driven with the PSM id column; peptide, protein and level cells are compared "
        "with the input cells by direct re-statement only; empty identifier cells and NA / NULL texts are not generated",
    ]
    chk.extra["differential_runs"] = chk.evaluations
    chk.finish(build, RULE, search=search, lc=lc,
               trusted_extra=["theorems of C02, C03, C13, C14 (imported)", "joblib threading backend, GIL",
                              "joblib.Parallel returns results in submission order"])


def replay(chk, path):
    info = json.loads(open(path).read())
    case = info.get("case")
    if not isinstance(case, dict) or "est" not in case:
        print(json.dumps(info, indent=1)[:3000])
        return 0
    common.build_and_audit("C05")
    case["variants"] = [info["variant"]] if info.get("variant") and info["variant"] != BASE else []
    run_case(chk, case)
    for sig, i in chk.spec_violations:
        print("REPRODUCED", sig, i.get("clause"))
    return 1 if chk.spec_violations else 0
