"""C05 — results do not depend on chunk sizes, worker count, thread timing or file format.

Differential execution of the real pipeline: one baseline configuration (text input, every chunk larger than
the file, one worker) against variant configurations of the same table."""
from __future__ import annotations

import contextlib
import hashlib
import json
import threading
import time

import numpy as np
import pandas as pd

import common
import mkdata
import pipeline as P
import recest

RULE = (
    "case = (PSM table, estimator kind, variant configuration: each of the six streaming constants drawn from "
    "{1,2,3,7,n-1,n,n+1,larger}, max_workers 1..16 with seeded random delays injected around every delayed task, "
    "text or Parquet with a random row-group size); read_pin dataset, brew scores/models and all assign_confidence "
    "result files of the variant are compared with the baseline run of the same table; distinct = distinct "
    "(table, estimator, configuration); non-trivial = at least one chunk constant smaller than the table or "
    "workers > 1 or Parquet"
)
THR = 0.25
DELAYED = [
    ("mokapot.brew", "_fit_model"),
    ("mokapot.brew", "predict_fold"),
    ("mokapot.parsers.pin", "get_rows_from_dataframe"),
    ("mokapot.parsers.pin", "concat_and_reindex_chunks"),
    ("mokapot.parsers.pin", "drop_missing_values_and_fill_spectra_dataframe"),
    ("mokapot.confidence", "_save_sorted_metadata_chunks"),
]


@contextlib.contextmanager
def jitter(seed, on):
    """seeded random delays around the callables handed to joblib.delayed"""
    if not on:
        yield
        return
    counter = [0]
    lock = threading.Lock()
    saved = []

    def wrap(f):
        def g(*a, **k):
            with lock:
                counter[0] += 1
                c = counter[0]
            h = int(hashlib.sha1(f"{seed}-{c}".encode()).hexdigest()[:6], 16)
            time.sleep((h % 7) * 0.0015)
            out = f(*a, **k)
            time.sleep((h // 7 % 5) * 0.001)
            return out
        g.__name__ = getattr(f, "__name__", "wrapped")
        return g

    try:
        for m, name in DELAYED:
            mo = P.mod(m)
            saved.append((mo, name, getattr(mo, name)))
            setattr(mo, name, wrap(getattr(mo, name)))
        yield
    finally:
        for mo, name, old in saved:
            setattr(mo, name, old)


def gen_case(rng):
    n_spec = rng.choice([80, 120, 160])
    case = dict(
        n_spectra=n_spec, max_per=rng.choice([1, 2, 3]), nfeat=rng.choice([2, 5, 17, 18, 22]),
        est=rng.choice(["tagdecision", "tagproba", "orderprobe", "orderprobe", "svm", "forest"]),
        folds=rng.choice([2, 2, 3, 4]), seed=rng.randrange(1000), data_seed=rng.randrange(1 << 30),
        cap=rng.choice([None, None, 0.4, 0.8]),
        nan_col=rng.random() < 0.4, levels=[c for c in ("ModifiedPeptide", "Precursor") if rng.random() < 0.4],
        dedup=rng.random() < 0.7,
    )
    pick = lambda: rng.choice([1, 2, 3, 7, "n-1", "n", "n+1", 10 ** 7])  # noqa: E731
    case["variants"] = []
    for _ in range(rng.choice([2, 3])):
        case["variants"].append(dict(
            confidence=pick(), merge=pick(), predict=pick(), read_all=pick(),
            drop_rows=rng.choice([5, 7, "n-1", "n", "n+1", 10 ** 7, 1]),
            drop_cols=rng.choice([1, 2, 3, 5, 19, 40]), workers=rng.choice([1, 2, 4, 8, 16]),
            fmt=rng.choice(["pin", "parquet"]), rg=rng.choice([1, 3, 50, None]), jitter=rng.random() < 0.7,
            jseed=rng.randrange(1 << 20),
        ))
    return case


def make_model(case):
    import mokapot
    from sklearn.ensemble import RandomForestClassifier

    k = case["est"]
    if k == "tagdecision":
        return mokapot.Model(recest.TagDecision(run=recest.new_run(), tagged=False), scaler="as-is", train_fdr=THR, max_iter=2,
                             override=True, rng=case["seed"])
    if k == "tagproba":
        return mokapot.Model(recest.TagProba(run=recest.new_run(), tagged=False), scaler="as-is", train_fdr=THR, max_iter=2,
                             override=True, rng=case["seed"])
    if k == "orderprobe":   # output depends on the order of the training rows: any reordering shows in the scores
        return mokapot.Model(recest.TagProba(run=recest.new_run(), tagged=False, order=True), scaler="as-is",
                             train_fdr=THR, max_iter=2, override=True, rng=case["seed"])
    if k == "svm":
        return mokapot.PercolatorModel(train_fdr=THR, max_iter=2, rng=case["seed"], override=True)
    return mokapot.Model(RandomForestClassifier(n_estimators=8, random_state=case["seed"], max_depth=4),
                         train_fdr=THR, max_iter=2, rng=case["seed"], override=True)


def csize(v, n):
    return {"n-1": max(1, n - 1), "n": n, "n+1": n + 1}.get(v, v)


def run_config(case, df, d, cfg, tag):
    """returns dict(dataset=..., scores=..., files={name: DataFrame})"""
    import mokapot

    n = len(df)
    sizes = {k: csize(cfg[k], n) for k in ("confidence", "merge", "predict", "read_all", "drop_rows")}
    sizes["drop_cols"] = cfg["drop_cols"]
    p = mkdata.write_table(df, d / f"{tag}.{cfg['fmt']}", row_group_size=cfg["rg"])
    out = {}
    with P.chunk_sizes(**sizes), jitter(cfg["jseed"], cfg["jitter"]):
        ds = mkdata.read_dataset(p, max_workers=cfg["workers"])
        sd = ds.spectra_dataframe
        out["dataset"] = dict(features=list(ds.feature_columns), spectrum=list(ds.spectrum_columns),
                              metadata=list(ds.metadata_columns), levels=list(ds.level_columns),
                              spectra_cols=list(sd.columns), spectra=sd.astype(float).values.tolist(),
                              spectra_index=list(sd.index))
        model = make_model(case)
        cap = None if case.get("cap") is None else max(10, int(case["cap"] * n * (case["folds"] - 1) / case["folds"]))
        _, models, scores, descs = mokapot.brew(ds, model, test_fdr=THR, folds=case["folds"],
                                                max_workers=cfg["workers"], rng=case["seed"], subset_max_train=cap)
        out["scores"] = np.asarray(scores[0], dtype=float).ravel()
        out["descs"] = [bool(x) for x in descs]
        coefs = []
        for m in models:
            est = getattr(m.estimator, "best_estimator_", m.estimator)
            if hasattr(est, "coef_"):
                coefs.append(np.asarray(est.coef_, dtype=float).ravel().tolist() + np.ravel(est.intercept_).tolist())
        out["coefs"] = coefs
        # confidence on exact (integer-valued) scores, so that every comparison below is exact
        ds2 = mkdata.read_dataset(p, max_workers=cfg["workers"])
        cdir = d / f"conf-{tag}"
        cdir.mkdir()
        with P.pep_kernel(stub=True):
            P.run_assign_confidence([ds2], [df["feat0"].values.astype(float)], cdir, prefixes=[None], decoys=True,
                                    deduplication=case["dedup"], max_workers=cfg["workers"])
        out["files"] = {f.name: P.read_result(f) for f in sorted(cdir.iterdir())}
    return out


BASE = dict(confidence=10 ** 7, merge=10 ** 7, predict=10 ** 7, read_all=10 ** 7, drop_rows=10 ** 7, drop_cols=10 ** 3,
            workers=1, fmt="pin", rg=None, jitter=False, jseed=0)


def compare(base, var):
    """first difference between two runs, or None"""
    for k in ("features", "spectrum", "metadata", "levels", "spectra_cols", "spectra", "spectra_index"):
        if base["dataset"][k] != var["dataset"][k]:
            return f"read_pin: dataset field {k} differs"
    if base["descs"] != var["descs"]:
        return "brew: descs differ"
    if base["scores"].shape != var["scores"].shape:
        return "brew: number of scores differs"
    if not np.allclose(base["scores"], var["scores"], rtol=1e-9, atol=1e-9):
        i = int(np.argmax(np.abs(base["scores"] - var["scores"])))
        return f"brew: scores differ (row {i}: {base['scores'][i]!r} vs {var['scores'][i]!r})"
    if len(base["coefs"]) != len(var["coefs"]) or any(
            not np.allclose(a, b, rtol=1e-9, atol=1e-12) for a, b in zip(base["coefs"], var["coefs"])):
        return "brew: model coefficients differ"
    if sorted(base["files"]) != sorted(var["files"]):
        return f"assign_confidence: set of files differs {sorted(base['files'])} vs {sorted(var['files'])}"
    for name, fb in base["files"].items():
        fv = var["files"][name]
        if fb is None or fv is None:
            continue
        if list(fb.columns) != list(fv.columns) or len(fb) != len(fv):
            return f"assign_confidence: {name} shape/columns differ"
        for c in fb.columns:
            a, b = fb[c].values, fv[c].values
            same = np.array_equal(a, b) if a.dtype.kind not in "fc" else np.allclose(a, b, rtol=1e-12, atol=0, equal_nan=True)
            if not same:
                return f"assign_confidence: {name} column {c} differs"
    return None


def run_case(chk, case):
    import random

    r = random.Random(case["data_seed"])
    df = mkdata.make_psm_table(r, n_spectra=case["n_spectra"], max_per_spectrum=case["max_per"], n_feat=case["nfeat"],
                               label_enc=r.choice(["pm1", "01"]), optional=("ExpMass",), signal=4.0,
                               level_cols=tuple(case["levels"]))
    if case["nan_col"]:
        col = f"feat{case['nfeat'] - 1}"
        df[col] = df[col].astype(float)
        df.loc[r.randrange(len(df)), col] = np.nan
    with P.workdir() as d:
        try:
            base = run_config(case, df, d, BASE, "base")
        except Exception as e:
            chk.reject("baseline-failed:" + type(e).__name__ + ":" + str(e)[:50])
            return
        for vi, cfg in enumerate(case["variants"]):
            nontriv = cfg["workers"] > 1 or cfg["fmt"] == "parquet" or any(
                isinstance(cfg[k], str) or cfg[k] < len(df) for k in ("confidence", "merge", "predict", "read_all", "drop_rows"))
            key = (case["data_seed"], case["est"], json.dumps(cfg, sort_keys=True)) if nontriv else None
            try:
                var = run_config(case, df, d, cfg, f"v{vi}")
                diff = compare(base, var)
            except Exception as e:
                import traceback
                diff = f"variant run failed although the baseline succeeded: {type(e).__name__}: {e}"[:300]
                tb = traceback.format_exc()[-600:]
            chk.case(None, key, sample=dict(table_rows=len(df), est=case["est"], variant={k: str(v) for k, v in cfg.items()}))
            chk.count("est", case["est"]); chk.count("cap", str(case.get("cap"))); chk.count("folds", case["folds"]); chk.count("fmt", cfg["fmt"]); chk.count("workers", cfg["workers"])
            for k in ("confidence", "merge", "predict", "read_all", "drop_rows", "drop_cols"):
                chk.count(k, str(cfg[k]))
            chk.count("jitter", cfg["jitter"])
            if diff:
                sig = "config-dependence:" + diff.split(":")[0]
                chk.spec_violation(sig, dict(case={k: v for k, v in case.items() if k != "variants"}, variant=cfg,
                                             clause=diff))
                return


def search(chk):
    for _ in range(10 * chk.budget_mult):
        run_case(chk, gen_case(chk.rng))
        if chk.spec_violations:
            return


def main(chk, args):
    build = common.build_and_audit("C05")
    if not build.driver_ok:
        chk.finish(build, RULE)
    n = chk.scale(5 if chk.tier == "quick" else 60)
    for _ in range(n):
        run_case(chk, gen_case(chk.rng))
    lc = common.leanchecker("C05") if chk.tier == "thorough" else None
    chk.assumptions += [
        "PARTIAL: the theorems carry the chunk/worker/format-independence logic of the models of C02, C03, C13, C14; "
        "real preemption inside numpy/sklearn/pyarrow, BLAS summation order and per-chunk CSV type inference are "
        "covered only by these differential runs (scores compared with rtol 1e-9, everything else exactly)",
        "thread timing is perturbed by seeded sleeps around the callables given to joblib.delayed",
    ]
    chk.extra["differential_runs"] = chk.evaluations
    chk.finish(build, RULE, search=search, lc=lc,
               trusted_extra=["theorems of C02, C03, C13, C14 (imported)", "joblib threading backend, GIL"])


def replay(chk, path):
    info = json.loads(open(path).read())
    case = info.get("case")
    if not isinstance(case, dict) or "est" not in case:
        print(json.dumps(info, indent=1)[:3000])
        return 0
    common.build_and_audit("C05")
    case["variants"] = [info["variant"]]
    run_case(chk, case)
    for sig, i in chk.spec_violations:
        print("REPRODUCED", sig, i.get("clause"))
    return 1 if chk.spec_violations else 0
