"""C09 — a run's results depend only on its inputs, not on leftovers of earlier runs."""
from __future__ import annotations

import contextlib
import io
import json
import os
import shutil
from pathlib import Path

import numpy as np

import common
import mkdata
import pipeline as P
from common import Atom, dec, req

RULE = (
    "history = 1-3 earlier assign_confidence runs in the same destination directory, each with its own table, chunk "
    "sizes, prefix and format, each made to fail at a chosen file operation (every CSV/Parquet writer initialize / "
    "append / write call and every unlink is a crash point; quick samples them, thorough enumerates all of them for "
    "small runs) or left to complete, optionally plus hand-made stale files with the names of this run's "
    "intermediates; then the observed run is executed in the dirty directory and in a clean one and all result "
    "files and the directory listing are compared; the CLI verify step is run on a ragged PIN next to a stale "
    "<pin>.tsv; distinct = distinct (history, crash point, observed configuration); non-trivial = the directory "
    "was not empty when the observed run started"
)


class Crash(Exception):
    pass


@contextlib.contextmanager
def crash_at(k):
    """make the k-th file operation (writer initialize/append/write, unlink) raise; k=None: count only"""
    td = P.mod("mokapot.tabular_data")
    conf = P.mod("mokapot.confidence")
    counter = {"n": 0, "ops": []}
    saved = []

    def guard(label):
        counter["n"] += 1
        counter["ops"].append(label)
        if k is not None and counter["n"] == k:
            raise Crash(f"injected failure at file operation {k}: {label}")

    def wrap_method(cls, name):
        orig = getattr(cls, name)

        def m(self, *a, **kw):
            guard(f"{cls.__name__}.{name}:{Path(str(getattr(self, 'file_name', '?'))).name}")
            return orig(self, *a, **kw)
        saved.append((cls, name, orig))
        setattr(cls, name, m)

    for cls in (td.CSVFileWriter, td.ParquetFileWriter):
        for name in ("initialize", "append_data", "finalize"):
            wrap_method(cls, name)
    wrap_method(td.ParquetFileWriter, "write")
    orig_unlink = os.unlink

    def unlink(path, *a, **kw):
        guard(f"os.unlink:{Path(str(path)).name}")
        return orig_unlink(path, *a, **kw)
    orig_punlink = Path.unlink

    def punlink(self, *a, **kw):
        guard(f"Path.unlink:{self.name}")
        return orig_punlink(self, *a, **kw)
    try:
        conf.os.unlink = unlink
        Path.unlink = punlink
        yield counter
    finally:
        conf.os.unlink = orig_unlink
        Path.unlink = orig_punlink
        for cls, name, orig in saved:
            setattr(cls, name, orig)


def make_run(rng, tag):
    return dict(
        tag=tag, n_spectra=rng.choice([12, 20, 30]), max_per=rng.choice([1, 2, 3]),
        levels=[c for c in ("ModifiedPeptide",) if rng.random() < 0.4],
        cconf=rng.choice([3, 5, 8, 1000]), cmerge=rng.choice([2, 7, 1000]), fmt=rng.choice(["pin", "pin", "parquet"]),
        prefix=rng.choice([None, None, "a", "b"]), decoys=rng.random() < 0.8, dedup=rng.random() < 0.8,
        data_seed=rng.randrange(1 << 30), cconf_divides=rng.random() < 0.5,
        proteins=rng.random() < 0.3,        # protein level too (its level file is one more intermediate)
    )


def execute(run, dest, workroot, crash=None):
    """one assign_confidence run; returns the crash counter (ops performed)"""
    import random

    r = random.Random(run["data_seed"])
    df = mkdata.make_psm_table(r, n_spectra=run["n_spectra"], max_per_spectrum=run["max_per"], n_feat=2,
                               label_enc="pm1", optional=("ExpMass",), level_cols=tuple(run["levels"]), signal=3.0,
                               **(dict(letter_peptides=True, n_peptides=12) if run.get("proteins") else {}))
    kw = {}
    if run.get("proteins"):
        import mokapot

        fasta = mkdata.make_fasta(12, 6, workroot / f"db-{run['tag']}.fasta")
        with contextlib.redirect_stdout(io.StringIO()), contextlib.redirect_stderr(io.StringIO()):
            kw = dict(proteins=mokapot.read_fasta(fasta, missed_cleavages=0, min_length=4), rng=1)
    inp = workroot / f"in-{run['tag']}.{run['fmt']}"
    mkdata.write_table(df, inp)
    if run.get("cconf_divides"):   # a chunk size that divides the row count exactly (no partial last chunk)
        divs = [c for c in range(2, len(df)) if len(df) % c == 0]
        if divs:
            run = dict(run, cconf=divs[run["data_seed"] % len(divs)])
    ds = mkdata.read_dataset(inp)
    with P.chunk_sizes(confidence=run["cconf"], merge=run["cmerge"]), P.pep_kernel(stub=True), crash_at(crash) as ctr:
        P.run_assign_confidence([ds], [df["feat0"].values.astype(float)], dest, prefixes=[run["prefix"]],
                                decoys=run["decoys"], deduplication=run["dedup"], **kw)
    return ctr


def snapshot(d: Path):
    return {f.name: f.read_bytes() for f in sorted(d.iterdir()) if f.is_file()}


def gen_case(rng):
    hist = [make_run(rng, f"h{i}") for i in range(rng.choice([1, 1, 2, 3]))]
    case = dict(history=hist, observed=make_run(rng, "obs"),
                crash_fracs=[rng.choice([None, rng.random(), rng.random()]) for _ in hist],
                stale=rng.random() < 0.5)
    return case


def stale_files(case, dest: Path):
    """hand-made leftovers carrying the names of the observed run's own intermediates"""
    obs = case["observed"]
    ext = "." + obs["fmt"]
    pre = f"{obs['prefix']}." if obs["prefix"] else ""
    names = [f"{pre}scores_metadata_{i}{ext}" for i in list(range(0, 45)) + [99]]
    names += [f"psms{ext}", f"peptides{ext}", f"{pre}targets.psms", f"{pre}decoys.peptides"]
    for nm in names:
        (dest / nm).write_text("SpecId\tLabel\tScanNr\tExpMass\tPeptide\tProteins\tscore\nstale\t1\t1\t1\tP\tQ\t9e9\n")
    return names


def run_case(chk, case, enumerate_all=False):
    with P.workdir() as root:
        clean = root / "clean"; clean.mkdir()
        dirty = root / "dirty"; dirty.mkdir()
        obs = case["observed"]
        try:
            execute(obs, clean, root)
        except Exception as e:
            chk.reject("observed-run-fails-in-clean-dir:" + type(e).__name__)
            return
        ref = snapshot(clean)
        # total operation counts of the history runs (to place the crash point)
        plans = []
        for h, frac in zip(case["history"], case["crash_fracs"]):
            plans.append((h, frac))
        crash_points = [None]
        if enumerate_all:
            probe = root / "probe"; probe.mkdir()
            try:
                n_ops = execute(case["history"][0], probe, root)["n"]
            except Exception:
                n_ops = 0
            crash_points = list(range(1, n_ops + 1)) + [None]
        for cp in crash_points:
            for f in dirty.iterdir():
                f.unlink() if f.is_file() else shutil.rmtree(f)
            debris_ops = []
            for idx, (h, frac) in enumerate(plans):
                k = None
                if enumerate_all and idx == 0:
                    k = cp
                elif frac is not None:
                    tmp = root / f"probe{idx}"
                    shutil.rmtree(tmp, ignore_errors=True); tmp.mkdir()
                    try:
                        total = execute(h, tmp, root)["n"]
                    except Exception:
                        total = 0
                    k = max(1, int(frac * total)) if total else None
                try:
                    ctr = execute(h, dirty, root, crash=k)
                    debris_ops.append((h["tag"], "completed", ctr["n"]))
                except Crash as e:
                    debris_ops.append((h["tag"], str(e), k))
                except Exception as e:
                    debris_ops.append((h["tag"], "failed:" + type(e).__name__, k))
            stale = stale_files(case, dirty) if case["stale"] else []
            before = snapshot(dirty)
            try:
                execute(obs, dirty, root)
                after = snapshot(dirty)
                err = None
            except Exception as e:
                after, err = snapshot(dirty), f"{type(e).__name__}: {e}"[:200]
            key = (json.dumps(case["observed"], sort_keys=True), tuple(map(str, debris_ops)), case["stale"])
            chk.case(None, key if before else None,
                     sample=dict(observed={k: str(v) for k, v in obs.items()}, debris=[str(x) for x in debris_ops],
                                 dirty_before=sorted(before)[:12]))
            chk.count("history_len", len(plans)); chk.count("stale_files", case["stale"])
            chk.count("protein_level", bool(obs.get("proteins")))
            chk.count("debris", "crashed" if any("injected" in str(o[1]) for o in debris_ops) else "completed")
            clause = None
            if err:
                clause = f"the run succeeds in a clean directory but fails in the dirty one: {err}"
            else:
                for name, content in ref.items():
                    if after.get(name) != content:
                        clause = f"result file {name} differs between the dirty and the clean directory"
                        break
                if clause is None:
                    ext = "." + obs["fmt"]
                    # this run's own intermediates: chunk files it wrote and the level files
                    own_chunk = {n for n in after if "scores_metadata_" in n and n not in before}
                    pre = f"{obs['prefix']}." if obs["prefix"] else ""
                    own_levels = ["psms", "peptides"] + [P.LEVEL_FILE[c] for c in obs["levels"]] \
                        + (["proteins"] if obs.get("proteins") else [])
                    left = sorted(n for n in after if n in [f"{ln}{ext}" for ln in own_levels])
                    # a level file that was stale before and is still there unchanged was deleted-by-name: the run
                    # truncates and later unlinks psms.<ext>/peptides.<ext>, so none may remain
                    if own_chunk or left:
                        clause = f"intermediate files remain after a successful run: {sorted(own_chunk) + left}"
                    extra = sorted(set(after) - set(before) - set(ref))
                    if clause is None and extra:
                        clause = f"files appear that a clean run does not produce: {extra}"
            if clause:
                chk.spec_violation("leftovers:" + clause.split(":")[0][:40],
                                   dict(case=case, crash_point=cp, debris=[str(x) for x in debris_ops], clause=clause))
                return


def cli_case(chk, rng):
    """the CLI verify step next to a stale <pin>.tsv"""
    mk = P.mod("mokapot.mokapot")
    with P.workdir() as root:
        pin = root / "x.pin"
        rows = ["SpecId\tLabel\tScanNr\tExpMass\tfeat\tPeptide\tProteins"]
        for i in range(rng.choice([4, 9])):
            prots = "\t".join(f"P{j}" for j in range(rng.randint(1, 3)))
            rows.append(f"s{i}\t{1 if i % 2 else -1}\t{i}\t{100 + i}\t{i * 3}\tPEP{i}K\t{prots}")
        original = "\n".join(rows) + "\n"
        pin.write_text(original)
        stale = rng.random() < 0.8
        if stale:
            (root / "x.pin.tsv").write_text("STALE LEFTOVER OF AN INTERRUPTED RUN\n")
        from mokapot.parsers.pin_to_tsv import pin_to_valid_tsv
        exp = io.StringIO()
        pin_to_valid_tsv(f_in=io.StringIO(original), f_out=exp)
        try:
            with contextlib.redirect_stdout(io.StringIO()), contextlib.redirect_stderr(io.StringIO()):
                mk.main([str(pin), "--dest_dir", str(root / "out"), "--max_iter", "1", "--folds", "2"])
        except BaseException:
            pass  # the analysis of a 4-row table is expected to fail; the verify step has run by then
        got = pin.read_text()
        chk.case(None, ("cli", original, stale), sample=dict(cli_stale_tsv=stale, rows=len(rows) - 1))
        chk.count("cli-verify", "stale" if stale else "clean")
        if got == original:
            chk.reject("cli-verify-step-did-not-run")
        elif got != exp.getvalue():
            chk.spec_violation("input-mixed-with-leftover",
                               dict(clause="the user's PIN was replaced by content that is not the conversion of the "
                                           "PIN alone", got=got[:300], expected=exp.getvalue()[:300], stale=stale))
        elif (root / "x.pin.tsv").exists():
            chk.spec_violation("cli-temp-left", dict(clause="<pin>.tsv remains after the verify step"))


LEVEL_NAMES = ["psms", "peptides", "modifiedpeptides", "precursors", "peptidegroups"]


def canon_name(fname, ext):
    """file name of a real run -> model name (kind, index)"""
    base = fname.split(".", 1)[1] if fname.split(".")[0] in ("a", "b") and "." in fname else fname
    if "scores_metadata_" in base:
        return ("chunk", int(base.split("scores_metadata_")[1].split(".")[0]))
    for l, ln in enumerate(LEVEL_NAMES):
        if base == f"{ln}{ext}":
            return ("level", l)
        if base == f"targets.{ln}":
            return ("target", l)
        if base == f"decoys.{ln}":
            return ("decoy", l)
    return ("other", 0)


def model_listing(chk, rng):
    """correspondence with the Lean FsRun model: the per-file life cycle (truncate, append*, unlink) of every
    file touched by a real assign_confidence run equals the one of the model's operation list `fsprog k nl decoys`"""
    for _ in range(3):
        # (the FsRun model has no protein level yet: its leftovers are checked on the real code in run_case)
        run = dict(make_run(rng, "trace"), proteins=False)
        with P.workdir() as root:
            dest = root / "d"; dest.mkdir()
            try:
                ctr = execute(run, dest, root)
            except Exception as e:
                chk.reject("trace-run-failed:" + type(e).__name__)
                continue
            ext = "." + run["fmt"]
            real = {}
            for label in ctr["ops"]:
                op, fname = label.split(":", 1)
                kind = {"initialize": "trunc", "append_data": "append", "write": "trunc", "unlink": "unlink"}.get(
                    op.split(".")[-1])
                if kind is None:
                    continue
                nm = canon_name(fname, ext)
                seq = real.setdefault(nm, [])
                if kind in ("append", "unlink") and seq and seq[-1] == kind:
                    continue                      # several appended batches = one append in the model;
                                                  # Path.unlink is seen a second time through os.unlink
                if kind == "append" and nm[0] == "chunk" and seq == ["trunc"]:
                    continue                      # writer.write(df) = initialize + append = one `trunc` with data
                seq.append(kind)
            k = sum(1 for nm in real if nm[0] == "chunk")
            nl = sum(1 for nm in real if nm[0] == "level")
            resp = common.driver_batch([req("fsprog", k, nl, run["decoys"])])[0]
            model = {}
            for item in dec(resp):
                if item[0] == "read":
                    continue
                model.setdefault((item[1], int(item[2])), []).append(item[0])
            chk.case(None, ("fsprog", k, nl, run["decoys"]), sample=dict(trace_files=len(real), k=k, nl=nl))
            chk.count("trace", f"k={k} nl={nl}")
            if real != model:
                diff = {str(n): (real.get(n), model.get(n)) for n in set(real) | set(model) if real.get(n) != model.get(n)}
                chk.corr_break("fsprog", dict(run=run, k=k, nl=nl, differing_files=diff, ops=ctr["ops"][:60]))


def rollup_history_case(chk, rng):
    """the stand-alone roll-up tool run twice in one directory (source = destination, its default): the second
    run, on other inputs, must give what a run in a fresh directory gives — its own earlier outputs are leftovers"""
    import random
    BR = P.mod("mokapot.brew_rollup")

    def results_for(tag, seed, root, dest, prefix):
        r = random.Random(seed)
        df = mkdata.make_psm_table(r, n_spectra=20 + seed % 16, max_per_spectrum=2, n_feat=2, label_enc="pm1",
                                   optional=("ExpMass",), signal=3.0)
        df["SpecId"] = [f"{tag}_{i}" for i in range(len(df))]
        df["Peptide"] = [f"{tag}{p}" for p in df["Peptide"]]       # experiments have their own peptides
        ds = mkdata.read_dataset(mkdata.write_table(df, root / f"in-{tag}.pin"))
        with P.pep_kernel(stub=True):
            P.run_assign_confidence([ds], [df["feat0"].values.astype(float) * 8 + "abc".index(tag)], dest,
                                    prefixes=[prefix], decoys=True, do_rollup=True)

    def rollup(d):
        with contextlib.redirect_stdout(io.StringIO()), contextlib.redirect_stderr(io.StringIO()), \
                P.pep_kernel(stub=True):
            # base level "peptide": the tool's own outputs (roll.targets.peptides) match its input pattern
            BR.main(["--level", "peptide", "-s", str(d), "-d", str(d), "-r", "roll"])

    seeds = {t: rng.randrange(1 << 30) for t in "abc"}
    with P.workdir() as root:
        dirty = root / "dirty"; dirty.mkdir(); clean = root / "clean"; clean.mkdir()
        try:
            results_for("a", seeds["a"], root, dirty, "a"); results_for("b", seeds["b"], root, dirty, "b")
            rollup(dirty)                                    # earlier run: inputs a, b
            for f in dirty.glob("b.*"):
                f.unlink()
            results_for("c", seeds["c"], root, dirty, "c")
            rollup(dirty)                                    # observed run: inputs a, c (roll.* of the earlier run present)
            results_for("a", seeds["a"], root, clean, "a"); results_for("c", seeds["c"], root, clean, "c")
            rollup(clean)
        except SystemExit:
            chk.reject("rollup-exit"); return
        except Exception as e:
            chk.reject("rollup-history-failed:" + type(e).__name__); return
        chk.case(None, ("rollup-history", tuple(seeds.values())), sample=dict(rollup_history=True))
        chk.count("rollup-history", "run")
        a, b = snapshot(dirty), snapshot(clean)
        for name in sorted(b):
            if name.startswith("roll.") and "temp" not in name and a.get(name) != b[name]:
                chk.spec_violation("rollup-leftovers",
                                   dict(clause=f"roll-up result {name} differs between a directory holding the results of "
                                               "an earlier roll-up and a fresh directory", seeds=seeds))
                return


def search(chk):
    for _ in range(12 * chk.budget_mult):
        c = gen_case(chk.rng)
        c["stale"] = True
        run_case(chk, c)
        if chk.spec_violations:
            return
    for _ in range(5):
        cli_case(chk, chk.rng)


def main(chk, args):
    build = common.build_and_audit("C09")
    if not build.driver_ok:
        chk.finish(build, RULE)
    model_listing(chk, chk.rng)
    n = chk.scale(10 if chk.tier == "quick" else 60)
    for _ in range(n):
        run_case(chk, gen_case(chk.rng))
    if chk.tier == "thorough":
        for _ in range(4):
            c = gen_case(chk.rng)
            c["history"] = c["history"][:1]
            c["crash_fracs"] = [None]
            c["history"][0]["n_spectra"] = 12
            run_case(chk, c, enumerate_all=True)
    for _ in range(3 if chk.tier == "quick" else 20):
        cli_case(chk, chk.rng)
    for _ in range(chk.scale(3 if chk.tier == "quick" else 20)):
        rollup_history_case(chk, chk.rng)
    lc = common.leanchecker("C09") if chk.tier == "thorough" else None
    chk.assumptions += [
        "PARTIAL: the theorems are about an abstract file system (name -> content map with truncate/append/unlink/"
        "rename semantics) and the operation sequence of one assign_confidence collection and of the CLI verify "
        "step; atomicity/durability inside one OS write, sqlite journal files and partially written files being "
        "syntactically broken are not modelled",
        "crash points are injected at mokapot's writer methods and unlink calls, not inside pandas/pyarrow",
    ]
    chk.finish(build, RULE, search=search, lc=lc,
               trusted_extra=["tools/gen_repo.py (AST walk -> Generated/FileOps.lean)", "POSIX file semantics"])


def replay(chk, path):
    info = json.loads(open(path).read())
    case = info.get("case")
    if not isinstance(case, dict) or "observed" not in case:
        print(json.dumps(info, indent=1)[:3000])
        return 0
    common.build_and_audit("C09")
    run_case(chk, case)
    for sig, i in chk.spec_violations:
        print("REPRODUCED", sig, i.get("clause"))
    return 1 if chk.spec_violations else 0
