"""C09 — a run's results depend only on its inputs, not on leftovers of earlier runs."""
from __future__ import annotations

import contextlib
import io
import json
import os
import shutil
from pathlib import Path

import numpy as np

import common
import mkdata
import pipeline as P
from common import Atom, dec, req

RULE = (
    "history = 1-3 earlier assign_confidence runs in the same destination directory, each with its own table, chunk "
    "sizes, prefix and format, each made to fail at a chosen file operation (every CSV/Parquet writer initialize / "
    "append / write call and every unlink is a crash point; quick samples them, thorough enumerates all of them for "
    "small runs) or left to complete, optionally plus hand-made stale files with the names of this run's "
    "intermediates; then the observed run is executed in the dirty directory and in a clean one and all result "
    "files and the directory listing are compared; the CLI verify step is run on a ragged PIN next to a stale "
    "<pin>.tsv; distinct = distinct (history, crash point, observed configuration); non-trivial = the directory "
    "was not empty when the observed run started. Extension: every run may consist of 1-3 collections with their own "
    "prefixes (prefixed first, all plain, same prefix twice, or a prefixed one after a plain one), may skip the "
    "roll-up (do_rollup=False) and may add the protein level; stale files carry the names of the intermediates and "
    "result files of every collection (junk or well-formed level-file content); a run that fails in the clean "
    "directory must fail in the dirty one too; the per-file life cycle (truncate, append, unlink, move) traced on "
    "the real code is compared with the Lean operation lists fsprogx / fsrollup / fsclimain; the roll-up tool is "
    "run next to its own stale temporary and result files; mokapot.mokapot.main is run on 1-2 PIN files (ragged or "
    "valid) with --dest_dir, --save_models, --aggregate, --file_root, --keep_decoys, --skip_rollup in a dirty and a "
    "clean destination and every file of both is compared. Second pass: the observed run may pass "
    "append_to_output_file=True (the result files found are declared inputs, planted identically in both "
    "directories; every result file must be its earlier content followed by the rows the same call writes into a "
    "fresh directory), may get a score array longer than its table (chunk size dividing the row count or not: the "
    "sized Lean model fssized / fswellinitsized / fssizedfit computes the chunk counts from the lengths and must "
    "refuse exactly the calls the real code refuses, for the same reason, and the operations of a refused call are "
    "compared with fssizedrefused / fslistrefused), and assign_confidence(sqlite_path=...) is run next to an "
    "interrupted text run and stale files: database rows dirty vs clean, no file of the run left, life cycle and "
    "listing vs fssql / fslistsql. Third pass (leftovers next to the INPUT): an earlier mokapot.mokapot.main over "
    "1-2 tiny PIN files (ragged / valid / with a DefaultDirection line, optionally next to a junk <pin>.tsv) is cut "
    "at every file operation of its verify step (the two read-opens, the truncating open of <pin>.tsv, every "
    "f_tsv.write call, shutil.move, and after the whole loop; quick samples 14 of the cut points of a case, thorough "
    "takes all) and the observed run's verify step runs on what is left: the input directory the earlier run leaves "
    "vs the Lean prediction fsclicrash, the operations performed vs fsclimicro, the input directory after the "
    "observed run vs the conversion of each PIN alone (converter called directly) and vs fsclicrashthen; in the "
    "whole-CLI cases the dirty input directory is in 60 % of the cases produced by such a cut earlier run over the "
    "same files (so some inputs are already converted, one <pin>.tsv is partial) and the traced life cycle is "
    "compared with fsclimain fed with the branches read off the files as they are (needsOf)"
)


class Crash(Exception):
    pass


@contextlib.contextmanager
def crash_at(k):
    """make the k-th file operation (writer initialize/append/write, unlink) raise; k=None: count only"""
    td = P.mod("mokapot.tabular_data")
    conf = P.mod("mokapot.confidence")
    counter = {"n": 0, "ops": []}
    saved = []

    def guard(label):
        counter["n"] += 1
        counter["ops"].append(label)
        if k is not None and counter["n"] == k:
            raise Crash(f"injected failure at file operation {k}: {label}")

    def wrap_method(cls, name):
        orig = getattr(cls, name)

        def m(self, *a, **kw):
            guard(f"{cls.__name__}.{name}:{Path(str(getattr(self, 'file_name', '?'))).name}")
            return orig(self, *a, **kw)
        saved.append((cls, name, orig))
        setattr(cls, name, m)

    for cls in (td.CSVFileWriter, td.ParquetFileWriter):
        for name in ("initialize", "append_data", "finalize"):
            wrap_method(cls, name)
    wrap_method(td.ParquetFileWriter, "write")
    orig_unlink = os.unlink

    def unlink(path, *a, **kw):
        guard(f"os.unlink:{Path(str(path)).name}")
        return orig_unlink(path, *a, **kw)
    orig_punlink = Path.unlink

    def punlink(self, *a, **kw):
        guard(f"Path.unlink:{self.name}")
        return orig_punlink(self, *a, **kw)
    try:
        conf.os.unlink = unlink
        Path.unlink = punlink
        yield counter
    finally:
        conf.os.unlink = orig_unlink
        Path.unlink = orig_punlink
        for cls, name, orig in saved:
            setattr(cls, name, orig)


def make_run(rng, tag):
    return dict(
        tag=tag, n_spectra=rng.choice([12, 20, 30]), max_per=rng.choice([1, 2, 3]),
        levels=[c for c in ("ModifiedPeptide",) if rng.random() < 0.4],
        cconf=rng.choice([3, 5, 8, 1000]), cmerge=rng.choice([2, 7, 1000]), fmt=rng.choice(["pin", "pin", "parquet"]),
        prefix=rng.choice([None, None, "a", "b"]), decoys=rng.random() < 0.8, dedup=rng.random() < 0.8,
        data_seed=rng.randrange(1 << 30), cconf_divides=rng.random() < 0.5,
        proteins=rng.random() < 0.3,        # protein level too (its level file is one more intermediate)
        do_rollup=rng.random() >= 0.15,     # False: the PSM level only (no peptide level file)
        extra=make_extra(rng),              # further collections of the same call, each with its own prefix
        score_extra=0,                      # entries the first collection's score array has more than its table has rows
        append=False,                       # the caller's append_to_output_file=True (result files = declared inputs)
    )


def make_observed(rng):
    """the run under observation: as `make_run`, plus the options only it gets -- a score array longer than the
    table (mostly with a chunk size dividing the row count: no length mismatch inside a written chunk, more paths
    merged than files written) and `append_to_output_file=True`"""
    run = make_run(rng, "obs")
    u = rng.random()
    if u < 0.12:
        run["score_extra"] = rng.choice([1, 2, 3, 5, 8])
        run["cconf_divides"] = rng.random() < 0.75
        if run["fmt"] == "parquet" and rng.random() < 0.7:
            run["fmt"] = "pin"          # (the hand-made stale chunk files are text)
    elif u < 0.27:
        run["append"] = True
    return run


# prefix arrangements of a call with several collections (first entry = the run's own `prefix` field)
PREFIX_PLANS = [
    ("plain-plain", [None, None]), ("pre-plain", ["a", None]), ("pre-pre", ["a", "b"]),
    ("pre-plain-plain", ["a", None, None]), ("same-prefix", ["a", "a"]), ("plain-pre", [None, "a"]),
    ("pre-plain-pre", ["b", None, "a"]), ("empty-plain", ["", None]),
]


def make_extra(rng):
    """with probability 0.35: a prefix plan for 2-3 collections; the rows of the extra collections come from their
    own seeds and sizes (so the numbers of chunk files differ between the collections)"""
    if rng.random() >= 0.35:
        return None
    name, prefixes = rng.choice(PREFIX_PLANS)
    return dict(plan=name, prefixes=prefixes,
                colls=[dict(data_seed=rng.randrange(1 << 30), n_spectra=rng.choice([8, 12, 20])) for _ in prefixes[1:]])


def run_prefixes(run):
    return list(run["extra"]["prefixes"]) if run.get("extra") else [run["prefix"]]


def run_levels(run):
    """names of the level files this run writes and removes, in the order of `levels_or_proteins`"""
    lv = ["psms"]
    if run.get("do_rollup", True):
        lv += ["peptides"] + [P.LEVEL_FILE[c] for c in run["levels"]]
    return lv + (["proteins"] if run.get("proteins") else [])


def execute(run, dest, workroot, crash=None):
    """one assign_confidence run (all its collections); returns the crash counter (ops performed, and `ks` = the
    number of chunk files of every collection computed from the row counts)"""
    import random

    specs = [dict(data_seed=run["data_seed"], n_spectra=run["n_spectra"])] + \
        (run["extra"]["colls"] if run.get("extra") else [])
    prefixes = run_prefixes(run)
    dfs = []
    for j, sp in enumerate(specs):
        r = random.Random(sp["data_seed"])
        dfs.append(mkdata.make_psm_table(
            r, n_spectra=sp["n_spectra"], max_per_spectrum=run["max_per"], n_feat=2, label_enc="pm1",
            optional=("ExpMass",), level_cols=tuple(run["levels"]), signal=3.0,
            **(dict(letter_peptides=True, n_peptides=12) if run.get("proteins") else {})))
    df = dfs[0]
    kw = {}
    if run.get("proteins"):
        import mokapot

        fasta = mkdata.make_fasta(12, 6, workroot / f"db-{run['tag']}.fasta")
        with contextlib.redirect_stdout(io.StringIO()), contextlib.redirect_stderr(io.StringIO()):
            kw = dict(proteins=mokapot.read_fasta(fasta, missed_cleavages=0, min_length=4), rng=1)
    if not run.get("do_rollup", True):
        kw["do_rollup"] = False
    if run.get("cconf_divides"):   # a chunk size that divides the row count exactly (no partial last chunk)
        divs = [c for c in range(2, len(df)) if len(df) % c == 0]
        if divs:
            run = dict(run, cconf=divs[run["data_seed"] % len(divs)])
    datasets = []
    for j, d in enumerate(dfs):
        inp = workroot / (f"in-{run['tag']}.{run['fmt']}" if j == 0 else f"in-{run['tag']}-{j}.{run['fmt']}")
        mkdata.write_table(d, inp)
        datasets.append(mkdata.read_dataset(inp))
    scores = [d["feat0"].values.astype(float) for d in dfs]
    if run.get("score_extra"):
        scores[0] = np.concatenate([scores[0], 0.5 + np.arange(run["score_extra"], dtype=float)])
    if run.get("append"):
        kw["append_to_output_file"] = True
    sizes = dict(chunk=run["cconf"], sizes=[(len(d), len(sc)) for d, sc in zip(dfs, scores)])
    with P.chunk_sizes(confidence=run["cconf"], merge=run["cmerge"]), P.pep_kernel(stub=True), crash_at(crash) as ctr:
        ctr["ks"] = [-(-len(d) // run["cconf"]) for d in dfs]
        ctr.update(sizes)
        try:
            P.run_assign_confidence(datasets, scores, dest, prefixes=prefixes,
                                    decoys=run["decoys"], deduplication=run["dedup"], **kw)
        except Exception as e:
            e.c09_sizes = sizes
            e.c09_ops = list(ctr["ops"])
            raise
    return ctr


def snapshot(d: Path):
    return {f.name: f.read_bytes() for f in sorted(d.iterdir()) if f.is_file()}


def gen_case(rng):
    hist = [make_run(rng, f"h{i}") for i in range(rng.choice([1, 1, 2, 3]))]
    case = dict(history=hist, observed=make_observed(rng),
                crash_fracs=[rng.choice([None, rng.random(), rng.random()]) for _ in hist],
                stale=rng.random() < 0.5,
                stale_kind=rng.choice(["junk", "level"]))   # content of the stale level files
    return case


JUNK = "SpecId\tLabel\tScanNr\tExpMass\tPeptide\tProteins\tscore\nstale\t1\t1\t1\tP\tQ\t9e9\n"


def stale_level_table(obs):
    """a well-formed level file (the columns `assign_confidence` writes into `{level}{ext}`) of some other run: if
    the observed run reads a level file it has not written itself, it reads this one without failing"""
    import random

    import pandas as pd

    df = mkdata.make_psm_table(random.Random(4711), n_spectra=10, max_per_spectrum=1, n_feat=1, label_enc="pm1",
                               optional=("ExpMass",), signal=3.0, letter_peptides=True, n_peptides=12)
    out = pd.DataFrame({"PSMId": ["stale_" + x for x in df["SpecId"]], "Label": df["Label"].values == 1,
                        "peptide": df["Peptide"].values})
    for c in obs["levels"]:
        out[c] = ["stale"] * len(df)
    out["proteinIds"] = df["Proteins"].values
    out["score"] = df["feat0"].values.astype(float) + 1e7
    return out


def stale_files(case, dest: Path):
    """hand-made leftovers carrying the names of the observed run's own intermediates and result files (for every
    prefix of its collections)"""
    obs = case["observed"]
    ext = "." + obs["fmt"]
    names = []
    for prefix in dict.fromkeys(run_prefixes(obs)):
        pre = f"{prefix}." if prefix else ""
        names += [f"{pre}scores_metadata_{i}{ext}" for i in list(range(0, 45)) + [99]]
        names += [f"{pre}targets.psms", f"{pre}decoys.peptides", f"{pre}targets.peptides", f"{pre}targets.proteins"]
    for nm in names:
        (dest / nm).write_text(JUNK)
    level_names = [f"psms{ext}", f"peptides{ext}", f"proteins{ext}"]
    if case.get("stale_kind") == "level":
        tab = stale_level_table(obs)
        for nm in level_names:
            mkdata.write_table(tab, dest / nm)
    else:
        for nm in level_names:
            (dest / nm).write_text(JUNK)
    return names + level_names


def prefix_ids(prefixes):
    """prefix strings -> what the driver expects: `none` for no prefix (None or ""), else a number per distinct prefix"""
    ids = {}
    out = []
    for pf in prefixes:
        out.append(Atom("none") if not pf else ids.setdefault(pf, len(ids)))
    return out, ids


def run_nl(run):
    return len(run_levels(run)) - (1 if run.get("proteins") else 0)


def model_args(run, ks):
    ids, _ = prefix_ids(run_prefixes(run))
    ks = list(ks) or [1] * len(ids)
    return (bool(run.get("proteins")), run_nl(run), bool(run["decoys"]), bool(run.get("append")),
            [[i, k] for i, k in zip(ids, ks)])


def sized_args(run, info):
    """arguments of the driver ops fssized / fswellinitsized / fslistsized: the collections by their sizes (rows of
    the table, length of the score array) and CONFIDENCE_CHUNK_SIZE -- the Lean model computes the chunk counts"""
    ids, _ = prefix_ids(run_prefixes(run))
    return (bool(run.get("proteins")), run_nl(run), bool(run["decoys"]), bool(run.get("append")), int(info["chunk"]),
            [[i, int(r), int(sc)] for i, (r, sc) in zip(ids, info["sizes"])])


def model_sized(run, info):
    """what the sized Lean model says about this call: verdict (`ok` / `reject-valueerror` / `reject-lengths` /
    `reject-scores` = more score chunks than table chunks, refused before the merge),
    wellInit of its operation list, `fit` (no collection has more score chunks than table chunks), and per collection
    (paths merged, files written)"""
    a = sized_args(run, info)
    r = common.driver_batch([req("fswellinitsized", *a), req("fssizedfit", a[4], a[5])])
    w = r[0].strip()
    fit = dec(r[1])
    return dict(verdict=w if w.startswith("reject") else "ok", wellinit=(w == "T"), fit=(fit[0] == "T"),
                counts=[(int(m), int(x)) for m, x in fit[1]])


def real_verdict(err, wrote):
    if err is None:
        return "ok"
    if err.startswith("ValueError") and not wrote:
        return "reject-valueerror"
    if err.startswith("ValueError") and "does not match length" in err:
        return "reject-lengths"
    if err.startswith("ValueError") and "number of scores does not match" in err:
        return "reject-scores"
    return "failed"


def result_names(run):
    names = []
    for prefix in dict.fromkeys(run_prefixes(run)):
        pre = f"{prefix}." if prefix else ""
        for ln in run_levels(run):
            names.append(f"{pre}targets.{ln}")
            if run["decoys"]:
                names.append(f"{pre}decoys.{ln}")
    return names


def declared_results(run):
    """append_to_output_file=True: the result files found in the destination are inputs of the call (about two
    thirds of the names exist, the others are created by the run)"""
    out = {}
    for i, nm in enumerate(result_names(run)):
        if (run["data_seed"] + i) % 3:
            out[nm] = f"EXISTING RESULTS {nm}\nrow\t{i}\n".encode()
    return out


def plant_declared(run, dest):
    """make the declared inputs of an appending run the same in every directory it is run in"""
    decl = declared_results(run)
    for nm in result_names(run):
        f = dest / nm
        if nm in decl:
            f.write_bytes(decl[nm])
        elif f.exists():
            f.unlink()
    return decl


def model_refuses(run, ks):
    """does the Lean model refuse the call (`assignOps … = none`: proteins without a peptide level)?"""
    return common.driver_batch([req("fsprogx", *model_args(run, ks))])[0].strip() == "reject-valueerror"


def model_predicts_dependence(run, ks):
    """does the Lean model reject the operation list of this run (`wellInit [] … = false`)?  returns a short reason,
    or None when the model says the run cannot depend on leftovers (then a violation is a surprise for the model too)"""
    if run.get("append"):      # the result files are declared inputs: `wellInit []` is not the question asked
        return None
    resp = common.driver_batch([req("fswellinitx", *model_args(run, ks))])[0]
    if resp.strip() != "F":
        return None
    if run.get("proteins") and run_nl(run) < 2:
        return "protein-level-without-peptide-level"
    return "result-files-not-initialised"


def run_case(chk, case, enumerate_all=False):
    with P.workdir() as root:
        clean = root / "clean"; clean.mkdir()
        dirty = root / "dirty"; dirty.mkdir()
        obs = case["observed"]
        clean_err = None
        info = None                      # sizes of the observed run's collections and its chunk size
        declared = plant_declared(obs, clean) if obs.get("append") else {}
        clean_exc = None
        try:
            ctr0 = execute(obs, clean, root)
            obs_ks, info = ctr0["ks"], dict(chunk=ctr0["chunk"], sizes=ctr0["sizes"])
        except Exception as e:
            # the property promises nothing for this run by itself -- but it must then fail in the dirty directory too
            chk.reject("observed-run-fails-in-clean-dir:" + type(e).__name__)
            clean_err, obs_ks, info = f"{type(e).__name__}: {e}"[:200], [], getattr(e, "c09_sizes", None)
            clean_exc = e
        wrote_clean = sorted(n for n in snapshot(clean) if n not in declared)
        # the model refuses exactly the calls the real code refuses with a ValueError before writing anything
        refused_real = clean_err is not None and clean_err.startswith("ValueError") and not wrote_clean
        if not obs.get("score_extra") and model_refuses(obs, obs_ks) != refused_real:
            chk.corr_break("fsprogx-accepts", dict(case=case, model_refuses=not refused_real, impl_error=clean_err,
                                                   impl_wrote=wrote_clean))
        # the sized model (chunk counts computed in Lean from the table and score lengths): same refusals, for the
        # same reason; when it says that more chunk files are merged than written, the clean run must miss a file
        sized = model_sized(obs, info) if info else None
        if sized is not None:
            rv = real_verdict(clean_err, wrote_clean)
            chk.count("sized_model", f"{sized['verdict']} fit={sized['fit']} real={rv}")
            ok = (sized["verdict"] == rv) if (sized["verdict"] != "ok" or rv.startswith("reject")) else True
            if ok and sized["verdict"] == "ok":
                ok = sized["fit"] and (sized["counts"] == [(k, k) for k in obs_ks] if obs_ks else True)
            if ok and sized["verdict"] == "reject-scores":
                ok = not sized["fit"]
            if not ok:
                chk.corr_break("fssized-accepts", dict(case=case, model=sized, impl_error=clean_err,
                                                       impl_wrote=wrote_clean))
            elif sized["verdict"] == "reject-scores":
                # the refusal itself: what the real run did up to its ValueError (per-file life cycle, files left in
                # the clean directory) is what the Lean model `runOpsChecked` says: result files initialised, the
                # chunk files written and removed again, nothing merged
                ext = "." + obs["fmt"]
                _, ids = prefix_ids(run_prefixes(obs))
                canon = lambda f: canon_name_x(f, ext, run_levels(obs), ids)    # noqa: E731
                rr = common.driver_batch([req("fssizedrefused", *sized_args(obs, info)),
                                          req("fslistrefused", *sized_args(obs, info),
                                              [[Atom(a), i] for a, i in sorted({canon(f) for f in declared})])])
                completed, ops_model = dec(rr[0])
                one_piece = {("level", run_nl(obs))} if obs.get("proteins") else set()
                real_lc = life_cycles_real(getattr(clean_exc, "c09_ops", []), canon, one_piece)
                model_lc = life_cycles_model(enc_ops(ops_model))
                real_after = sorted({canon(f) for f in snapshot(clean) if not canon(f)[0].startswith("other")})
                model_after = sorted((it[0], int(it[1])) for it in dec(rr[1]))
                if completed != "F" or real_lc != model_lc or real_after != model_after:
                    chk.corr_break("fssizedrefused", dict(
                        case=case, completed=completed,
                        differing_files={str(n): (real_lc.get(n), model_lc.get(n)) for n in set(real_lc) | set(model_lc)
                                         if real_lc.get(n) != model_lc.get(n)},
                        only_model=[x for x in model_after if x not in real_after][:20],
                        only_impl=[x for x in real_after if x not in model_after][:20]))
        if clean_err is not None and (enumerate_all or not (case["stale"] or case["history"])):
            return
        ref = snapshot(clean)
        if obs.get("append") and clean_err is None:
            # independent reading of "append": every result file = what was there + the rows the same call writes
            # into a fresh directory without the option (its header line dropped)
            pfs = [pf for pf in run_prefixes(obs) if pf]
            if len(pfs) == len(set(pfs)):
                plain = root / "plain"; plain.mkdir()
                try:
                    execute(dict(obs, append=False), plain, root)
                    fresh = snapshot(plain)
                    for nm in result_names(obs):
                        want = declared.get(nm, b"") + fresh.get(nm, b"\n").split(b"\n", 1)[1]
                        if ref.get(nm) != want:
                            chk.spec_violation("append:result-file-is-not-existing-content-plus-new-rows",
                                               dict(case=case, clause=f"append_to_output_file=True: {nm} is not its "
                                                    "earlier content followed by the rows of this run",
                                                    got=ref.get(nm, b"<absent>")[:300].decode(errors="replace"),
                                                    expected=want[:300].decode(errors="replace")))
                            return
                except Exception as e:
                    chk.reject("append-reference-run-failed:" + type(e).__name__)
        # total operation counts of the history runs (to place the crash point)
        plans = []
        for h, frac in zip(case["history"], case["crash_fracs"]):
            plans.append((h, frac))
        crash_points = [None]
        if enumerate_all:
            probe = root / "probe"; probe.mkdir()
            try:
                n_ops = execute(case["history"][0], probe, root)["n"]
            except Exception:
                n_ops = 0
            crash_points = list(range(1, n_ops + 1)) + [None]
        for cp in crash_points:
            for f in dirty.iterdir():
                f.unlink() if f.is_file() else shutil.rmtree(f)
            debris_ops = []
            for idx, (h, frac) in enumerate(plans):
                k = None
                if enumerate_all and idx == 0:
                    k = cp
                elif frac is not None:
                    tmp = root / f"probe{idx}"
                    shutil.rmtree(tmp, ignore_errors=True); tmp.mkdir()
                    try:
                        total = execute(h, tmp, root)["n"]
                    except Exception:
                        total = 0
                    k = max(1, int(frac * total)) if total else None
                try:
                    ctr = execute(h, dirty, root, crash=k)
                    debris_ops.append((h["tag"], "completed", ctr["n"]))
                except Crash as e:
                    debris_ops.append((h["tag"], str(e), k))
                except Exception as e:
                    debris_ops.append((h["tag"], "failed:" + type(e).__name__, k))
            if clean_err is not None:    # leftovers a run could read without failing: well-formed level files
                case = dict(case, stale=True, stale_kind="level")
            stale = stale_files(case, dirty) if case["stale"] else []
            if obs.get("append"):        # the declared inputs are the same in both directories
                plant_declared(obs, dirty)
            before = snapshot(dirty)
            ops_dirty = []
            try:
                ops_dirty = execute(obs, dirty, root)["ops"]
                after = snapshot(dirty)
                err = None
            except Exception as e:
                after, err = snapshot(dirty), f"{type(e).__name__}: {e}"[:200]
            key = (json.dumps(case["observed"], sort_keys=True), tuple(map(str, debris_ops)), case["stale"])
            chk.case(None, key if before else None,
                     sample=dict(observed={k: str(v) for k, v in obs.items()}, debris=[str(x) for x in debris_ops],
                                 dirty_before=sorted(before)[:12]))
            chk.count("history_len", len(plans)); chk.count("stale_files", case["stale"])
            chk.count("protein_level", bool(obs.get("proteins")))
            chk.count("debris", "crashed" if any("injected" in str(o[1]) for o in debris_ops) else "completed")
            chk.count("collections", len(run_prefixes(obs)))
            chk.count("prefix_plan", obs["extra"]["plan"] if obs.get("extra") else "single")
            chk.count("do_rollup", bool(obs.get("do_rollup", True)))
            chk.count("append_to_output_file", bool(obs.get("append")))
            chk.count("score_array", "as long as the table" if not obs.get("score_extra") else
                      ("longer, chunk size divides the rows" if info and info["sizes"][0][0] % info["chunk"] == 0
                       else "longer, last chunk partial"))
            if case["stale"]:
                chk.count("stale_kind", case.get("stale_kind", "junk"))
            clause = None
            if clean_err is not None:
                if err is None:
                    clause = ("the run fails in a clean directory but succeeds next to leftovers, so its results are "
                              f"computed from them: clean run: {clean_err}")
            elif err:
                clause = f"the run succeeds in a clean directory but fails in the dirty one: {err}"
            else:
                for name, content in ref.items():
                    if after.get(name) != content:
                        clause = f"result file {name} differs between the dirty and the clean directory"
                        break
                if clause is None:
                    ext = "." + obs["fmt"]
                    # this run's own intermediates: chunk files it wrote and the level files
                    own_chunk = {n for n in after if "scores_metadata_" in n and n not in before}
                    # ... and every chunk file name of this run's index range, whether or not a stale file of that
                    # name was there before (the run truncates and unlinks it)
                    for prefix, k in zip(run_prefixes(obs), obs_ks):
                        pre = f"{prefix}." if prefix else ""
                        own_chunk |= {n for n in after if n in [f"{pre}scores_metadata_{i}{ext}" for i in range(k)]}
                    own_levels = run_levels(obs)
                    left = sorted(n for n in after if n in [f"{ln}{ext}" for ln in own_levels])
                    # a level file that was stale before and is still there unchanged was deleted-by-name: the run
                    # truncates and later unlinks psms.<ext>/peptides.<ext>, so none may remain
                    if own_chunk or left:
                        clause = f"intermediate files remain after a successful run: {sorted(own_chunk) + left}"
                    extra = sorted(set(after) - set(before) - set(ref))
                    if clause is None and extra:
                        clause = f"files appear that a clean run does not produce: {extra}"
            if clause is None and err is None and clean_err is None:
                # the listing the Lean model predicts (`exec` of the operation list on a directory holding the names
                # that were there before) vs the real listing, on the names the model knows
                ext = "." + obs["fmt"]
                _, ids = prefix_ids(run_prefixes(obs))
                canon = lambda f: canon_name_x(f, ext, run_levels(obs), ids)    # noqa: E731
                known_before = sorted({canon(f) for f in before if not canon(f)[0].startswith("other")})
                real_after = sorted({canon(f) for f in after if not canon(f)[0].startswith("other")})
                names_arg = [[Atom(k), i] for k, i in known_before]
                reqs = [req("fslistx", *model_args(obs, obs_ks), names_arg)]
                if info:
                    reqs.append(req("fslistsized", *sized_args(obs, info), names_arg))
                resps = common.driver_batch(reqs)
                chk.count("listing_names_before", min(len(known_before) // 10 * 10, 100))
                for op, resp in zip(("fslistx", "fslistsized"), resps):
                    model_after = sorted((it[0], int(it[1])) for it in dec(resp)) if resp.strip().startswith("[") else resp
                    if model_after != real_after:
                        if isinstance(model_after, str):     # the model refuses a run the real code completed
                            chk.corr_break(op, dict(case=case, crash_point=cp, model=model_after,
                                                    only_impl=real_after[:20]))
                            return
                        chk.corr_break(op, dict(case=case, crash_point=cp,
                                                only_model=[x for x in model_after if x not in real_after][:20],
                                                only_impl=[x for x in real_after if x not in model_after][:20]))
                        return
            predicted = None
            if clause and clean_err is not None and err is None and sized and not sized["fit"] \
                    and sized["verdict"] in ("ok", "reject-scores"):
                # more score chunks than table chunks and the run gets through next to leftovers: the behaviour
                # before the repair of F4 (Lean: `assignOpsSizedOld`, `C09_short_table_rejected`)
                predicted = "more-score-chunks-than-table-chunks"
            if clause:
                sig = "leftovers:" + clause.split(":")[0][:40]
                predicted = predicted or model_predicts_dependence(obs, obs_ks)
                if predicted:        # the Lean model of the code as it is rejects this operation list (wellInit = F)
                    sig = "leftovers:" + predicted
                chk.spec_violation(sig, dict(case=case, crash_point=cp, debris=[str(x) for x in debris_ops],
                                             clause=clause, model_rejects_this_run=predicted))
                return


def cli_case(chk, rng):
    """the CLI verify step next to a stale <pin>.tsv"""
    mk = P.mod("mokapot.mokapot")
    with P.workdir() as root:
        pin = root / "x.pin"
        rows = ["SpecId\tLabel\tScanNr\tExpMass\tfeat\tPeptide\tProteins"]
        for i in range(rng.choice([4, 9])):
            prots = "\t".join(f"P{j}" for j in range(rng.randint(1, 3)))
            rows.append(f"s{i}\t{1 if i % 2 else -1}\t{i}\t{100 + i}\t{i * 3}\tPEP{i}K\t{prots}")
        original = "\n".join(rows) + "\n"
        pin.write_text(original)
        stale = rng.random() < 0.8
        if stale:
            (root / "x.pin.tsv").write_text("STALE LEFTOVER OF AN INTERRUPTED RUN\n")
        from mokapot.parsers.pin_to_tsv import pin_to_valid_tsv
        exp = io.StringIO()
        pin_to_valid_tsv(f_in=io.StringIO(original), f_out=exp)
        try:
            with contextlib.redirect_stdout(io.StringIO()), contextlib.redirect_stderr(io.StringIO()):
                mk.main([str(pin), "--dest_dir", str(root / "out"), "--max_iter", "1", "--folds", "2"])
        except BaseException:
            pass  # the analysis of a 4-row table is expected to fail; the verify step has run by then
        got = pin.read_text()
        chk.case(None, ("cli", original, stale), sample=dict(cli_stale_tsv=stale, rows=len(rows) - 1))
        chk.count("cli-verify", "stale" if stale else "clean")
        if got == original:
            chk.reject("cli-verify-step-did-not-run")
        elif got != exp.getvalue():
            chk.spec_violation("input-mixed-with-leftover",
                               dict(clause="the user's PIN was replaced by content that is not the conversion of the "
                                           "PIN alone", got=got[:300], expected=exp.getvalue()[:300], stale=stale))
        elif (root / "x.pin.tsv").exists():
            chk.spec_violation("cli-temp-left", dict(clause="<pin>.tsv remains after the verify step"))


LEVEL_NAMES = ["psms", "peptides", "modifiedpeptides", "precursors", "peptidegroups"]


def canon_name(fname, ext):
    """file name of a real run -> model name (kind, index)"""
    base = fname.split(".", 1)[1] if fname.split(".")[0] in ("a", "b") and "." in fname else fname
    if "scores_metadata_" in base:
        return ("chunk", int(base.split("scores_metadata_")[1].split(".")[0]))
    for l, ln in enumerate(LEVEL_NAMES):
        if base == f"{ln}{ext}":
            return ("level", l)
        if base == f"targets.{ln}":
            return ("target", l)
        if base == f"decoys.{ln}":
            return ("decoy", l)
    return ("other", 0)


def canon_name_x(fname, ext, levels, ids, root=""):
    """file name of a real run with several collections / the protein level -> model name (kind, index);
    `levels` = names of `levels_or_proteins` in order, `ids` = prefix string -> prefix number"""
    name = fname[len(root):] if root and fname.startswith(root) else fname
    pfx = None
    head = name.split(".", 1)[0]
    if head in ids and "." in name:
        pfx, name = ids[head], name.split(".", 1)[1]
    p = "" if pfx is None else str(pfx)
    if name.startswith("scores_metadata_") and name.endswith(ext) and \
            name[len("scores_metadata_"):len(name) - len(ext)].isdigit():
        return (("pchunk" + p) if p else "chunk", int(name[len("scores_metadata_"):len(name) - len(ext)]))
    for l, ln in enumerate(levels):
        if name == f"{ln}{ext}" and pfx is None:
            return ("level", l)
        if name == f"targets.{ln}":
            return (("ptarget" + p) if p else "target", l)
        if name == f"decoys.{ln}":
            return (("pdecoy" + p) if p else "decoy", l)
    return ("other:" + fname, 0)


WRITE_KIND = {"initialize": "trunc", "append_data": "append", "write": "trunc", "unlink": "unlink"}


def life_cycles_real(labels, canon, one_piece=()):
    """traced file operations -> per-file sequence of trunc / append / unlink (/ moved / replaced); several appended
    batches count as one append; `writer.write(df)` (initialize + append) on a file whose kind is in `one_piece`
    counts as one truncating write, as in the model"""
    real = {}
    for label in labels:
        op, fname = label.split(":", 1)
        if op == "move":
            src, dst = fname.split("->")
            real.setdefault(canon(src), []).append("moved")
            real.setdefault(canon(dst), []).append("replaced")
            continue
        kind = WRITE_KIND.get(op.split(".")[-1])
        if kind is None:
            continue
        nm = canon(fname)
        seq = real.setdefault(nm, [])
        if kind in ("append", "unlink") and seq and seq[-1] == kind:
            continue                      # Path.unlink is seen a second time through os.unlink
        if kind == "append" and nm in one_piece and seq and seq[-1] == "trunc":
            continue
        if kind == "append" and nm[0].rstrip("0123456789") in ("chunk", "pchunk") and seq and seq[-1] == "trunc":
            continue                      # writer.write(df) = initialize + append = one `trunc` with data
        seq.append(kind)
    return real


def enc_ops(ops):
    """a decoded operation list back into the line format `life_cycles_model` reads"""
    return "[" + " ".join("[" + " ".join(map(str, op)) + "]" for op in ops) + "]"


def life_cycles_model(resp):
    model = {}
    for item in dec(resp):
        if item[0] in ("read", "glob"):
            continue
        if item[0] == "move":
            model.setdefault((item[1], int(item[2])), []).append("moved")
            model.setdefault((item[3], int(item[4])), []).append("replaced")
            continue
        seq = model.setdefault((item[1], int(item[2])), [])
        if item[0] == "append" and seq and seq[-1] == "append":
            continue                      # appends of consecutive collections to one result file
        seq.append(item[0])
    return model


def model_listing(chk, rng):
    """correspondence with the Lean FsRun model: the per-file life cycle (truncate, append*, unlink) of every
    file touched by a real assign_confidence run equals the one of the model's operation list `fsprog k nl decoys`;
    runs with several collections, without roll-up or with the protein level are compared with `fsprogx`"""
    for it in range(3 if chk.tier == "quick" else 12):
        run = make_run(rng, "trace")
        if it == 0:
            run = dict(run, proteins=True, do_rollup=True)      # every tier traces the protein level at least once
        if it == 1:
            run = dict(run, append=True)                        # ... and the caller's append_to_output_file=True
        general = bool(run.get("extra")) or bool(run.get("proteins")) or not run.get("do_rollup", True) \
            or bool(run.get("append"))
        with P.workdir() as root:
            dest = root / "d"; dest.mkdir()
            try:
                ctr = execute(run, dest, root)
            except Exception as e:
                if isinstance(e, ValueError) and model_refuses(run, []) and not snapshot(dest):
                    chk.case(None, ("fsprogx-refused", run_nl(run)), sample=dict(refused=str(e)[:80]))
                    chk.count("trace_x", "refused: proteins without peptide level")
                else:
                    chk.reject("trace-run-failed:" + type(e).__name__)
                continue
            ext = "." + run["fmt"]
            if not general:
                real = {}
                for label in ctr["ops"]:
                    op, fname = label.split(":", 1)
                    kind = {"initialize": "trunc", "append_data": "append", "write": "trunc", "unlink": "unlink"}.get(
                        op.split(".")[-1])
                    if kind is None:
                        continue
                    nm = canon_name(fname, ext)
                    seq = real.setdefault(nm, [])
                    if kind in ("append", "unlink") and seq and seq[-1] == kind:
                        continue                      # several appended batches = one append in the model;
                                                      # Path.unlink is seen a second time through os.unlink
                    if kind == "append" and nm[0] == "chunk" and seq == ["trunc"]:
                        continue                      # writer.write(df) = initialize + append = one `trunc` with data
                    seq.append(kind)
                k = sum(1 for nm in real if nm[0] == "chunk")
                nl = sum(1 for nm in real if nm[0] == "level")
                resp = common.driver_batch([req("fsprog", k, nl, run["decoys"])])[0]
                model = {}
                for item in dec(resp):
                    if item[0] == "read":
                        continue
                    model.setdefault((item[1], int(item[2])), []).append(item[0])
                chk.case(None, ("fsprog", k, nl, run["decoys"]), sample=dict(trace_files=len(real), k=k, nl=nl))
                chk.count("trace", f"k={k} nl={nl}")
                if real != model:
                    diff = {str(n): (real.get(n), model.get(n)) for n in set(real) | set(model) if real.get(n) != model.get(n)}
                    chk.corr_break("fsprog", dict(run=run, k=k, nl=nl, differing_files=diff, ops=ctr["ops"][:60]))
                # the general operation list must say the same for this run (collOps_base on the wire)
            levels = run_levels(run)
            prot, nl = bool(run.get("proteins")), run_nl(run)
            pids, ids = prefix_ids(run_prefixes(run))
            one_piece = {("level", nl)} if prot else set()
            realx = life_cycles_real(ctr["ops"], lambda f: canon_name_x(f, ext, levels, ids), one_piece)
            colls = [[i, k] for i, k in zip(pids, ctr["ks"])]
            app = bool(run.get("append"))
            resps = common.driver_batch([req("fsprogx", prot, nl, run["decoys"], app, colls),
                                         req("fssized", *sized_args(run, ctr))])
            modelx = life_cycles_model(resps[0])
            chk.case(None, ("fsprogx", prot, nl, run["decoys"], app, str(colls)),
                     sample=dict(trace_files=len(realx), prot=prot, nl=nl, colls=str(colls), append=app))
            chk.count("trace_x", f"prot={prot} nl={nl} colls={len(colls)} plan="
                      + (run["extra"]["plan"] if run.get("extra") else "single") + (" append" if app else ""))
            if realx != modelx:
                diff = {str(n): (realx.get(n), modelx.get(n)) for n in set(realx) | set(modelx)
                        if realx.get(n) != modelx.get(n)}
                chk.corr_break("fsprogx", dict(run=run, prot=prot, nl=nl, colls=str(colls), differing_files=diff,
                                               ops=ctr["ops"][:80]))
            # the same from the sizes alone (rows, scores, chunk size): the Lean model computes the chunk counts
            models = life_cycles_model(resps[1]) if resps[1].strip().startswith("[") else resps[1]
            if realx != models:
                chk.corr_break("fssized", dict(run=run, sizes=ctr["sizes"], chunk=ctr["chunk"],
                                               model=str(models)[:400], ops=ctr["ops"][:80]))


def rollup_history_case(chk, rng):
    """the stand-alone roll-up tool run twice in one directory (source = destination, its default): the second
    run, on other inputs, must give what a run in a fresh directory gives — its own earlier outputs are leftovers"""
    import random
    BR = P.mod("mokapot.brew_rollup")

    def results_for(tag, seed, root, dest, prefix):
        r = random.Random(seed)
        df = mkdata.make_psm_table(r, n_spectra=20 + seed % 16, max_per_spectrum=2, n_feat=2, label_enc="pm1",
                                   optional=("ExpMass",), signal=3.0)
        df["SpecId"] = [f"{tag}_{i}" for i in range(len(df))]
        df["Peptide"] = [f"{tag}{p}" for p in df["Peptide"]]       # experiments have their own peptides
        ds = mkdata.read_dataset(mkdata.write_table(df, root / f"in-{tag}.pin"))
        with P.pep_kernel(stub=True):
            P.run_assign_confidence([ds], [df["feat0"].values.astype(float) * 8 + "abc".index(tag)], dest,
                                    prefixes=[prefix], decoys=True, do_rollup=True)

    def rollup(d):
        with contextlib.redirect_stdout(io.StringIO()), contextlib.redirect_stderr(io.StringIO()), \
                P.pep_kernel(stub=True):
            # base level "peptide": the tool's own outputs (roll.targets.peptides) match its input pattern
            BR.main(["--level", "peptide", "-s", str(d), "-d", str(d), "-r", "roll"])

    seeds = {t: rng.randrange(1 << 30) for t in "abc"}
    with P.workdir() as root:
        dirty = root / "dirty"; dirty.mkdir(); clean = root / "clean"; clean.mkdir()
        try:
            results_for("a", seeds["a"], root, dirty, "a"); results_for("b", seeds["b"], root, dirty, "b")
            rollup(dirty)                                    # earlier run: inputs a, b
            for f in dirty.glob("b.*"):
                f.unlink()
            results_for("c", seeds["c"], root, dirty, "c")
            rollup(dirty)                                    # observed run: inputs a, c (roll.* of the earlier run present)
            results_for("a", seeds["a"], root, clean, "a"); results_for("c", seeds["c"], root, clean, "c")
            rollup(clean)
        except SystemExit:
            chk.reject("rollup-exit"); return
        except Exception as e:
            chk.reject("rollup-history-failed:" + type(e).__name__); return
        chk.case(None, ("rollup-history", tuple(seeds.values())), sample=dict(rollup_history=True))
        chk.count("rollup-history", "run")
        a, b = snapshot(dirty), snapshot(clean)
        for name in sorted(b):
            if name.startswith("roll.") and "temp" not in name and a.get(name) != b[name]:
                chk.spec_violation("rollup-leftovers",
                                   dict(clause=f"roll-up result {name} differs between a directory holding the results of "
                                               "an earlier roll-up and a fresh directory", seeds=seeds))
                return


ROLL_ID = 9          # the number standing for the roll-up tool's file_root on the wire


def rollup_trace_case(chk, rng):
    """the roll-up tool, source = destination, next to stale temporary and result files of its own: (a) per-file life
    cycle vs the Lean operation list `fsrollup`, (b) results equal those of a run in a directory holding only the
    inputs, (c) directory listing: none of the tool's intermediates remains"""
    import random
    BR = P.mod("mokapot.brew_rollup")
    base = rng.choice(["psm", "peptide"])
    tags = rng.choice([("a", "b"), ("a", "b", "c"), ("b",)])
    seeds = {t: rng.randrange(1 << 30) for t in "abc"}
    old_tag = ([t for t in "abc" if t not in tags] or [None])[0]
    stale_kind = rng.choice(["junk", "old-run"]) if old_tag else "junk"

    def results_for(tag, root, dest):
        r = random.Random(seeds[tag])
        df = mkdata.make_psm_table(r, n_spectra=14 + seeds[tag] % 10, max_per_spectrum=2, n_feat=2, label_enc="pm1",
                                   optional=("ExpMass",), signal=3.0)
        df["SpecId"] = [f"{tag}_{i}" for i in range(len(df))]
        df["Peptide"] = [f"{tag}{x}" for x in df["Peptide"]]
        ds = mkdata.read_dataset(mkdata.write_table(df, root / f"in-{tag}.pin"))
        with P.pep_kernel(stub=True):
            P.run_assign_confidence([ds], [df["feat0"].values.astype(float) * 8 + "abc".index(tag)], dest,
                                    prefixes=[tag], decoys=True, do_rollup=True)

    def rollup(d):
        with contextlib.redirect_stdout(io.StringIO()), contextlib.redirect_stderr(io.StringIO()), \
                P.pep_kernel(stub=True), crash_at(None) as ctr:
            BR.main(["--level", base, "-s", str(d), "-d", str(d), "-r", "roll"])
        return ctr

    with P.workdir() as root:
        dirty = root / "dirty"; dirty.mkdir(); clean = root / "clean"; clean.mkdir()
        try:
            for t in tags:
                results_for(t, root, dirty); results_for(t, root, clean)
            if stale_kind == "old-run":          # a complete earlier roll-up over one more experiment
                results_for(old_tag, root, dirty)
                rollup(dirty)
                for f in dirty.glob(f"{old_tag}.*"):
                    f.unlink()
            for nm in ("roll.temp.peptides", "roll.temp.psms", "roll.targets.peptides", "roll.decoys.peptides",
                       "roll.targets.psms"):
                if stale_kind == "junk" or not (dirty / nm).exists():
                    (dirty / nm).write_text("psm_id\tpeptide\tscore\tproteinIds\tis_decoy\nstale\tSTALEK\t9e9\tP\tFalse\n")
            before = snapshot(dirty)
            ctr = rollup(dirty)
            rollup(clean)
        except SystemExit:
            chk.reject("rollup-exit"); return
        except Exception as e:
            chk.reject("rollup-trace-failed:" + type(e).__name__); return
        a, b = snapshot(dirty), snapshot(clean)
        chk.case(None, ("rollup-trace", base, tags, tuple(seeds.values()), stale_kind),
                 sample=dict(rollup_trace=True, base=base, inputs=list(tags), stale=stale_kind))
        chk.count("rollup-trace", f"base={base} inputs={len(tags)} stale={stale_kind}")
        # (b) results
        for name in sorted(b):
            if name.startswith("roll.") and ".temp." not in name and a.get(name) != b[name]:
                chk.spec_violation("rollup-leftovers",
                                   dict(clause=f"roll-up result {name} differs between a directory holding stale files "
                                               "of the tool itself and a directory holding only the inputs",
                                        base=base, tags=tags, seeds=seeds, stale_kind=stale_kind))
                return
        inputs_changed = [n for n in before if not n.startswith("roll.") and a.get(n) != before[n]]
        if inputs_changed:
            chk.spec_violation("rollup-inputs-changed", dict(clause=f"the tool changed its inputs: {inputs_changed}",
                                                             base=base, tags=tags, seeds=seeds))
            return
        # (a) life cycles
        lv = ["psms", "peptides"]
        base_idx = {"psm": 0, "peptide": 1}[base]

        def canon(fname):
            for l, ln in enumerate(lv):
                if fname == f"roll.temp.{ln}":
                    return (f"temp{ROLL_ID}", l)
                if fname == f"roll.targets.{ln}":
                    return (f"ptarget{ROLL_ID}", l)
                if fname == f"roll.decoys.{ln}":
                    return (f"pdecoy{ROLL_ID}", l)
            return ("other:" + fname, 0)
        out_names = {(f"ptarget{ROLL_ID}", l) for l in range(len(lv))} | {(f"pdecoy{ROLL_ID}", l) for l in range(len(lv))}
        real = life_cycles_real(ctr["ops"], canon, one_piece=out_names)
        levels = sorted({nm[1] for nm in real if nm[0].startswith("temp")})
        # (c) listing: the temporary files are intermediates of this run
        left = sorted(n for n in a if n.startswith("roll.temp.") and canon(n) in real)
        if left:
            chk.spec_violation("rollup-intermediate-files-remain",
                               dict(clause=f"intermediate files of the roll-up tool remain after a successful run: {left}",
                                    base=base, tags=tags, seeds=seeds, stale_kind=stale_kind))
            return
        model = life_cycles_model(common.driver_batch([req("fsrollup", ROLL_ID, base_idx, levels)])[0])
        if real != model:
            diff = {str(n): (real.get(n), model.get(n)) for n in set(real) | set(model) if real.get(n) != model.get(n)}
            chk.corr_break("fsrollup", dict(base=base, tags=tags, levels=levels, differing_files=diff, ops=ctr["ops"][:40]))


SQL_TABLES = ("CANDIDATE", "PEPTIDE_VALIDATION", "MODIFIED_PEPTIDE_VALIDATION")


def make_result_db(path, spec_ids):
    """a result database as `sqlite_path=` expects it: the tables exist, one CANDIDATE row per PSM; it is an input of
    the run too (the rows that are there stay), so one earlier row is put into a level table"""
    import sqlite3

    con = sqlite3.connect(path)
    con.execute("CREATE TABLE CANDIDATE (CANDIDATE_ID TEXT PRIMARY KEY, PSM_FDR REAL, SVM_SCORE REAL, "
                "POSTERIOR_ERROR_PROBABILITY REAL)")
    con.execute("CREATE TABLE PEPTIDE_VALIDATION (PEPTIDE_ID TEXT, FDR REAL, PEP REAL, SVM_SCORE REAL)")
    con.execute("CREATE TABLE MODIFIED_PEPTIDE_VALIDATION (MODIFIED_PEPTIDE_ID TEXT, FDR REAL, PEP REAL, "
                "SVM_SCORE REAL)")
    con.executemany("INSERT INTO CANDIDATE (CANDIDATE_ID) VALUES(?)", [(str(i),) for i in spec_ids])
    con.execute("INSERT INTO PEPTIDE_VALIDATION VALUES('EARLIER-ROW', 0.5, 0.25, 1.0)")
    con.commit(); con.close()


def dump_result_db(path):
    import sqlite3

    con = sqlite3.connect(path)
    try:
        return {t: sorted(map(repr, con.execute(f"SELECT * FROM {t}").fetchall())) for t in SQL_TABLES}
    finally:
        con.close()


@contextlib.contextmanager
def trace_sqlite(counter):
    """record the statements sent to the result database as one more traced file operation"""
    cw = P.mod("mokapot.confidence_writer")
    orig = cw.ConfidenceSqliteWriter.append_data

    def m(self, data):
        counter["ops"].append(f"ConfidenceSqliteWriter.append_data:{Path(str(self.file_name)).name}")
        return orig(self, data)
    cw.ConfidenceSqliteWriter.append_data = m
    try:
        yield counter
    finally:
        cw.ConfidenceSqliteWriter.append_data = orig


def sqlite_case(chk, rng):
    """assign_confidence(sqlite_path=...): the results go to a database, the text result files the run has
    initialised are unlinked again.  Dirty vs clean destination (same database in both): (a) the database afterwards
    is the same, (b) no chunk, level or result file of the run remains, other files are untouched, (c) per-file life
    cycle and final listing vs the Lean operation list `fssql` / `fslistsql`"""
    import random

    opts = dict(decoys=rng.random() < 0.6, prefix=rng.choice([None, None, "a"]), cconf=rng.choice([3, 5, 8, 1000]),
                levels=[c for c in ("ModifiedPeptide",) if rng.random() < 0.4], n_spectra=rng.choice([12, 20]),
                seed=rng.randrange(1 << 30), stale_kind=rng.choice(["junk", "level"]), crash=rng.randint(1, 14))
    hist = make_run(rng, "sqh")
    df = mkdata.make_psm_table(random.Random(opts["seed"]), n_spectra=opts["n_spectra"], max_per_spectrum=2, n_feat=2,
                               label_enc="pm1", optional=("ExpMass",), level_cols=tuple(opts["levels"]), signal=3.0)
    level_names = ["psms", "peptides"] + [P.LEVEL_FILE[c] for c in opts["levels"]]
    pre = f"{opts['prefix']}." if opts["prefix"] else ""
    k = -(-len(df) // opts["cconf"])
    own = [f"{pre}scores_metadata_{i}.pin" for i in range(k)] + [f"{ln}.pin" for ln in level_names] + \
        [f"{pre}{td}.{ln}" for ln in level_names for td in (("targets", "decoys") if opts["decoys"] else ("targets",))]

    def one(name, root, dirtied):
        base = root / name; base.mkdir(); dest = base / "out"; dest.mkdir()
        db = base / "r.db"
        make_result_db(db, df["SpecId"])
        if dirtied:
            try:
                execute(hist, dest, root, crash=opts["crash"])      # an earlier (text) run, interrupted
            except Exception:
                pass
            obs_like = dict(prefix=opts["prefix"], extra=None, fmt="pin", levels=opts["levels"])
            stale_files(dict(observed=obs_like, stale_kind=opts["stale_kind"]), dest)
            (dest / "keep.txt").write_text("not a file of mokapot\n")
        before = snapshot(dest)
        ds = mkdata.read_dataset(mkdata.write_table(df, base / "in.pin"))
        err, ctr = None, {"n": 0, "ops": []}
        try:
            with P.chunk_sizes(confidence=opts["cconf"]), P.pep_kernel(stub=True), crash_at(None) as c2, \
                    trace_sqlite(c2):
                ctr = c2
                P.run_assign_confidence([ds], [df["feat0"].values.astype(float)], dest, prefixes=[opts["prefix"]],
                                        decoys=opts["decoys"], sqlite_path=db)
        except Exception as e:
            err = f"{type(e).__name__}: {e}"[:200]
        return dict(before=before, after=snapshot(dest), db=dump_result_db(db), err=err, ops=ctr["ops"])

    with P.workdir() as root:
        clean = one("clean", root, False)
        dirty = one("dirty", root, True)
    chk.case(None, ("sqlite", json.dumps(opts, sort_keys=True), json.dumps(hist, sort_keys=True)),
             sample=dict(sqlite=True, **{k_: str(v) for k_, v in opts.items()}))
    chk.count("sqlite", f"decoys={opts['decoys']} prefix={bool(opts['prefix'])} levels={len(level_names)} chunks={k}")
    info = dict(opts=opts, history=hist)
    if clean["err"]:
        chk.reject("sqlite-run-fails-in-clean-dir:" + clean["err"].split(":")[0])
        if dirty["err"] is None:
            chk.spec_violation("sqlite-succeeds-only-with-leftovers",
                               dict(clause=f"the database run fails in a clean destination ({clean['err']}) but "
                                           "succeeds next to leftovers", **info))
        return
    if dirty["err"]:
        chk.spec_violation("sqlite-fails-in-dirty-dir",
                           dict(clause=f"the database run succeeds in a clean destination but fails next to "
                                       f"leftovers: {dirty['err']}", **info))
        return
    if dirty["db"] != clean["db"]:
        t = [t for t in SQL_TABLES if dirty["db"][t] != clean["db"][t]][0]
        chk.spec_violation("sqlite-leftovers",
                           dict(clause=f"table {t} of the result database differs between the dirty and the clean "
                                       "destination directory", dirty=dirty["db"][t][:5], clean=clean["db"][t][:5], **info))
        return
    if not any("EARLIER-ROW" in r for r in clean["db"]["PEPTIDE_VALIDATION"]) or \
            len(clean["db"]["PEPTIDE_VALIDATION"]) < 2:
        chk.spec_violation("sqlite-database-not-updated",
                           dict(clause="the result database lost its earlier rows or got no new ones", **info))
        return
    for which, res in (("clean", clean), ("dirty", dirty)):
        left = sorted(n for n in res["after"] if n in own)
        if left:
            chk.spec_violation("sqlite-files-of-the-run-remain",
                               dict(clause=f"({which} destination) files of the run remain after a successful run "
                                           f"with a result database: {left}", **info))
            return
        changed = sorted(n for n in res["before"] if n not in own and res["after"].get(n) != res["before"][n]) + \
            sorted(n for n in res["after"] if n not in res["before"])
        if changed:
            chk.spec_violation("sqlite-other-files-changed",
                               dict(clause=f"({which} destination) files that are not the run's own were changed or "
                                           f"appeared: {changed}", **info))
            return
    # correspondence with the Lean operation list of the database run
    ids = {opts["prefix"]: 0} if opts["prefix"] else {}
    pid = 0 if opts["prefix"] else Atom("none")

    def canon(f):
        return ("other", 0) if f == "r.db" else canon_name_x(f, ".pin", level_names, ids)
    resp = common.driver_batch([req("fssql", len(level_names), opts["decoys"], pid, k)])[0]
    model = life_cycles_model(resp)
    for which, res in (("clean", clean), ("dirty", dirty)):
        real = life_cycles_real(res["ops"], canon)
        if real != model:
            diff = {str(n): (real.get(n), model.get(n)) for n in set(real) | set(model) if real.get(n) != model.get(n)}
            chk.corr_break("fssql", dict(which=which, differing_files=diff, ops=res["ops"][:60], **info))
            return
        known_before = sorted({canon(f) for f in res["before"] if not canon(f)[0].startswith("other")})
        real_after = sorted({canon(f) for f in res["after"] if not canon(f)[0].startswith("other")} | {("other", 0)})
        r2 = common.driver_batch([req("fslistsql", len(level_names), opts["decoys"], pid, k,
                                      [[Atom(a), i] for a, i in known_before])])[0]
        model_after = sorted((it[0], int(it[1])) for it in dec(r2))
        if model_after != real_after:
            chk.corr_break("fslistsql", dict(which=which, only_model=[x for x in model_after if x not in real_after],
                                             only_impl=[x for x in real_after if x not in model_after], **info))
            return


@contextlib.contextmanager
def trace_cli(counter):
    """record `open(.., 'w'|'a'|'wb+')` and `shutil.move` of mokapot.mokapot.main and Model.save in the same label
    format as crash_at (no source change: the module-level names `open` / `shutil` are shadowed)"""
    import builtins
    import types

    mk = P.mod("mokapot.mokapot")
    mm = P.mod("mokapot.model")

    def traced_open(file, mode="r", *a, **kw):
        m = str(mode)
        if "w" in m or "a" in m or "x" in m or "+" in m:
            counter["ops"].append(("cli.append_data:" if "a" in m else "cli.initialize:") + Path(str(file)).name)
        return builtins.open(file, mode, *a, **kw)

    def traced_move(src, dst, *a, **kw):
        counter["ops"].append(f"move:{Path(str(src)).name}->{Path(str(dst)).name}")
        return shutil.move(src, dst, *a, **kw)
    proxy = types.SimpleNamespace(**{k: getattr(shutil, k) for k in dir(shutil) if not k.startswith("__")})
    proxy.move = traced_move
    saved_shutil = mk.shutil
    try:
        mk.open = traced_open
        mm.open = traced_open
        mk.shutil = proxy
        yield counter
    finally:
        mk.shutil = saved_shutil
        for m in (mk, mm):
            if "open" in m.__dict__:
                del m.__dict__["open"]


def canon_model_file(name, content):
    """a saved model as (class, trained?, coefficients, scaler): a fold model that failed to train is saved as the
    grid-search object, whose `cv_results_` hold wall-clock fit times -- not a matter of leftovers"""
    if content is None or not name.endswith(".pkl"):
        return content
    import pickle

    try:
        m = pickle.loads(content)
        est = m.estimator
        parts = [type(m).__name__, type(est).__name__, bool(m.is_trained)]
        for obj, attrs in ((est, ("coef_", "intercept_")), (getattr(m, "scaler", None), ("mean_", "scale_"))):
            for a in attrs:
                v = getattr(obj, a, None)
                parts.append(None if v is None else np.asarray(v).tobytes())
        parts.append(tuple(getattr(m, "features", None) or ()))
        return tuple(parts)
    except Exception:
        return content



# ---------------------------------------------------------------------------------------------------------------
# third pass: earlier command line runs that died inside the verify step (leftovers NEXT TO THE INPUT)
# ---------------------------------------------------------------------------------------------------------------
@contextlib.contextmanager
def cli_fault(k, counter, stop_after_verify=False):
    """the file operations of the CLI's verify step, counted in the order of the Lean operation list `cliMicro`:
    open(pin, 'r') [is_valid_tsv], open(pin, 'r') [converter input], open(<pin>.tsv, 'w'), every f_tsv.write call,
    shutil.move.  The k-th one raises *before* it is performed (so the directory is the one after k-1 operations);
    `stop_after_verify` makes `read_pin` -- the first thing after the verify loop -- raise (k = None: the verify step
    completes and the analysis is cut off)"""
    import builtins
    import types

    mk = P.mod("mokapot.mokapot")

    def guard(label):
        counter["n"] += 1
        counter["ops"].append(label)
        if k is not None and counter["n"] == k:
            raise Crash(f"injected failure at CLI file operation {k}: {label}")

    class Writer:
        def __init__(self, f, name):
            self.f, self.name = f, name

        def __enter__(self):
            self.f.__enter__()
            return self

        def __exit__(self, *a):
            return self.f.__exit__(*a)

        def write(self, text):
            guard(f"write:{self.name}")
            return self.f.write(text)

    def traced_open(file, mode="r", *a, **kw):
        name = Path(str(file)).name
        m = str(mode)
        if "w" in m or "a" in m or "x" in m or "+" in m:
            guard(("append-open:" if "a" in m else "trunc:") + name)
            return Writer(builtins.open(file, mode, *a, **kw), name)
        guard(f"read:{name}")
        return builtins.open(file, mode, *a, **kw)

    def traced_move(src, dst, *a, **kw):
        guard(f"move:{Path(str(src)).name}->{Path(str(dst)).name}")
        return shutil.move(src, dst, *a, **kw)

    def stopped_read_pin(*a, **kw):
        raise Crash("cut off after the verify step")
    proxy = types.SimpleNamespace(**{n: getattr(shutil, n) for n in dir(shutil) if not n.startswith("__")})
    proxy.move = traced_move
    saved_shutil, saved_read_pin = mk.shutil, mk.read_pin
    try:
        mk.open = traced_open
        mk.shutil = proxy
        if stop_after_verify:
            mk.read_pin = stopped_read_pin
        yield counter
    finally:
        mk.shutil, mk.read_pin = saved_shutil, saved_read_pin
        if "open" in mk.__dict__:
            del mk.__dict__["open"]


def converter_writes(text):
    """the chunks `pin_to_valid_tsv` hands to `f_out.write`, one per call (the real converter, a recording sink)"""
    from mokapot.parsers.pin_to_tsv import pin_to_valid_tsv

    chunks = []

    class Sink:
        def write(self, t):
            chunks.append(t)
    pin_to_valid_tsv(f_in=io.StringIO(text), f_out=Sink())
    return chunks


def tiny_pin(rng, tag, ragged):
    rows = ["SpecId\tLabel\tScanNr\tExpMass\tfeat\tPeptide\tProteins"]
    if ragged and rng.random() < 0.4:
        rows.append("DefaultDirection\t-\t-\t-\t1\t-\t-")       # dropped by the converter: makes the file invalid too
    for i in range(rng.choice([3, 4, 6, 9])):
        np_ = rng.randint(2, 3) if (ragged and i % 2 == 0) else 1
        prots = "\t".join(f"P{tag}{j}" for j in range(np_))
        rows.append(f"s{tag}{i}\t{1 if i % 2 else -1}\t{i}\t{100 + i}\t{i * 3}\tPEP{i}K\t{prots}")
    return "\n".join(rows) + "\n"


JUNK_TSV = "STALE LEFTOVER OF AN INTERRUPTED RUN\n"
JUNK_TOKEN = 666


def cli_crash_case(chk, rng, max_points=None):
    """An earlier `mokapot.mokapot.main` over 1-2 tiny PIN files is cut at EVERY file operation of its verify step
    (between any two write calls of the conversion, before the move, after it, after the whole loop); then the
    observed run's verify step runs on what is left.  Compared: (a) the input directory the earlier run leaves vs the
    Lean prediction `fsclicrash` (which file is still the user's, which already converted, how many lines of
    <pin>.tsv exist), (b) the operations performed vs `fsclimicro`, (c) the input directory after the observed run vs
    the independent oracle (conversion of that PIN alone, computed by calling the converter; no <pin>.tsv of a
    converted file; stale files of other names untouched) and vs `fsclicrashthen`"""
    mk = P.mod("mokapot.mokapot")
    nf = rng.choice([1, 2, 2])
    ragged = [rng.random() < 0.7 for _ in range(nf)]
    if not any(ragged):
        ragged[rng.randrange(nf)] = True
    stems = ["runA", "runB"][:nf]
    texts = [tiny_pin(rng, "ab"[j], ragged[j]) for j in range(nf)]
    chunks = [converter_writes(texts[j]) if ragged[j] else [] for j in range(nf)]
    conv = ["".join(c) for c in chunks]
    expected = [conv[j] if ragged[j] else texts[j] for j in range(nf)]
    junk = [rng.random() < 0.5 for _ in range(nf)]            # a junk <pin>.tsv is there before the earlier run
    files_arg = [[not ragged[j], len(chunks[j])] for j in range(nf)]
    extra_arg = [[Atom("pintsv"), j, JUNK_TOKEN] for j in range(nf) if junk[j]]
    total = sum((len(chunks[j]) + 4) if ragged[j] else 1 for j in range(nf))

    def tokens(j, kind, text):
        if text is None:
            return None
        if kind == "pin":
            if text == texts[j]:
                return (2 * j + (10 if not ragged[j] else 11), len(chunks[j]))
        if text == JUNK_TSV:
            return (JUNK_TOKEN,)
        if kind != "pin" or ragged[j]:       # (a PIN holding a *prefix* of its conversion: only a changed tree does that)
            for i in range(len(chunks[j]), -1, -1):
                if text == "".join(chunks[j][:i]):
                    return tuple(100 + 2 * t for t in range(i))
        return ("unknown", text[:60])

    def real_dir(ind):
        out = {}
        for j in range(nf):
            for kind, f in (("pin", ind / f"{stems[j]}.pin"), ("pintsv", ind / f"{stems[j]}.pin.tsv")):
                t = tokens(j, kind, f.read_text() if f.exists() else None)
                if t is not None:
                    out[(kind, j)] = t
        return out

    def model_dir(resp):
        return {(it[0], int(it[1])): tuple(int(t) for t in it[2]) for it in dec(resp)}

    def run_cli(ind, dest, k, stop):
        ctr = {"n": 0, "ops": []}
        err = None
        try:
            with contextlib.redirect_stdout(io.StringIO()), contextlib.redirect_stderr(io.StringIO()), \
                    cli_fault(k, ctr, stop_after_verify=stop):
                mk.main([str(ind / f"{s}.pin") for s in stems] + ["--dest_dir", str(dest), "--max_iter", "1",
                                                                    "--folds", "2"])
        except Crash as e:
            err = str(e)
        except BaseException as e:      # noqa: BLE001
            err = f"{type(e).__name__}: {e}"[:160]
        return ctr, err

    points = list(range(1, total + 2))          # total+1 = the whole verify loop completes, the analysis is cut off
    if max_points and len(points) > max_points:
        keep = set(rng.sample(points[1:-1], max_points - 2)) | {points[0], points[-1]}
        points = [p_ for p_ in points if p_ in keep]
    resps = common.driver_batch(
        [req("fsclimicro", files_arg)] +
        [r for k in points for r in (req("fsclicrash", files_arg, k - 1, extra_arg),
                                     req("fsclicrashthen", files_arg, k - 1, extra_arg),
                                     req("fsclicrashprobe", files_arg, k - 1, extra_arg))])
    micro = [(it[0], it[1], int(it[2])) for it in dec(resps[0])]
    for idx, k in enumerate(points):
        with P.workdir() as root:
            ind = root / "in"; ind.mkdir()
            for j in range(nf):
                (ind / f"{stems[j]}.pin").write_text(texts[j])
                if junk[j]:
                    (ind / f"{stems[j]}.pin.tsv").write_text(JUNK_TSV)
            ctr, err = run_cli(ind, root / "out", k if k <= total else None, stop=True)
            debris = real_dir(ind)
            chk.case(None, ("cli-crash", tuple(texts), tuple(junk), k),
                     sample=dict(cli_crash=True, nf=nf, ragged=ragged, junk=junk, crash_point=k, of=total))
            chk.count("cli-crash", f"files={nf} ragged={sum(ragged)} junk_tsv={sum(junk)}")
            chk.count("cli-crash-point", "inside a conversion" if any(v and kk == "pintsv" and v != (JUNK_TOKEN,)
                                                                      for (kk, _), v in debris.items())
                      else ("after the verify step" if k > total else "between files / before the first write"))
            info = dict(nf=nf, ragged=ragged, junk_tsv=junk, texts=texts, crash_point=k, operations=total,
                        earlier_run=err)
            if err is None or not isinstance(err, str) or "injected" not in err and "cut off" not in err:
                chk.reject("cli-crash-earlier-run-ended-otherwise"); continue
            # (b) the operations performed up to the cut vs the Lean operation list
            real_ops = []
            for label in ctr["ops"]:
                op, name = label.split(":", 1)
                if op == "move":
                    real_ops.append(("move", "pintsv", stems.index(name.split(".pin")[0])))
                else:
                    real_ops.append((op, "pintsv" if name.endswith(".tsv") else "pin", stems.index(name.split(".pin")[0])))
            want_ops = [(o if o != "append" else "write", kd, j) for o, kd, j in micro][:len(real_ops)]
            broken = None           # a disagreement with the model is reported -- after the oracle (c) has had its say
            if real_ops != want_ops:
                broken = ("fsclimicro", dict(impl=real_ops[:40], model=want_ops[:40], **info))
            # (a) what the earlier run leaves
            m_debris = model_dir(resps[1 + 3 * idx])
            if broken is None and debris != m_debris:
                broken = ("fsclicrash", dict(impl={str(a): b for a, b in debris.items()},
                                             model={str(a): b for a, b in m_debris.items()}, **info))
            # (c) the observed run's verify step on it
            ctr2, err2 = run_cli(ind, root / "out", None, stop=True)
            after = real_dir(ind)
            clause = None
            for j in range(nf):
                got = (ind / f"{stems[j]}.pin").read_text() if (ind / f"{stems[j]}.pin").exists() else None
                if got != expected[j]:
                    clause = (f"after an earlier run cut at file operation {k} of {total} the user's PIN {stems[j]}.pin "
                              "was replaced by content that is not the conversion of that PIN alone")
                    info.update(got="<absent>" if got is None else got[:300], expected=expected[j][:300])
                    break
                if ragged[j] and (ind / f"{stems[j]}.pin.tsv").exists():
                    clause = f"{stems[j]}.pin.tsv remains after the verify step (earlier run cut at operation {k})"
                    break
            if (err2 is None or "cut off" not in err2) and not clause:
                if broken:
                    chk.corr_break(*broken)
                    return
                chk.reject("cli-crash-observed-verify-failed")
                continue
            if clause:
                explained = after == model_dir(resps[3 + 3 * idx])
                chk.spec_violation("input-mixed-with-leftover" if "replaced" in clause else "cli-temp-left",
                                   dict(clause=clause, variant_that_trusts_an_existing_tsv_explains_it=explained, **info))
                return
            if broken:
                chk.corr_break(*broken)
                return
            m_after = model_dir(resps[2 + 3 * idx])
            if after != m_after:
                chk.corr_break("fsclicrashthen", dict(impl={str(a): b for a, b in after.items()},
                                                      model={str(a): b for a, b in m_after.items()}, **info))
                return


CLI_SHAPES = [(2, False), (1, False), (2, True)]     # (number of PIN files, --aggregate): every run covers all three


def cli_main_case(chk, rng, shape=None):
    """mokapot.mokapot.main as a whole: 1-2 PIN files (ragged or valid), --dest_dir, --save_models, --aggregate,
    --file_root, --keep_decoys, --skip_rollup; destination and input directory dirty vs clean"""
    import random
    mk = P.mod("mokapot.mokapot")
    from mokapot.parsers.pin_to_tsv import pin_to_valid_tsv

    nf = rng.choice([1, 2, 2])
    aggregate = nf == 2 and rng.random() < 0.35
    if shape is not None:
        nf, aggregate = shape
    opts = dict(save_models=rng.random() < 0.7, aggregate=aggregate,
                file_root=rng.choice([None, None, "fr"]), keep_decoys=rng.random() < 0.5,
                skip_rollup=rng.random() < 0.25, cconf=rng.choice([40, 90, 1000]),
                # third pass: the dirty input directory is what an earlier command line run over the same files
                # leaves when it is cut at a file operation of its verify step (fraction of the operations; 1.0 = the
                # verify loop completes and the analysis is cut off) -- instead of a hand-made junk <pin>.tsv
                crashed_cli=rng.random() < 0.6, crash_frac=rng.choice([rng.random(), rng.random(), 1.0]))
    ragged = [rng.random() < 0.6 for _ in range(nf)]
    seeds = [rng.randrange(1 << 30) for _ in range(nf)]
    stems = ["runA", "runB"][:nf]
    texts = []
    for j in range(nf):
        df = mkdata.make_psm_table(random.Random(seeds[j]), n_spectra=70, max_per_spectrum=2, n_feat=3, label_enc="pm1",
                                   optional=("ExpMass",), signal=3.0, rowid=False)
        lines = df.to_csv(sep="\t", index=False).splitlines()
        if ragged[j]:                       # several protein ids in tab-separated trailing fields
            lines = [ln + ("\tEXTRA%d" % i if i % 3 == 0 and i else "") for i, ln in enumerate(lines)]
        texts.append("\n".join(lines) + "\n")
    expected_inputs = []
    for j in range(nf):
        if ragged[j]:
            out = io.StringIO(); pin_to_valid_tsv(f_in=io.StringIO(texts[j]), f_out=out); expected_inputs.append(out.getvalue())
        else:
            expected_inputs.append(texts[j])
    root_pre = f"{opts['file_root']}." if opts["file_root"] else ""
    prefixes = [None] * nf if (opts["aggregate"] or nf == 1) else stems

    def one(dirname, root, dirtied):
        base = root / dirname; base.mkdir(); ind = base / "in"; ind.mkdir(); dest = base / "out"
        pins = []
        for j in range(nf):
            (ind / f"{stems[j]}.pin").write_text(texts[j]); pins.append(ind / f"{stems[j]}.pin")
        debris = None
        if dirtied:
            dest.mkdir()
            if opts["crashed_cli"] and any(ragged):
                total = sum((len(converter_writes(texts[j])) + 4) if ragged[j] else 1 for j in range(nf))
                k = min(total + 1, 1 + int(opts["crash_frac"] * (total + 1)))
                c0 = {"n": 0, "ops": []}
                try:
                    with contextlib.redirect_stdout(io.StringIO()), contextlib.redirect_stderr(io.StringIO()), \
                            cli_fault(k if k <= total else None, c0, stop_after_verify=True):
                        mk.main([str(x) for x in pins] + ["--dest_dir", str(dest)])
                    debris = "earlier run completed?"
                except Crash as e:
                    debris = f"{e} (operation {k} of {total})"
                except BaseException as e:       # noqa: BLE001
                    debris = f"earlier run failed otherwise: {type(e).__name__}"
            else:
                for j in range(nf):
                    (ind / f"{stems[j]}.pin.tsv").write_text("STALE LEFTOVER OF AN INTERRUPTED RUN\n")
            for pf in dict.fromkeys(prefixes):
                pre = root_pre + (f"{pf}." if pf else "")
                for nm in [f"{pre}scores_metadata_{i}.pin" for i in (0, 1, 2, 7)] + \
                        [f"{pre}targets.psms", f"{pre}targets.peptides", f"{pre}decoys.psms", f"{pre}decoys.peptides"]:
                    (dest / nm).write_text(JUNK)
            for nm in (f"{root_pre}psms.pin", f"{root_pre}peptides.pin"):
                (dest / nm).write_text(JUNK)     # (peptides.pin is an intermediate of this run only with the roll-up)
            for i in (1, 2, 3):
                (dest / f"{root_pre}mokapot.model_fold-{i}.pkl").write_bytes(b"STALE MODEL")
        args = [str(x) for x in pins] + ["--dest_dir", str(dest), "--max_iter", "1", "--folds", "2",
                                         "--train_fdr", "0.2", "--test_fdr", "0.2", "--seed", "3"]
        args += ["--save_models"] if opts["save_models"] else []
        args += ["--aggregate"] if opts["aggregate"] else []
        args += ["--keep_decoys"] if opts["keep_decoys"] else []
        args += ["--skip_rollup"] if opts["skip_rollup"] else []
        args += ["--file_root", opts["file_root"]] if opts["file_root"] else []
        before = snapshot(dest) if dest.exists() else {}
        # which files the verify step has to convert *now* (an earlier run may have converted some already)
        needs = [ragged[j] and pins[j].read_text() != expected_inputs[j] for j in range(nf)]
        ctr = {"n": 0, "ops": []}
        err = None
        try:
            with contextlib.redirect_stdout(io.StringIO()), contextlib.redirect_stderr(io.StringIO()), \
                    P.chunk_sizes(confidence=opts["cconf"]), P.pep_kernel(stub=True), crash_at(None) as c2, trace_cli(c2):
                ctr = c2
                mk.main(args)
        except BaseException as e:           # noqa: BLE001  (SystemExit from the argument parser included)
            err = f"{type(e).__name__}: {e}"[:200]
        return dict(dest=snapshot(dest) if dest.exists() else {}, ind=snapshot(ind), before=before, ops=ctr["ops"],
                    err=err, rows=[t.count("\n") - 1 for t in texts], needs=needs, debris=debris)

    with P.workdir() as root:
        clean = one("clean", root, False)
        dirty = one("dirty", root, True)
    chk.case(None, ("cli-main", nf, tuple(ragged), tuple(seeds), json.dumps(opts, sort_keys=True)),
             sample=dict(cli_main=True, nf=nf, ragged=ragged, **{k: str(v) for k, v in opts.items()}))
    chk.count("cli-main", f"files={nf} ragged={sum(ragged)} aggregate={opts['aggregate']} models={opts['save_models']} "
                          f"root={bool(opts['file_root'])} rollup={not opts['skip_rollup']}")
    info = dict(nf=nf, ragged=ragged, seeds=seeds, opts=opts, input_dir_debris=dirty["debris"])
    chk.count("cli-main-input-dir", "junk <pin>.tsv" if dirty["debris"] is None else
              ("earlier run cut after its verify step" if "cut off" in dirty["debris"] else
               "earlier run cut inside its verify step; files already converted: %d" %
               sum(r and not n for r, n in zip(ragged, dirty["needs"]))))
    if clean["err"]:
        chk.reject("cli-main-fails-in-clean-dir:" + clean["err"].split(":")[0])
        if dirty["err"] is None:
            chk.spec_violation("cli-main-succeeds-only-with-leftovers",
                               dict(clause="the command line run fails in a clean destination but succeeds in a dirty "
                                           f"one: {clean['err']}", **info))
        return
    if dirty["err"]:
        chk.spec_violation("cli-main-fails-in-dirty-dir",
                           dict(clause=f"the command line run succeeds in a clean destination but fails next to "
                                       f"leftovers: {dirty['err']}", **info))
        return
    # the user's input files: the conversion of that file alone (computed by the converter called directly), or
    # untouched; no <pin>.tsv of this run remains
    for which, res in (("clean", clean), ("dirty", dirty)):
        for j in range(nf):
            got = res["ind"].get(f"{stems[j]}.pin", b"").decode()
            if got != expected_inputs[j]:
                chk.spec_violation("input-mixed-with-leftover",
                                   dict(clause=f"({which} run) the user's PIN {stems[j]}.pin was replaced by content that "
                                               "is not the conversion of that PIN alone", got=got[:300],
                                        expected=expected_inputs[j][:300], **info))
                return
            if ragged[j] and f"{stems[j]}.pin.tsv" in res["ind"]:
                chk.spec_violation("cli-temp-left", dict(clause=f"({which} run) {stems[j]}.pin.tsv remains after the "
                                                                "verify step", **info))
                return
    for name, content in clean["dest"].items():
        if canon_model_file(name, dirty["dest"].get(name)) != canon_model_file(name, content):
            chk.spec_violation("cli-main-leftovers",
                               dict(clause=f"file {name} written by the command line run differs between the dirty and "
                                           "the clean destination directory", **info))
            return
    own_level_files = [f"{root_pre}psms.pin"] + ([] if opts["skip_rollup"] else [f"{root_pre}peptides.pin"])
    left = sorted(n for n in dirty["dest"] if "scores_metadata_" in n and n not in dirty["before"]
                  or n in own_level_files)
    extra = sorted(set(dirty["dest"]) - set(dirty["before"]) - set(clean["dest"]))
    if left or extra:
        chk.spec_violation("cli-main-intermediates",
                           dict(clause=f"intermediate or unexpected files after the command line run: {left + extra}", **info))
        return
    # life cycles vs the Lean operation list of the whole command line run
    levels = ["psms"] + ([] if opts["skip_rollup"] else ["peptides"])
    pids, ids = prefix_ids(prefixes)
    ks = [-(-r // opts["cconf"]) for r in clean["rows"]]
    nm_models = 2 if opts["save_models"] else 0

    def canon(fname):
        for j in range(nf):
            if fname == f"{stems[j]}.pin":
                return ("pin", j)
            if fname == f"{stems[j]}.pin.tsv":
                return ("pintsv", j)
        if fname.startswith(root_pre + "mokapot.model_fold-"):
            return ("model", int(fname.split("fold-")[1].split(".")[0]) - 1)
        return canon_name_x(fname, ".pin", levels, ids, root=root_pre)
    for which, res in (("clean", clean), ("dirty", dirty)):
        real = life_cycles_real(res["ops"], canon)
        resp = common.driver_batch([req("fsclimain", True, res["needs"], False, len(levels), opts["keep_decoys"],
                                        [[i, k] for i, k in zip(pids, ks)], nm_models)])[0]
        model = life_cycles_model(resp)
        if real != model:
            diff = {str(n): (real.get(n), model.get(n)) for n in set(real) | set(model) if real.get(n) != model.get(n)}
            chk.corr_break("fsclimain", dict(which=which, differing_files=diff, ops=res["ops"][:80], **info))
            return


def search(chk):
    for _ in range(12 * chk.budget_mult):
        c = gen_case(chk.rng)
        c["stale"] = True
        run_case(chk, c)
        if chk.spec_violations:
            return
    for _ in range(5):
        cli_case(chk, chk.rng)
    for _ in range(3):
        cli_crash_case(chk, chk.rng)
        if chk.spec_violations:
            return
    for _ in range(3):
        rollup_trace_case(chk, chk.rng)
        if chk.spec_violations:
            return
    for _ in range(2):
        cli_main_case(chk, chk.rng)
    for _ in range(4):
        sqlite_case(chk, chk.rng)
        if chk.spec_violations:
            return


def main(chk, args):
    build = common.build_and_audit("C09", extra_targets=["MokapotVerif.Mutants.FsRun", "MokapotVerif.Mutants.FsRunExt",
                                                         "MokapotVerif.Mutants.FsRunSized",
                                                         "MokapotVerif.Mutants.FsRunCrash"])
    if not build.driver_ok:
        chk.finish(build, RULE)
    model_listing(chk, chk.rng)
    n = chk.scale(20 if chk.tier == "quick" else 60)
    for _ in range(n):
        run_case(chk, gen_case(chk.rng))
    if chk.tier == "thorough":
        for _ in range(4):
            c = gen_case(chk.rng)
            c["history"] = c["history"][:1]
            c["crash_fracs"] = [None]
            c["history"][0]["n_spectra"] = 12
            run_case(chk, c, enumerate_all=True)
    for _ in range(3 if chk.tier == "quick" else 20):
        cli_case(chk, chk.rng)
    for _ in range(chk.scale(2 if chk.tier == "quick" else 12)):
        cli_crash_case(chk, chk.rng, max_points=14 if chk.tier == "quick" else None)
        if chk.spec_violations:
            break
    for _ in range(chk.scale(5 if chk.tier == "quick" else 20)):
        rollup_history_case(chk, chk.rng)
    for _ in range(chk.scale(4 if chk.tier == "quick" else 16)):
        rollup_trace_case(chk, chk.rng)
    for i in range(chk.scale(3 if chk.tier == "quick" else 8)):
        cli_main_case(chk, chk.rng, CLI_SHAPES[i % 3] if i < 3 else None)
    for _ in range(chk.scale(2 if chk.tier == "quick" else 16)):
        sqlite_case(chk, chk.rng)
    lc = common.leanchecker("C09") if chk.tier == "thorough" else None
    chk.assumptions += [
        "PARTIAL: the theorems are about an abstract file system (name -> content map with truncate/append/unlink/"
        "rename semantics) and the operation sequence of one assign_confidence collection and of the CLI verify "
        "step; atomicity/durability inside one OS write, sqlite journal files and partially written files being "
        "syntactically broken are not modelled",
        "crash points are injected at mokapot's writer methods and unlink calls, not inside pandas/pyarrow",
        "extension: file names are abstract (prefix ids, level positions): a user file that carries the name of an "
        "intermediate of the run (an input called psms.pin inside the destination directory) is outside the model; "
        "the roll-up tool is modelled with source = destination directory; brew is taken to write no file",
        "second pass: the result database of sqlite_path= is one abstract file that is only appended to (UPDATE / "
        "INSERT on existing tables); it is a declared input of the run like result files under "
        "append_to_output_file=True; journal files and rows left in it by an interrupted database run are not "
        "modelled; with a database the harness drives single collections only",
        "third pass: the theorems about interrupted command line runs (Props/C09Crash.lean) take the rename of "
        "<pin>.tsv over the PIN as atomic (same directory, os.rename; the copy-then-delete variant is refuted in "
        "Mutants/FsRunCrash.lean) and the converter's output as accepted by is_valid_tsv (C19_output_valid); the "
        "content of a stale or torn <pin>.tsv is universally quantified (C09_stale_tsv_content_irrelevant), so torn "
        "writes of the temporary file are covered, torn writes of result files of the observed run itself are not",
    ]
    chk.finish(build, RULE, search=search, lc=lc,
               trusted_extra=["tools/gen_repo.py (AST walk -> Generated/FileOps.lean)", "POSIX file semantics"])


def replay(chk, path):
    info = json.loads(open(path).read())
    case = info.get("case")
    if not isinstance(case, dict) or "observed" not in case:
        print(json.dumps(info, indent=1)[:3000])
        return 0
    common.build_and_audit("C09")
    run_case(chk, case)
    for sig, i in chk.spec_violations:
        print("REPRODUCED", sig, i.get("clause"))
    return 1 if chk.spec_violations else 0
