"""C20 — PepXML parsing turns every search hit into one faithful PSM (correspondence harness).

A case is an abstract PepXML input (JSON-able): a decoy prefix and a list of files, each either a
malformed stream or `runs -> spectra -> search results -> hits(attributes, children in document order)`.
The harness renders it to PepXML text (namespaces, extra elements/attributes, attribute order vary),
calls the real `mokapot.read_pepxml(paths, decoy_prefix=..., to_df=True)`, sends the same abstract input
to the Lean driver (`pepxml` = model of the code, `pepxml-spec` = declarative specification) and compares
implementation vs specification vs model.
"""
from __future__ import annotations

import hashlib
import itertools
import json
import os
import random
import shutil
import tempfile
from fractions import Fraction
from xml.sax.saxutils import quoteattr

import numpy as np
import pandas as pd

import common
from common import Atom, a_bool, a_int, a_rat, a_str, req

RULE = (
    "cases = (decoy prefix, 0..3 files (malformed / valid XML without hits / PepXML), 1..k runs, spectra, search "
    "results, hits, 0..m modifications (ascending in-range, or arbitrary for the model only), 0..p alternative "
    "proteins with mixed prefixes, score schemas with plain / scientific / wide-range / binary / negative / missing "
    "values, optional attributes present or absent, XML rendering variations); distinct = distinct abstract inputs; "
    "non-trivial = a hit with >=2 modifications or an alternative protein, or several runs/files, or a rejected "
    "input; thorough adds exhaustive sweeps: all modification lists (<=3 mods, positions 0..n+1, peptides n<=4), all "
    "primary/alternative prefix patterns (<=4 alternatives), all interleavings of child elements, all document "
    "shapes (<=2 runs, <=2 spectra, <=2 results, <=1 hit), all feature columns of <=4 cells over a 10-value pool; "
    "option cases = the same documents with exclude_features (0..5 names) / open_modification_bin_size / default "
    "decoy_prefix / to_df=False, plus all exclusion sets of <=1 (thorough <=3) of 10 names x 3 bin settings; "
    "second-pass cases = the same documents with data-file names whose base contains the extension elsewhere "
    "than at the end / extensions without a dot / differing in case, decoy prefixes made of regular-expression "
    "metacharacters (with targets that a pattern reading of the prefix would accept), charges of 2-3 digits, "
    "hit_rank / is_rejected / num_tot_proteins varying per hit, identical hits / spectra / runs / files, "
    "pathlib.Path arguments, lower-case residues, num_matched_peptides = 0; plus sweeps: 10 bases x 6 extensions, "
    "duplicates at every level, 12 metacharacter prefixes x all primary/alternative patterns (<=2, thorough <=3 "
    "alternatives) over {target, decoy, pattern-near target}; the optional-attribute columns of every case are "
    "compared with their specification (column exists iff some hit has the attribute; value where present, "
    "log10 for num_matched_peptides, NaN where absent)"
)

FIXED = ["ms_data_file", "scan", "charge", "ret_time", "exp_mass", "calc_mass", "peptide", "proteins", "label"]
RESERVED = set(FIXED) | {"num_matched_peptides", "mass_diff", "abs_mz_diff"}
PERCOLATOR = ["Percolator q-Value", "Percolator PEP", "Percolator SVMScore"]
PROTON = 1.00727646677
NS = "http://regis-web.systemsbiology.net/pepXML"

_TMP = None


def tmpdir():
    global _TMP
    if _TMP is None:
        base = "/dev/shm" if os.path.isdir("/dev/shm") and os.access("/dev/shm", os.W_OK) else None
        _TMP = tempfile.mkdtemp(prefix="c20-", dir=base)
    return _TMP


def cleanup():
    global _TMP
    if _TMP is not None:
        shutil.rmtree(_TMP, ignore_errors=True)
        _TMP = None


# ----------------------------------------------------------------------------
# rendering an abstract case to PepXML text
# ----------------------------------------------------------------------------
def score_text(ch):
    return ch[2] + (ch[3] or "")


def score_pow(ch):
    return None if ch[3] is None else int(ch[3][1:])


def render_hit(h, opt, idx=0, n=1):
    """`idx` / `n`: position of the hit in its search_result and the number of hits there (used by the
    `hit_meta` rendering variation only)"""
    attrs = [("peptide", h["pep"]), ("protein", h["prot"]), ("calc_neutral_pep_mass", h["calc"])]
    if h["mc"] is not None:
        attrs.append(("num_missed_cleavages", str(h["mc"])))
    if h["ntt"] is not None:
        attrs.append(("num_tol_term", str(h["ntt"])))
    if h["nm"] is not None:
        attrs.append(("num_matched_peptides", str(h["nm"])))
    meta = opt.get("hit_meta")
    if meta:
        # attributes the parser must ignore, with values that a filter would act on: ranks beyond 1, rejected
        # hits, the true number of proteins
        rank, rej = {"pos": (idx + 1, idx % 2), "rev": (n - idx, 0), "rej": (idx // 2 + 1, 1)}[meta]
        ntot = 1 + sum(1 for c in h["children"] if c[0] == "a")
        attrs += [("hit_rank", str(rank)), ("massdiff", "0.01"), ("num_tot_proteins", str(ntot)),
                  ("is_rejected", str(rej))]
    elif opt.get("extra_attrs"):
        attrs += [("hit_rank", "1"), ("massdiff", "0.01"), ("num_tot_proteins", "3"), ("is_rejected", "0")]
    if opt.get("rev_attrs"):
        attrs.reverse()
    attrs = [kv for kv in attrs if kv[0] != opt.get("drop_attr")]
    out = ["<search_hit " + " ".join(f"{k}={quoteattr(v)}" for k, v in attrs) + ">"]
    for ch in h["children"]:
        if ch[0] == "m":
            extra = ' mod_nterm_mass="43.0184"' if opt.get("extra_attrs") else ""
            out.append(f"<modification_info{extra}>")
            for pos, mass in ch[1]:
                if opt.get("rev_attrs"):
                    out.append(f"<mod_aminoacid_mass mass={quoteattr(mass)} position=\"{pos}\"/>")
                else:
                    out.append(f"<mod_aminoacid_mass position=\"{pos}\" mass={quoteattr(mass)}/>")
            out.append("</modification_info>")
        elif ch[0] == "s":
            out.append(f"<search_score name={quoteattr(ch[1])} value={quoteattr(score_text(ch))}/>")
        else:
            extra = ' num_tol_term="2"' if opt.get("extra_attrs") else ""
            out.append(f"<alternative_protein protein={quoteattr(ch[1])}{extra}/>")
    if opt.get("extra_elems"):
        out.append('<analysis_result analysis="peptideprophet"><peptideprophet_result probability="0.9">'
                   '<search_score_summary><parameter name="fval" value="1.5"/></search_score_summary>'
                   "</peptideprophet_result></analysis_result>")
    out.append("</search_hit>")
    return out


def render_file(f):
    opt = f.get("render", {})
    ns = f' xmlns="{NS}"' if opt.get("ns", True) else ""
    root = opt.get("root", "msms_pipeline_analysis")
    out = ['<?xml version="1.0" encoding="UTF-8"?>', f"<{root}{ns}>"]
    for r in f["runs"]:
        rattrs = [("base_name", r["base"]), ("raw_data_type", "raw"), ("raw_data", r["ext"])]
        out.append("<msms_run_summary " + " ".join(
            f"{k}={quoteattr(v)}" for k, v in rattrs if k != opt.get("drop_attr")) + ">")
        if opt.get("extra_elems"):
            out.append('<sample_enzyme name="Trypsin"><specificity cut="KR" no_cut="P" sense="C"/></sample_enzyme>')
            out.append('<search_summary base_name="x" search_engine="Comet"><parameter name="p" value="1"/>'
                       "</search_summary>")
        for k, s in enumerate(r["spectra"]):
            sattrs = [("spectrum", f"s.{k}"), ("start_scan", str(s["scan"] - 1)), ("end_scan", str(s["scan"])),
                      ("precursor_neutral_mass", s["exp"]), ("assumed_charge", str(s["charge"])),
                      ("index", str(k + 1)), ("retention_time_sec", s["rt"])]
            out.append("<spectrum_query " + " ".join(
                f"{k_}={quoteattr(v)}" for k_, v in sattrs if k_ != opt.get("drop_attr")) + ">")
            for res in s["results"]:
                out.append("<search_result>")
                for hi, h in enumerate(res):
                    out += render_hit(h, opt, hi, len(res))
                out.append("</search_result>")
            out.append("</spectrum_query>")
        out.append("</msms_run_summary>")
    out.append(f"</{root}>")
    sep = "\n" if opt.get("newlines", True) else ""
    return sep.join(out) + "\n"


GOOD_DOC = {"runs": [{"base": "f", "ext": ".mzML", "spectra": [
    {"scan": 1, "charge": 2, "rt": "1.5", "exp": "100.5", "results": [[
        {"calc": "100.25", "pep": "PEPTIDEK", "prot": "sp|P1", "mc": 0, "ntt": 2, "nm": None,
         "children": [["s", "xcorr", "1.5", None]]}]]}]}]}


def render_bad(kind):
    if kind == "tsv":
        return "Blah\tblah\tblah\nblah\tblah\tblah\n"
    if kind == "empty":
        return ""
    good = render_file(GOOD_DOC)
    if kind == "truncated":
        return good[: len(good) * 2 // 3]
    if kind == "unclosed":
        return good.replace("</search_hit>", "")
    if kind == "garbage-tail":
        return good + "<<<"
    raise AssertionError(kind)


def write_case(case):
    d = tmpdir()
    paths = []
    for i, f in enumerate(case["files"]):
        p = os.path.join(d, f"f{i}.pep.xml")
        with open(p, "w", encoding="utf-8") as fh:
            fh.write(render_bad(f["bad"]) if "bad" in f else
                     render_tree_file(f) if "tree" in f else render_file(f))
        paths.append(p)
    return paths


# ----------------------------------------------------------------------------
# wire encoding (see lean/MokapotVerif/Ops/Pepxml.lean)
# ----------------------------------------------------------------------------
def opt(x):
    return None if x is None else [x]


def wire_child(ch):
    if ch[0] == "m":
        return [Atom("m"), [[int(p), m] for p, m in ch[1]]]
    if ch[0] == "s":
        return [Atom("s"), ch[1], Fraction(ch[2]), opt(score_pow(ch))]
    return [Atom("a"), ch[1]]


def wire_hit(h):
    return [Fraction(h["calc"]), h["pep"], h["prot"], opt(h["mc"]), opt(h["ntt"]), opt(h["nm"]),
            [wire_child(c) for c in h["children"]]]


def wire_file(f):
    if "bad" in f:
        return Atom("bad")
    return [Atom("doc"), [[r["base"], r["ext"],
                           [[s["scan"], s["charge"], Fraction(s["rt"]), Fraction(s["exp"]),
                             [[wire_hit(h) for h in res] for res in s["results"]]] for s in r["spectra"]]]
                          for r in f["runs"]]]


def wire_files(case):
    return [wire_file(f) for f in case["files"]]


# ----------------------------------------------------------------------------
# implementation
# ----------------------------------------------------------------------------
def call_arg(case, paths):
    """the `pepxml_files` argument: a str / list / tuple of str, or the same of `pathlib.Path` (`as_path`)"""
    if case.get("as_path"):
        import pathlib

        paths = [pathlib.Path(p) for p in paths]
    arg = paths if (case.get("as_list", True) or len(paths) != 1) else paths[0]
    if case.get("as_tuple") and isinstance(arg, list):
        arg = tuple(arg)
    return arg


def run_impl(case):
    """-> ("ok", rows, featcols) | ("reject-<kind>", message)"""
    import mokapot

    paths = write_case(case)
    arg = call_arg(case, paths)
    try:
        df = mokapot.read_pepxml(arg, decoy_prefix=case["prefix"], to_df=True)
    except ValueError as e:
        msg = str(e)
        if msg.endswith("is not a PepXML file or is malformed."):
            return ("reject-notxml", msg)
        if "Percolator" in msg:
            return ("reject-percolator", msg)
        if "No objects to concatenate" in msg:
            return ("reject-nofiles", msg)
        return ("exception:ValueError", msg)
    except KeyError as e:
        if e.args == ("ms_data_file",):
            return ("reject-nopsms", repr(e))
        return ("exception:KeyError", repr(e))
    except Exception as e:  # noqa: BLE001
        return ("exception:" + type(e).__name__, repr(e)[:300])
    cols = list(df.columns)
    if cols[: len(FIXED)] != FIXED:
        return ("exception:columns", repr(cols))
    rows = []
    for rec in zip(*(df[c].tolist() for c in FIXED)):
        rows.append([str(rec[0]), int(rec[1]), int(rec[2]), float(rec[3]), float(rec[4]), float(rec[5]),
                     rec[6], rec[7], bool(rec[8])])
    feats = []
    for c in cols[len(FIXED):]:
        col = df[c]
        if isinstance(col, pd.DataFrame):
            return ("exception:duplicate-column", c)
        numeric = pd.api.types.is_float_dtype(col.dtype)
        feats.append((c, [float(x) for x in col.tolist()] if numeric else None))
    return ("ok", rows, feats)


# ----------------------------------------------------------------------------
# evaluating the model's symbolic feature cells with the code's numeric primitives
# ----------------------------------------------------------------------------
def fv_parse(v):
    if v == "nan":
        return ("nan",)
    if v[0] == "e":
        return ("e", a_rat(v[1]), a_int(v[2]))
    return (v[0], a_rat(v[1]))


def fv_value(fv, raw=None):
    """float value of a symbolic cell; `raw` overrides the rational with the float the code had"""
    k = fv[0]
    if k == "nan":
        return float("nan")
    x = float(fv[1]) if raw is None else raw
    with np.errstate(all="ignore"):
        if k == "p":
            return x
        if k == "l":
            return float(np.log10(np.float64(x)))
        if k == "f":
            return float(np.log10(np.float64(x)) - 1)
        if k == "e":
            return float(np.log10(np.float64(x)) + fv[2])
    raise AssertionError(fv)


def same(a, b):
    return (a != a and b != b) or a == b


def close(a, b, tol=1e-9):
    if a != a or b != b:
        return a != a and b != b
    if a == b:
        return True
    if a in (float("inf"), float("-inf")) or b in (float("inf"), float("-inf")):
        return False
    return abs(a - b) <= tol * max(1.0, abs(a), abs(b))


def col_modes(vals):
    """the admissible numeric renderings of a column of score literals (root, pow) / None:
    plain value, log10 with zero fill, log10(root)+pow — evaluated with the code's primitives"""
    with np.errstate(all="ignore"):
        plain = [float("nan") if v is None else float(v[0] * Fraction(10) ** (v[1] or 0)) for v in vals]
        out = {"plain": plain}
        nz = [x for x in plain if x == x and x != 0]
        if nz and all(x >= 0 for x in plain if x == x):
            fill = float(np.log10(np.float64(min(nz))) - 1)
            out["log"] = [x if x != x else (fill if x == 0 else float(np.log10(np.float64(x)))) for x in plain]
        if all(v is not None and v[0] > 0 for v in vals):
            out["sci"] = [float(np.log10(np.float64(float(v[0]))) + (v[1] or 0)) for v in vals]
    return out


def ratio_boundary(vals):
    """does the float decision `max / min_nonzero >= 10000` differ from the exact one?"""
    xs = [v[0] * Fraction(10) ** (v[1] or 0) for v in vals if v is not None]
    nz = [x for x in xs if x != 0]
    if not nz or min(xs) < 0:
        return False
    exact = max(xs) / min(nz) >= 10000
    fl = float(max(xs)) / float(min(nz)) >= 10000
    return exact != fl


# ----------------------------------------------------------------------------
# comparison
# ----------------------------------------------------------------------------
def spec_rows(resp):
    out = []
    for r in _parse_full(resp.strip()):
        base, ext = a_str(r[0]), a_str(r[1])
        out.append(dict(
            file=base if base.endswith(ext) else base + ext,
            scan=a_int(r[2]), charge=a_int(r[3]), rt=a_rat(r[4]), exp=a_rat(r[5]), calc=a_rat(r[6]),
            peptide=None if r[7] == "none" else a_str(r[7][0]),
            accs=[a_str(x) for x in r[8]], label=a_bool(r[9]),
            scores=[(a_str(kv[0]), num_parse(kv[1][0])) for kv in r[10]],
        ))
    return out


def _parse_full(line):
    toks = line.replace("[", " [ ").replace("]", " ] ").split()
    pos = 0

    def val():
        nonlocal pos
        t = toks[pos]
        pos += 1
        if t == "[":
            out = []
            while toks[pos] != "]":
                out.append(val())
            pos += 1
            return out
        return t

    return val()


def num_parse(v):
    return (a_rat(v[0]), None if v[1] == "none" else a_int(v[1][0]))


def model_table(resp):
    resp = resp.strip()
    if not resp.startswith("["):
        return (resp,)
    v = _parse_full(resp)
    rows = []
    for r in v[0]:
        rows.append([a_str(r[0]), a_int(r[1]), a_int(r[2]), float(a_rat(r[3])), float(a_rat(r[4])),
                     float(a_rat(r[5])), a_str(r[6]), a_str(r[7]), a_bool(r[8])])
    feats = [(a_str(kc[0]), [fv_parse(c) for c in kc[1]]) for kc in v[1]]
    return ("ok", rows, feats)


def expected_kind(case):
    """what the property promises: error for malformed / Percolator input, success when every file has a hit"""
    if not case["files"]:
        return "any"
    for f in case["files"]:
        if "bad" in f:
            return "error"
        if not any(True for _ in iter_hits(f)):
            return "any"  # a file without hits: the property does not say
    for f in case["files"]:
        for h in iter_hits(f):
            if any(c[0] == "s" and c[1] in PERCOLATOR for c in h["children"]):
                return "error"
    return "ok"


def iter_hits(f):
    for r in f.get("runs", []):
        for s in r["spectra"]:
            for res in s["results"]:
                yield from res


def n_hits(case):
    return sum(1 for f in case["files"] for _ in iter_hits(f))


def py_spec_hit(prefix, h):
    """direct re-statement of the per-hit clauses (self-check of the Lean spec op)"""
    accs = [h["prot"].split(" ")[0]] + [c[1].split(" ")[0] for c in h["children"] if c[0] == "a"]
    label = not all(a.startswith(prefix) for a in accs)
    mls = [c[1] for c in h["children"] if c[0] == "m"]
    pep = h["pep"]
    if not mls:
        sp = pep
    elif len(mls) == 1 and all(a[0] <= b[0] for a, b in zip(mls[0], mls[0][1:])) and all(
            p <= len(pep) for p, _ in mls[0]):
        groups = {}
        for p, m in mls[0]:
            groups[p] = groups.get(p, "") + "[" + m + "]"
        sp = groups.get(0, "") + "".join(c + groups.get(i + 1, "") for i, c in enumerate(pep))
    else:
        sp = None
    return accs, label, sp


ATTR_KEYS = (("missed_cleavages", "mc"), ("ntt", "ntt"), ("num_matched_peptides", "nm"))


def attr_spec(resp):
    """answer of the `pepxml-attrs` op -> {key: (specified dict cell per hit, specified column)};
    column: "none" (no such column) | "model-only" | [symbolic cell per hit]"""
    out = {}
    for ent in _parse_full(resp.strip()):
        col = ent[2] if isinstance(ent[2], str) else [fv_parse(c) for c in ent[2]]
        out[a_str(ent[0])] = ([xv_parse(c) for c in ent[1]], col)
    return out


def py_attr_spec(hits, key, attr):
    """direct re-statement of the optional-attribute clauses (self-check of the Lean spec op)"""
    cells = []
    for h in hits:
        sc = [c for c in h["children"] if c[0] == "s" and c[1] == key]
        if sc:
            cells.append(("t", Fraction(sc[-1][2]), score_pow(sc[-1])))
        elif h[attr] is not None:
            cells.append(("i", h[attr]))
        else:
            cells.append(None)
    vals = [h[attr] for h in hits]
    if any(c[0] == "s" and c[1] == key for h in hits for c in h["children"]):
        col = "model-only"
    elif all(v is None for v in vals):
        col = "none"
    elif key == "num_matched_peptides":
        col = [("nan",) if v is None else ("l", Fraction(v)) for v in vals]
    elif any(v is not None and v >= 10000 for v in vals):
        col = "model-only"
    else:
        col = [("nan",) if v is None else ("p", Fraction(v)) for v in vals]
    return cells, col


def compare(chk, case, resp_model, resp_spec, tag="gen", impl=None, skip=frozenset(), resp_attrs=None):
    """`impl` / `skip` are used by `compare_opts` only: the implementation's output under options, reduced to
    the default call's shape, and the excluded columns (compared there); the default path passes neither.
    `resp_attrs`: answer of the `pepxml-attrs` op (specification of the optional-attribute columns)"""
    if impl is None:
        impl = run_impl(case)
    dropped = [f["render"]["drop_attr"] for f in case["files"] if f.get("render", {}).get("drop_attr")]
    if dropped:
        # a required attribute is absent: outside the property's quantifier and outside the model
        chk.reject(f"missing-required-attribute:{dropped[0]}:{impl[0]}")
        return
    model = model_table(resp_model)
    want = expected_kind(case)
    info = dict(case=case)
    if model[0] == "unmodelled":
        chk.reject("unmodelled-zero-charge")
        return
    if model[0] in ("bad-args", "bad-op"):
        raise RuntimeError(f"driver answered {model[0]} for {json.dumps(case)[:400]}")
    # ---- errors ------------------------------------------------------------
    if impl[0] != "ok":
        if want == "ok":
            chk.spec_violation(f"raised:{impl[0]}", dict(info, impl=list(impl), clause=(
                "read_pepxml raised on PepXML input in which every file has a search hit")))
            return
        if impl[0].startswith("exception:") and want == "any":
            chk.reject(impl[0])
        if model[0] != impl[0]:
            chk.corr_break("pepxml", dict(info, impl=list(impl), model=model[0]))
        else:
            chk.reject(impl[0])
        return
    if want == "error":
        chk.spec_violation("accepted-bad-input", dict(info, impl="ok", clause=(
            "malformed or Percolator-produced input was not rejected")))
        return
    if model[0] != "ok":
        chk.corr_break("pepxml", dict(info, impl="ok", model=model[0]))
        return
    _, irows, ifeats = impl
    spec = spec_rows(resp_spec)
    # self-check of the Lean spec op against the direct re-statement
    hits = [h for f in case["files"] for h in iter_hits(f)]
    assert len(hits) == len(spec), "spec op lost a hit"
    for h, s in zip(hits, spec):
        accs, label, sp = py_spec_hit(case["prefix"], h)
        assert (accs, label, sp) == (s["accs"], s["label"], s["peptide"]), ("spec self-check", h, s)
    # ---- specification on the implementation's output ------------------------
    bad = None
    if len(irows) != len(spec):
        bad = ("count", f"{len(irows)} PSMs for {len(spec)} search hits")
    else:
        for i, (r, s) in enumerate(zip(irows, spec)):
            exp_fixed = [s["file"], s["scan"], s["charge"], float(s["rt"]), float(s["exp"]), float(s["calc"])]
            if r[:6] != exp_fixed:
                names = FIXED[:6]
                k = next(j for j in range(6) if r[j] != exp_fixed[j])
                bad = (f"field:{names[k]}", f"row {i}: {names[k]}={r[k]!r}, expected {exp_fixed[k]!r}")
            elif s["peptide"] is not None and r[6] != s["peptide"]:
                bad = ("peptide", f"row {i}: peptide={r[6]!r}, expected {s['peptide']!r}")
            elif r[7] != "\t".join(s["accs"]):
                bad = ("proteins", f"row {i}: proteins={r[7]!r}, expected {s['accs']!r}")
            elif r[8] != s["label"]:
                bad = ("label", f"row {i}: label={r[8]!r}, expected {s['label']!r} for {s['accs']!r}")
            if bad:
                break
    ifd = dict(ifeats)
    if bad is None:
        names = []
        for s in spec:
            for n, _ in s["scores"]:
                if n not in names:
                    names.append(n)
        for n in names:
            if n in RESERVED or n in skip:
                continue
            if n not in ifd:
                bad = ("score-missing", f"search score {n!r} is not a column")
                break
            if ifd[n] is None:
                bad = ("score-not-numeric", f"column {n!r} is not a float column")
                break
            vals = [dict(s["scores"]).get(n) for s in spec]
            if any(h[k] is not None for h in hits for k in ("mc", "ntt")
                   ) and n in ("missed_cleavages", "ntt"):
                continue  # shared with an optional attribute: only the model predicts the mix
            modes = col_modes(vals)
            if not any(len(m) == len(ifd[n]) and all(same(a, b) for a, b in zip(m, ifd[n])) for m in modes.values()):
                bad = ("score-value", f"column {n!r}={ifd[n]!r} is none of {modes!r}")
                break
    if resp_attrs is not None:
        aspec = attr_spec(resp_attrs)
        for key, attr in ATTR_KEYS:
            assert aspec[key] == py_attr_spec(hits, key, attr), ("attr spec self-check", key, aspec[key])
            if bad is not None or key in skip:
                continue
            col = aspec[key][1]
            if col == "model-only":
                continue  # a search score of the same name / a value >= 10000: only the model predicts the column
            if col == "none":
                if key in ifd:
                    bad = ("attr-column-invented", f"column {key!r} although no search hit has the attribute")
                continue
            if key not in ifd:
                bad = ("attr-missing", f"optional attribute {key!r} of some search hit is not a column")
            elif ifd[key] is None:
                bad = ("attr-not-numeric", f"column {key!r} is not a float column")
            else:
                want_col = [fv_value(c) for c in col]
                if not (len(want_col) == len(ifd[key]) and all(same(a, b) for a, b in zip(want_col, ifd[key]))):
                    k = next((i for i, (a, b) in enumerate(zip(want_col, ifd[key])) if not same(a, b)), None)
                    bad = ("attr-value", f"column {key!r}: row {k} holds "
                           f"{ifd[key][k] if k is not None else len(ifd[key])!r}, expected "
                           f"{want_col[k] if k is not None else len(want_col)!r} (the attribute's value where the "
                           f"hit has it — log10 for num_matched_peptides —, NaN where it has not)")
    if bad is None and resp_attrs is not None:
        # charge one-hot columns (direct re-statement of C20_charge_onehot): one column per distinct charge, in
        # ascending numeric order, hot exactly for the PSMs of that charge
        zs = sorted({s["charge"] for s in spec})
        want_names = [f"charge_{z}" for z in zs if f"charge_{z}" not in skip]
        got_names = [k for k, _ in ifeats if k.startswith("charge_")]
        if got_names != want_names:
            bad = ("charge-columns", f"charge columns {got_names!r}, expected {want_names!r} (distinct charges ascending)")
        else:
            for z in zs:
                if f"charge_{z}" in skip:
                    continue
                want_col = [1.0 if s["charge"] == z else 0.0 for s in spec]
                if ifd[f"charge_{z}"] != want_col:
                    bad = ("charge-onehot", f"column charge_{z} = {ifd[f'charge_{z}']!r}, expected {want_col!r}")
                    break
    if bad:
        chk.spec_violation(bad[0], dict(info, clause=bad[1], impl_rows=irows[:20],
                                        impl_feats=[(k, v[:20] if v else v) for k, v in ifeats]))
        return
    # ---- model ---------------------------------------------------------------
    _, mrows, mfeats = model
    if skip:
        mfeats = [kc for kc in mfeats if kc[0] not in skip]
    if mrows != irows:
        k = next((i for i, (a, b) in enumerate(zip(mrows, irows)) if a != b), None)
        chk.corr_break("pepxml-rows", dict(info, first_diff=k, impl=irows[k] if k is not None else len(irows),
                                           model=mrows[k] if k is not None else len(mrows)))
        return
    if [k for k, _ in mfeats] != [k for k, _ in ifeats]:
        chk.corr_break("pepxml-columns", dict(info, impl=[k for k, _ in ifeats], model=[k for k, _ in mfeats]))
        return
    exp_f = np.array([r[4] for r in irows], dtype=np.float64)
    calc_f = np.array([r[5] for r in irows], dtype=np.float64)
    z_f = np.array([r[2] for r in irows], dtype=np.int64)
    raw_derived = {
        "mass_diff": (exp_f - calc_f).tolist(),
        "abs_mz_diff": np.abs((exp_f / z_f + PROTON) - (calc_f / z_f + PROTON)).tolist(),
    }
    for (name, mcol), (_, icol) in zip(mfeats, ifeats):
        if icol is None:
            chk.spec_violation("feature-not-numeric", dict(info, clause=f"feature column {name!r} is not float"))
            return
        if name in raw_derived:
            raw = raw_derived[name]
            kinds = {c[0] for c in mcol}
            if "e" in kinds:
                got = [fv_value(c) for c in mcol]
                ok = all(close(a, b) for a, b in zip(got, icol))
            else:
                fill = None
                if "f" in kinds:
                    nzr = [x for x in raw if x != 0]
                    fill = float(np.log10(np.float64(min(nzr))) - 1) if nzr else None
                got = [fill if c[0] == "f" else fv_value(c, raw=x) for c, x in zip(mcol, raw)]
                ok = all(same(a, b) for a, b in zip(got, icol))
            if not ok:
                alt = col_modes([None if x != x else (Fraction(x), None) for x in raw])
                relational = any(all(close(a, b) for a, b in zip(m, icol)) for m in alt.values())
                if relational and derived_boundary(raw):
                    chk.float_boundary += 1
                    chk.count("float-boundary", name)
                elif relational:
                    chk.corr_break("pepxml-derived", dict(info, column=name, impl=icol[:30], model=got[:30]))
                    return
                else:
                    chk.spec_violation(f"derived:{name}", dict(info, clause=(
                        f"{name} is neither the mass difference nor its documented log transform"),
                        impl=icol[:30], expected=raw[:30]))
                    return
            continue
        got = [fv_value(c) for c in mcol]
        if not (len(got) == len(icol) and all(same(a, b) for a, b in zip(got, icol))):
            vals = [None if c[0] == "nan" else (c[1], None) for c in mcol]
            scol = None
            if name not in ("num_matched_peptides",) and not name.startswith("charge_"):
                scol = [dict(s["scores"]).get(name) for s in spec]
                if ratio_boundary(scol) or ratio_boundary(vals):
                    chk.float_boundary += 1
                    chk.count("float-boundary", "score")
                    continue
            chk.corr_break("pepxml-features", dict(info, column=name, impl=icol[:30], model=got[:30],
                                                   symbolic=[list(map(str, c)) for c in mcol[:30]]))
            return


def derived_boundary(raw):
    xs = [abs(x) for x in raw if x == x and x != 0]
    if not xs:
        return False
    if any(abs(x / 1e-4 - 1) < 1e-6 for x in xs):
        return True
    r = max(xs) / min(xs)
    if abs(r / 10000 - 1) < 1e-6:
        return True
    # decimal exponent spread exactly at the threshold of the scientific branch
    return False


# ----------------------------------------------------------------------------
# options: exclude_features, open_modification_bin_size, default decoy_prefix, to_df=False
# (a case carries them under "opts"; cases without that key take the default path above, unchanged)
# ----------------------------------------------------------------------------
DATASET_ROLES = dict(
    spectrum=["ms_data_file", "scan", "ret_time"], peptide="peptide", protein="proteins", target="label",
    optional=dict(filename="ms_data_file", scan="scan", calcmass="calc_mass", expmass="exp_mass", rt="ret_time",
                  charge="charge"))


def canon_raw(x):
    """an untouched cell of the frame: None (NaN) | ("i", int) | ("t", text) | ("b", bool) | ("x", repr)"""
    if x is None or x is pd.NA:
        return None
    if isinstance(x, (bool, np.bool_)):
        return ("b", bool(x))
    if isinstance(x, (int, np.integer)):
        return ("i", int(x))
    if isinstance(x, (float, np.floating)):
        if x != x:
            return None
        return ("i", int(x)) if float(x).is_integer() else ("x", repr(float(x)))
    if isinstance(x, str):
        return ("t", x)
    return ("x", repr(x))


def impl_kwargs(case):
    o = case["opts"]
    kw = {}
    if not o.get("default_prefix"):
        kw["decoy_prefix"] = case["prefix"]
    ex = o.get("exclude")
    if ex is not None:
        form = o.get("exclude_form", "list")
        if form == "str" and len(ex) == 1:
            kw["exclude_features"] = ex[0]
        else:
            kw["exclude_features"] = tuple(ex) if form == "tuple" else list(ex)
    if o.get("bin") is not None:
        kw["open_modification_bin_size"] = float(Fraction(o["bin"]))
    return kw


def run_impl_opts(case):
    """-> ("ok", rows, [(column, (kind, cells))], dataset-info | None) | ("reject-<kind>", message)
    kind: "f" float column, "b" bool column, "r" any other dtype (cells canonicalised by `canon_raw`)"""
    import mokapot

    paths = write_case(case)
    arg = call_arg(case, paths)
    kw = impl_kwargs(case)
    assert not case["opts"].get("default_prefix") or case["prefix"] == "decoy_"
    try:
        df = mokapot.read_pepxml(arg, to_df=True, **kw)
    except ValueError as e:
        msg = str(e)
        if msg.endswith("is not a PepXML file or is malformed."):
            return ("reject-notxml", msg)
        if "Percolator" in msg:
            return ("reject-percolator", msg)
        if "No objects to concatenate" in msg:
            return ("reject-nofiles", msg)
        return ("exception:ValueError", msg)
    except KeyError as e:
        if e.args == ("ms_data_file",):
            return ("reject-nopsms", repr(e))
        return ("exception:KeyError", repr(e))
    except Exception as e:  # noqa: BLE001
        return ("exception:" + type(e).__name__, repr(e)[:300])
    cols = list(df.columns)
    if cols[: len(FIXED)] != FIXED:
        return ("exception:columns", repr(cols))
    rows = []
    try:
        for rec in zip(*(df[c].tolist() for c in FIXED)):
            rows.append([str(rec[0]), int(rec[1]), int(rec[2]), float(rec[3]), float(rec[4]), float(rec[5]),
                         rec[6], rec[7], bool(rec[8])])
    except (TypeError, ValueError) as e:
        return ("exception:fixed-column-type", repr(e)[:200])
    xcols = []
    for c in cols[len(FIXED):]:
        col = df[c]
        if isinstance(col, pd.DataFrame):
            return ("exception:duplicate-column", c)
        if pd.api.types.is_bool_dtype(col.dtype):
            xcols.append((c, ("b", [bool(x) for x in col.tolist()])))
        elif pd.api.types.is_float_dtype(col.dtype):
            xcols.append((c, ("f", [float(x) for x in col.tolist()])))
        else:
            xcols.append((c, ("r", [canon_raw(x) for x in col.tolist()])))
    ds_info = None
    if case["opts"].get("dataset"):
        try:
            ds = mokapot.read_pepxml(arg, to_df=False, **kw)
            ds_info = dict(
                feature_columns=list(ds._feature_columns), spectrum=list(ds._spectrum_columns),
                peptide=ds._peptide_column, protein=ds._protein_column, target=ds._target_column,
                optional=dict(ds._optional_columns), data_equal=bool(ds.data.reset_index(drop=True).equals(df.reset_index(drop=True))),
                targets_equal=[bool(x) for x in ds.targets.tolist()] == [r[8] for r in rows])
        except Exception as e:  # noqa: BLE001
            ds_info = dict(error=type(e).__name__ + ": " + str(e)[:200])
    return ("ok", rows, xcols, ds_info)


def xv_parse(v):
    if v == "nan":
        return None
    if v[0] == "i":
        return ("i", a_int(v[1]))
    if v[0] == "t":
        return ("t",) + num_parse(v[1])
    if v[0] == "b":
        return ("b", a_bool(v[1]))
    return ("fv", fv_parse(v))


def model_x(resp):
    resp = resp.strip()
    if not resp.startswith("["):
        return (resp,)
    v = _parse_full(resp)
    tags = [None if o[1] == "none" else a_rat(o[1][0]) for o in v[0]]
    feats = [(a_str(kc[0]), [xv_parse(c) for c in kc[1]]) for kc in v[1]]
    return ("ok", tags, feats, [a_str(x) for x in v[2]])


def text_num(s):
    """(root, pow) of a score literal as written, or None"""
    t = s.lower()
    try:
        if "e" in t:
            r, p = t.split("e", 1)
            return (Fraction(r), int(p))
        return (Fraction(t), None)
    except (ValueError, ZeroDivisionError):
        return None


def raw_expected(h, n):
    """direct re-statement: the untouched cell of column `n` for hit `h`"""
    sc = [c for c in h["children"] if c[0] == "s" and c[1] == n]
    if sc:
        return ("t", score_text(sc[-1]))
    if n == "missed_cleavages" and h["mc"] is not None:
        return ("i", h["mc"])
    if n == "ntt" and h["ntt"] is not None:
        return ("i", h["ntt"])
    return None


def findings(chk):
    return len(chk.spec_violations) + len(chk.corr_breaks)


def round4_candidates(c):
    y = c * 10000
    f = y.numerator // y.denominator
    return {float(Fraction(f, 10000)), float(Fraction(f + 1, 10000))}


def compare_opts(chk, case, resp_model, resp_spec, resp_x, tag="gen", resp_attrs=None):
    o = case["opts"]
    excl = list(o.get("exclude") or [])
    b = o.get("bin")
    info = dict(case=case)
    mx = model_x(resp_x)
    if mx[0] in ("bad-args", "bad-op"):
        raise RuntimeError(f"driver answered {mx[0]} for {json.dumps(case)[:400]}")
    impl = run_impl_opts(case)
    if mx[0] == "unmodelled-name":
        # a search score named like another key of the PSM dict: the code overwrites that key (outside the model)
        names = sorted({c[1] for f in case["files"] for h in iter_hits(f) for c in h["children"]
                        if c[0] == "s" and (c[1] in RESERVED or c[1].startswith("charge_"))})
        chk.reject(f"reserved-score-name:{','.join(names)}:{impl[0]}")
        return
    if mx[0] == "unmodelled":
        why = "nonpositive-bin" if (b is not None and Fraction(b) <= 0) else "zero-charge"
        chk.reject(f"unmodelled-{why}:{impl[0]}")
        return
    if impl[0] != "ok":
        n0 = findings(chk)
        compare(chk, case, resp_model, resp_spec, tag, impl=impl, resp_attrs=resp_attrs)
        if findings(chk) == n0 and mx[0] != impl[0]:
            chk.corr_break("pepxml-opts", dict(info, impl=list(impl), model=mx[0]))
        return
    _, irows, xcols, ds_info = impl
    # ---- the tag appended by open_modification_bin_size ------------------------------
    tags = None
    base_rows = irows
    if b is not None:
        tags, base_rows = [], []
        for i, r in enumerate(irows):
            pep = r[6]
            k = pep.rfind("[")
            t = None
            if k >= 0 and pep.endswith("]"):
                try:
                    t = float(pep[k + 1:-1])
                except ValueError:
                    t = None
            if t is None or t != t:
                chk.spec_violation("openmod-suffix", dict(info, clause=(
                    f"row {i}: peptide {pep!r} does not end with a numeric [bin] group"), impl_rows=irows[:20]))
                return
            tags.append(t)
            base_rows.append(r[:6] + [pep[:k]] + r[7:])
    names = [c for c, _ in xcols]
    skip = frozenset(n for n in excl if n in names)
    reduced = [(c, v[1] if v[0] == "f" else None) for c, v in xcols if c not in skip]
    # ---- everything the options must not touch: same checks as the default call ------
    n0 = findings(chk)
    compare(chk, case, resp_model, resp_spec, tag, impl=("ok", base_rows, reduced), skip=skip, resp_attrs=resp_attrs)
    if findings(chk) != n0:
        return
    if mx[0] != "ok":
        chk.corr_break("pepxml-opts", dict(info, impl="ok", model=mx[0]))
        return
    _, mtags, mfeats, mfeatcols = mx
    spec = spec_rows(resp_spec)
    hits = [h for f in case["files"] for h in iter_hits(f)]
    exp_f = np.array([float(s["exp"]) for s in spec], dtype=np.float64)
    calc_f = np.array([float(s["calc"]) for s in spec], dtype=np.float64)
    z_f = np.array([s["charge"] for s in spec], dtype=np.int64)
    derived = {
        "mass_diff": (exp_f - calc_f).tolist(),
        "abs_mz_diff": np.abs((exp_f / z_f + PROTON) - (calc_f / z_f + PROTON)).tolist(),
    }
    xd = dict(xcols)
    # ---- excluded columns: specification (direct re-statement) ------------------------
    gone = [n for n in excl if n in column_pool(case) and n not in names]
    if gone:
        chk.spec_violation("excluded-column-dropped", dict(info, clause=(
            f"excluded column(s) {gone!r} are missing from the returned frame"), impl_columns=names))
        return
    for n in sorted(skip):
        kind, vals = xd[n]
        if n in derived:
            ok = kind == "f" and all(same(a, c) for a, c in zip(derived[n], vals))
            want_vals = derived[n]
        elif n.startswith("charge_"):
            want_vals = [f"charge_{s['charge']}" == n for s in spec]
            ok = kind == "b" and vals == want_vals
        elif n == "num_matched_peptides":
            with np.errstate(all="ignore"):
                want_vals = [float("nan") if h["nm"] is None else float(np.log10(np.float64(h["nm"]))) for h in hits]
            ok = kind == "f" and all(same(a, c) for a, c in zip(want_vals, vals))
        else:
            want_vals = [raw_expected(h, n) for h in hits]
            got = vals if kind == "r" else ([canon_raw(x) for x in vals] if kind == "f" else None)
            ok = got == want_vals
        if not ok or len(vals) != len(hits):
            chk.spec_violation("excluded-column", dict(info, clause=(
                f"excluded column {n!r} is not left as parsed (dtype kind {kind!r})"),
                impl=[list(x) if isinstance(x, tuple) else x for x in vals[:30]],
                expected=[list(x) if isinstance(x, tuple) else x for x in want_vals[:30]]))
            return
    # ---- bins: specification ------------------------------------------------------------
    if b is not None:
        bq = Fraction(b)
        bf = float(bq)
        md_f = derived["mass_diff"]
        md_q = [s["exp"] - s["calc"] for s in spec]
        lo_q = min(md_q)
        bad = None
        for i, (t, md) in enumerate(zip(tags, md_f)):
            if abs(md - t) > bf / 2 + 5e-5 + 1e-9 * max(1.0, abs(md)):
                bad = f"row {i}: bin value {t!r} is further than half a bin ({b}) from the mass difference {md!r}"
                break
            g = (t - float(lo_q) - bf / 2) / bf
            if bf >= 0.002 and abs(g - round(g)) > 5e-5 / bf + 1e-6:
                bad = (f"row {i}: bin value {t!r} is not a bin centre of the grid anchored at the smallest mass "
                       f"difference {float(lo_q)!r} with step {b}")
                break
        if bad is None:
            order = sorted(range(len(tags)), key=lambda i: (md_f[i], tags[i]))
            for i, j in zip(order, order[1:]):
                if tags[i] > tags[j] or (md_f[i] == md_f[j] and tags[i] != tags[j]):
                    bad = f"rows {i},{j}: bin values {tags[i]!r},{tags[j]!r} are not monotone in the mass difference"
                    break
        if bad:
            chk.spec_violation("openmod-bin", dict(info, clause=bad, impl_tags=tags[:30], mass_diff=md_f[:30]))
            return
    # ---- model ---------------------------------------------------------------------------
    if [k for k, _ in mfeats] != names:
        chk.corr_break("pepxml-opts-columns", dict(info, impl=names, model=[k for k, _ in mfeats]))
        return
    md_ = dict(mfeats)
    for n in sorted(skip):
        kind, vals = xd[n]
        mcol = md_[n]
        ok = len(mcol) == len(vals)
        for mc, x in zip(mcol, vals):
            if not ok:
                break
            if kind == "b":
                ok = mc == ("b", x)
            elif kind == "f" and mc is not None and mc[0] == "fv":
                fv = mc[1]
                ok = close(fv_value(fv), x) if n in derived else same(fv_value(fv), x)
            else:
                cx = x if kind == "r" else canon_raw(x)
                if cx is None or mc is None:
                    ok = cx is None and mc is None
                elif cx[0] == "t":
                    ok = mc[0] == "t" and text_num(cx[1]) == (mc[1], mc[2])
                else:
                    ok = mc == cx
        if not ok:
            chk.corr_break("pepxml-opts-excluded", dict(info, column=n, impl=[kind, [
                list(x) if isinstance(x, tuple) else x for x in vals[:30]]], model=[str(c) for c in mcol[:30]]))
            return
    if b is not None:
        for i, (t, mt) in enumerate(zip(tags, mtags)):
            if mt is not None and float(mt) == t:
                continue
            u = (md_q[i] - lo_q) / bq
            idx = u.numerator // u.denominator
            near_edge = min(u - idx, idx + 1 - u) < Fraction(1, 10 ** 6)
            cands = set()
            for j in (idx - 1, idx, idx + 1):
                cands |= round4_candidates(lo_q + j * bq + bq / 2)
            y = (lo_q + idx * bq + bq / 2) * 10000
            tie = abs((y - (y.numerator // y.denominator)) - Fraction(1, 2)) < Fraction(1, 10 ** 6)
            if (near_edge or tie) and t in cands:
                chk.float_boundary += 1
                chk.count("float-boundary", "openmod-edge" if near_edge else "openmod-tie")
                continue
            chk.corr_break("pepxml-openmod", dict(info, row=i, impl=t, model=None if mt is None else float(mt),
                                                  mass_diff=md_f[i], smallest=float(lo_q)))
            return
    elif any(t is not None for t in mtags):
        chk.corr_break("pepxml-openmod", dict(info, impl="no tag", model="tag"))
        return
    # ---- to_df=False: feature list and column roles of the LinearPsmDataset --------------------
    if ds_info is not None:
        if "error" in ds_info:
            one_sided = len({r[8] for r in irows}) < 2
            if one_sided and ("No decoy PSMs" in ds_info["error"] or "No target PSMs" in ds_info["error"]):
                chk.reject("dataset:" + ds_info["error"].split(":")[1].strip())
            else:
                chk.spec_violation("dataset-raised", dict(info, clause=(
                    "read_pepxml(to_df=False) raised where to_df=True returned PSMs of both classes: "
                    + ds_info["error"])))
            return
        want_fc = [n for n in names if n not in FIXED and n not in excl]
        bad = None
        if ds_info["feature_columns"] != want_fc:
            bad = ("dataset-feature-columns", f"feature columns {ds_info['feature_columns']!r}, expected {want_fc!r}")
        elif {k: ds_info[k] for k in DATASET_ROLES} != DATASET_ROLES:
            bad = ("dataset-roles", f"column roles { {k: ds_info[k] for k in DATASET_ROLES}!r}")
        elif not (ds_info["data_equal"] and ds_info["targets_equal"]):
            bad = ("dataset-data", "the dataset does not hold the PSM table returned with to_df=True")
        if bad:
            chk.spec_violation(bad[0], dict(info, clause=bad[1]))
            return
        if mfeatcols != ds_info["feature_columns"]:
            chk.corr_break("pepxml-opts-featcols", dict(info, impl=ds_info["feature_columns"], model=mfeatcols))
            return


def hit_mass_diffs(case):
    out = []
    for f in case["files"]:
        for r in f.get("runs", []):
            for sp in r["spectra"]:
                for res in sp["results"]:
                    for h in res:
                        out.append(Fraction(sp["exp"]) - Fraction(h["calc"]))
    return out


def column_pool(case):
    """names of the columns the returned frame will have (besides the fixed ones)"""
    names = []
    hits = [h for f in case["files"] for h in iter_hits(f)]
    for h in hits:
        if h["mc"] is not None:
            names.append("missed_cleavages")
        if h["ntt"] is not None:
            names.append("ntt")
        if h["nm"] is not None:
            names.append("num_matched_peptides")
        names += [c[1] for c in h["children"] if c[0] == "s"]
    names += ["mass_diff", "abs_mz_diff"]
    for f in case["files"]:
        for r in f.get("runs", []):
            for sp in r["spectra"]:
                if any(sp["results"]) and any(res for res in sp["results"]):
                    names.append(f"charge_{sp['charge']}")
    out = []
    for n in names:
        if n not in out:
            out.append(n)
    return out


BIN_SIZES = ["0.01", "0.05", "0.5", "0.003", "0.25", "1.7", "0.0124", "2", "0.1", "0.002", "37"]


def gen_opts(rng, case):
    o = {}
    pool = column_pool(case)
    if rng.random() < 0.65:
        k = rng.choice([0, 1, 1, 1, 2, 2, 3, 5])
        cand = pool + ["nope", "scan", "peptide", "charge", "label"]
        ex = rng.sample(cand, min(k, len(cand)))
        o["exclude"] = ex
        o["exclude_form"] = "str" if (len(ex) == 1 and rng.random() < 0.4) else rng.choice(["tuple", "list"])
    if rng.random() < 0.55:
        mds = hit_mass_diffs(case)
        span = (max(mds) - min(mds)) if mds else Fraction(0)
        b = rng.choice(BIN_SIZES)
        while span / Fraction(b) > 2 * 10 ** 5:
            b = str(Fraction(b) * 10)
        if rng.random() < 0.03:
            b = rng.choice(["0", "-0.5"])
        o["bin"] = b
    if case["prefix"] == "decoy_" and rng.random() < 0.6:
        o["default_prefix"] = True
    o["dataset"] = rng.random() < 0.25
    return o


def gen_opts_case(rng, size=3):
    case = gen_case(rng, size)
    if rng.random() < 0.5:
        case["prefix"] = "decoy_"  # so that the default of `decoy_prefix` is exercised often
    case["opts"] = gen_opts(rng, case)
    return case


def opts_doc():
    h = simple_hit
    hits = [
        h(prot="decoy_P", calc="500.25", mc=1, nm=10, children=[["s", "xcorr", "2.5", None], ["s", "expect", "1.5", "e-5"]]),
        h(prot="T1", calc="500.26", ntt=2, nm=100, children=[["s", "xcorr", "0.75", None], ["s", "expect", "1", "e-9"],
                                                              ["m", [[2, "15.9949"]]]]),
        h(prot="T2", calc="499.85", mc=0, children=[["s", "expect", "3", "e-2"], ["a", "decoy_Q"]]),
        h(prot="decoy_R", calc="484.7551", mc=2, ntt=1, children=[["s", "xcorr", "30000", None], ["s", "ntt", "7", None]]),
    ]
    spectra = [dict(scan=k + 1, charge=2 + (k % 2), rt="1.5", exp="500.75", results=[[x]]) for k, x in enumerate(hits)]
    return dict(runs=[dict(base="r", ext=".mzML", spectra=spectra)], render={})


def sweep_opts(kmax):
    """every exclusion set of <= kmax names over a fixed document x {no bin, two bin sizes}"""
    pool = ["xcorr", "expect", "ntt", "missed_cleavages", "num_matched_peptides", "mass_diff", "abs_mz_diff",
            "charge_2", "charge_3", "nope"]
    cases = []
    for k in range(0, kmax + 1):
        for ex in itertools.combinations(pool, k):
            for b in (None, "0.3", "0.0124"):
                cases.append(dict(prefix="decoy_", files=[opts_doc()], as_list=True, opts=dict(
                    exclude=list(ex), exclude_form="tuple" if k % 2 else "list", bin=b,
                    default_prefix=(k % 2 == 0), dataset=(b is None))))
    return cases


def opts_edge_cases():
    cases = []
    base = dict(prefix="decoy_", files=[opts_doc()], as_list=True)
    for o in (dict(), dict(default_prefix=True, dataset=True), dict(exclude=[], exclude_form="tuple", dataset=True),
              dict(exclude=["xcorr"], exclude_form="str", dataset=True), dict(bin="0.5"), dict(bin="0"),
              dict(bin="-0.5"), dict(bin="0.01", exclude=["mass_diff", "expect"], dataset=True), dict(bin="0.0123"),
              dict(exclude=["scan", "peptide", "label"], exclude_form="list", dataset=True)):
        cases.append(dict(base, opts=o))
    # rejection is independent of the options
    cases.append(dict(prefix="decoy_", files=[opts_doc(), dict(bad="tsv")], as_list=True,
                      opts=dict(exclude=["xcorr"], bin="0.5")))
    perc = opts_doc()
    perc["runs"][0]["spectra"][0]["results"][0][0]["children"].append(["s", "Percolator PEP", "0.5", None])
    cases.append(dict(prefix="decoy_", files=[perc], as_list=True,
                      opts=dict(exclude=["Percolator PEP"], exclude_form="str", bin="0.5")))
    # search scores named like another key of the PSM dict (outside the model; outcome tallied)
    for nm in ("scan", "peptide", "label", "ret_time", "charge", "proteins", "calc_mass", "mass_diff", "charge_2",
               "num_matched_peptides"):
        d = opts_doc()
        d["runs"][0]["spectra"][1]["results"][0][0]["children"].insert(1, ["s", nm, "7", None])
        cases.append(dict(prefix="decoy_", files=[d], as_list=True, opts=dict()))
    return cases


def case_key(case):
    return hashlib.sha1(json.dumps(case, sort_keys=True).encode()).hexdigest()


def nontrivial(case):
    if any(v not in (None, False) for v in (case.get("opts") or {}).values()):
        return True
    if len(case["files"]) != 1 or any("bad" in f for f in case["files"]):
        return True
    f = case["files"][0]
    if len(f["runs"]) > 1:
        return True
    for h in iter_hits(f):
        for c in h["children"]:
            if c[0] == "a" or (c[0] == "m" and len(c[1]) >= 2):
                return True
    return False


def tally(chk, case, tag):
    chk.count("source", tag)
    chk.count("files", len(case["files"]))
    chk.count("prefix", case["prefix"] or "<empty>")
    hits = [h for f in case["files"] for h in iter_hits(f)]
    chk.count("hits", len(hits) if len(hits) < 10 else f"{len(hits) // 10 * 10}+")
    for f in case["files"]:
        if "bad" in f:
            chk.count("badfile", f["bad"])
        else:
            chk.count("runs", len(f["runs"]))
    for h in hits[:50]:
        nm = [len(c[1]) for c in h["children"] if c[0] == "m"]
        chk.count("mods", sum(nm) if nm else "none")
        chk.count("modinfos", len(nm))
        alts = [c for c in h["children"] if c[0] == "a"]
        chk.count("alts", len(alts))
        accs, label, sp = py_spec_hit(case["prefix"], h)
        chk.count("label", "target" if label else "decoy")
        if alts:
            pat = "".join("D" if a.startswith(case["prefix"]) else "T" for a in accs)
            chk.count("prefix-pattern", pat if len(pat) <= 4 else pat[:4] + "…")
        chk.count("optional-attrs", "".join(k[0] if h[k] is not None else "-" for k in ("mc", "ntt", "nm")))
        chk.count("mods-in-spec", sp is not None)


def eval_cases(chk, cases, tag="gen"):
    lines, at = [], []
    tree_at = {}
    for k, c in enumerate(cases):
        w = wire_files(c)
        at.append(len(lines))
        lines.append(req("pepxml", c["prefix"], w))
        lines.append(req("pepxml-spec", c["prefix"], w))
        lines.append(req("pepxml-attrs", w))
        if "opts" in c:
            o = c["opts"]
            lines.append(req("pepxml-opts", opt(None if o.get("default_prefix") else c["prefix"]), w,
                             list(o.get("exclude") or []), opt(None if o.get("bin") is None else Fraction(o["bin"]))))
        for fi, f in enumerate(c["files"]):
            if "tree" in f:
                tree_at[(k, fi)] = len(lines)
                lines.append(req("pepxml-tree", c["prefix"], wire_tree(f["tree"])))
    resp = common.driver_batch(lines)
    for k, c in enumerate(cases):
        nv, nc = len(chk.spec_violations), len(chk.corr_breaks)
        tree_resp = {fi: resp[i] for (kk, fi), i in tree_at.items() if kk == k}
        if tree_resp:
            compare_tree(chk, c, tree_resp)
        if any("tree_error" in f for f in c["files"]):
            compare_tree_error(chk, c)
        elif "opts" in c:
            compare_opts(chk, c, resp[at[k]], resp[at[k] + 1], resp[at[k] + 3], tag, resp_attrs=resp[at[k] + 2])
        else:
            compare(chk, c, resp[at[k]], resp[at[k] + 1], tag, resp_attrs=resp[at[k] + 2])
        sample = None
        if len(chk.samples) < 4 and n_hits(c) <= 3:
            sample = dict(case=c, model=resp[at[k]][:400])
        chk.case(None, case_key(c) if nontrivial(c) else None, sample=sample)
        tally(chk, c, tag)
        tally2(chk, c)
        tally3(chk, c)
        if "opts" in c:
            tally_opts(chk, c)
        if len(chk.spec_violations) > nv:
            chk.count("verdict", "spec-violation")
        elif len(chk.corr_breaks) > nc:
            chk.count("verdict", "corr-break")


def tally_opts(chk, case):
    o = case["opts"]
    ex = o.get("exclude")
    chk.count("opt-exclude", "not-given" if ex is None else len(ex))
    if ex is not None:
        chk.count("opt-exclude-form", o.get("exclude_form", "list"))
        pool = column_pool(case)
        for n in ex:
            kind = ("absent" if n not in pool and n not in FIXED else "fixed" if n in FIXED else
                    "derived" if n in ("mass_diff", "abs_mz_diff") else "charge" if n.startswith("charge_") else
                    "num_matched_peptides" if n == "num_matched_peptides" else
                    "attribute" if n in ("missed_cleavages", "ntt") else "score")
            chk.count("opt-excluded-kind", kind)
    chk.count("opt-bin", "not-given" if o.get("bin") is None else o["bin"])
    chk.count("opt-default-prefix", bool(o.get("default_prefix")))
    chk.count("opt-dataset", bool(o.get("dataset")))


# ----------------------------------------------------------------------------
# generators
# ----------------------------------------------------------------------------
AA = "ACDEFGHIKLMNPQRSTVWY"
PREFIXES = ["decoy_", "decoy_", "rev_", "DECOY", "d", "XXX_", ""]
SCORE_NAMES = ["hyperscore", "nextscore", "expect", "xcorr", "deltacn", "spscore", "sprank", "lnExpect", "IonFrac",
               "b score", "Δscore", "ntt", "missed_cleavages"]


def dec_text(rng, lo, hi, digits):
    """a decimal literal in [lo, hi] with at most `digits` fractional digits"""
    d = rng.randint(0, digits)
    scale = 10 ** d
    n = rng.randint(int(lo * scale), int(hi * scale))
    if d == 0:
        return str(n)
    sign = "-" if n < 0 else ""
    n = abs(n)
    return f"{sign}{n // scale}.{n % scale:0{d}d}"


def exp_text(rng, p):
    style = rng.choice(["e%+03d", "e%d", "E%+d", "e%+d"])
    return style % p


def gen_protein(rng, prefix, want_decoy):
    name = rng.choice(["sp|P12345|PROT_HUMAN", "Q9", "XP_1.2", "tr|A0|B", "gene-7", "prot"])
    r = rng.random()
    if want_decoy:
        acc = prefix + (name if r > 0.1 else "")
    else:
        if r < 0.15 and prefix:
            acc = name + prefix  # prefix at the end
        elif r < 0.3 and prefix:
            acc = "sp|" + prefix + name  # prefix inside
        elif r < 0.4 and prefix:
            acc = prefix[:-1] + name if len(prefix) > 1 else name  # truncated prefix
        elif r < 0.5 and prefix:
            acc = prefix.swapcase() + name if prefix.swapcase() != prefix else name
        else:
            acc = name
        if prefix == "" or acc.startswith(prefix):
            # with the empty prefix (or by accident) everything is a decoy; keep what we built
            pass
    r2 = rng.random()
    if r2 < 0.35:
        desc = " " + rng.choice(["Some protein OS=Homo sapiens", prefix + "x y", "desc", " double"])
    else:
        desc = ""
    if rng.random() < 0.03:
        return " " + acc + desc  # leading blank: empty accession
    return acc + desc


def gen_mods(rng, pep, in_spec):
    n = len(pep)
    k = rng.choice([1, 1, 1, 2, 2, 3, 4, 0])
    masses = ["357.2579", "15.9949", "160.0307", "57", "1.5", "229.16293", "-17.03", "4"]
    if in_spec:
        lo = 0 if rng.random() < 0.15 else 1
        if rng.random() < 0.2:
            pos = sorted(rng.choice(range(lo, n + 1)) for _ in range(k))  # repeats allowed
        else:
            pos = sorted(rng.sample(range(lo, n + 1), min(k, n + 1 - lo)))
    else:
        pos = [rng.randint(0, n + 3) for _ in range(k)]
    return ["m", [[p, rng.choice(masses)] for p in pos]]


def gen_schema(rng):
    """score names of a file with a value style each"""
    k = rng.choice([0, 1, 2, 3, 3, 4, 5])
    names = rng.sample(SCORE_NAMES[:11], k)
    if rng.random() < 0.08:
        names.append(rng.choice(["ntt", "missed_cleavages"]))
    styles = ["plain", "plain", "sci", "sci-narrow", "wide", "binary", "neg", "zeros", "ints", "thresh", "mixed-e"]
    return [(n, rng.choice(styles), rng.randint(-8, 3)) for n in names]


def gen_score_value(rng, style, base):
    """-> (root_text, exp_text|None)"""
    if style == "plain":
        return dec_text(rng, 0, 60, 4), None
    if style == "ints":
        return str(rng.randint(0, 500)), None
    if style == "neg":
        return dec_text(rng, -30, 30, 3), None
    if style == "binary":
        return rng.choice(["0", "1", "1.0", "0.0"]), None
    if style == "zeros":
        return rng.choice(["0", "0.0", dec_text(rng, 0, 3, 2), "25000", "0.0001"]), None
    if style == "wide":
        return rng.choice(["0.0001", "0.001", "0.5", "1", "3", "10", "1000", "10000", "30000", "0.00025", "2.5"]), None
    if style == "thresh":  # ratios around 10000 with exactly representable values
        return rng.choice(["1", "2", "4", "10000", "20000", "9999", "40000", "0.5", "5000", "19999", "0"]), None
    if style == "sci":
        return dec_text(rng, 1, 9, 3), exp_text(rng, base + rng.randint(0, 9))
    if style == "sci-narrow":
        return dec_text(rng, 1, 9, 3), exp_text(rng, base + rng.randint(0, 4))
    if style == "mixed-e":
        if rng.random() < 0.5:
            return dec_text(rng, 0, 9, 2), None
        return dec_text(rng, 0, 9, 2), exp_text(rng, rng.randint(-6, 2))
    raise AssertionError(style)


def gen_hit(rng, prefix, schema, spec_prob):
    n = rng.choice([1, 2, 3, 5, 7, 8, 10, 14])
    pep = "".join(rng.choice(AA) for _ in range(n))
    pat = rng.choice(["mixed", "mixed", "all-decoy", "all-target", "decoy-then-target", "target-then-decoy"])
    nalt = rng.choice([0, 0, 0, 1, 1, 2, 3, 5])
    if pat == "mixed":
        flags = [rng.random() < 0.5 for _ in range(nalt + 1)]
    elif pat == "all-decoy":
        flags = [True] * (nalt + 1)
    elif pat == "all-target":
        flags = [False] * (nalt + 1)
    elif pat == "decoy-then-target":
        k = rng.randint(0, nalt + 1)
        flags = [i < k for i in range(nalt + 1)]
    else:
        k = rng.randint(0, nalt + 1)
        flags = [i >= k for i in range(nalt + 1)]
    children = []
    r = rng.random()
    if r < 0.55:
        children.append(gen_mods(rng, pep, rng.random() < spec_prob))
        if rng.random() < 0.04:
            children.append(gen_mods(rng, pep, True))
    for fl in flags[1:]:
        children.append(["a", gen_protein(rng, prefix, fl)])
    for name, style, base in schema:
        if rng.random() < 0.06:
            continue
        rt, et = gen_score_value(rng, style, base)
        children.append(["s", name, rt, et])
        if rng.random() < 0.03:
            rt, et = gen_score_value(rng, style, base)
            children.append(["s", name, rt, et])
    order = rng.random()
    if order < 0.35:
        rng.shuffle(children)
    elif order < 0.6:
        children.sort(key=lambda c: "msa".index(c[0]))
    return dict(
        calc=dec_text(rng, 300, 4000, 4), pep=pep, prot=gen_protein(rng, prefix, flags[0]),
        mc=rng.choice([None, 0, 1, 2]) if rng.random() < 0.85 else None,
        ntt=rng.choice([None, 2, 2, 1, 0]),
        nm=rng.choice([None, None, 1, 10, 37, 2500, 100000]),
        children=children,
    )


def gen_file(rng, prefix, size):
    schema = gen_schema(rng)
    runs = []
    attr_mode = rng.choice(["all", "none", "mixed", "mixed"])
    for ri in range(rng.choice([1, 1, 1, 2, 2, 3])):
        ext = rng.choice([".mzML", ".mzXML", ".raw", "", ".d"])
        base = rng.choice(["run", "UM_F_50cm", "a.b", "exp 1", "x"]) + str(ri)
        if rng.random() < 0.3:
            base += ext  # already carries the extension
        spectra = []
        for _ in range(rng.choice([0, 1, 1, 2, 3, size])):
            results = []
            for _ in range(rng.choice([0, 1, 1, 1, 1, 2])):
                hits = []
                for _ in range(rng.choice([0, 1, 1, 2, 3, 5])):
                    h = gen_hit(rng, prefix, schema, 0.85)
                    if attr_mode == "all":
                        h["mc"], h["ntt"], h["nm"] = h["mc"] or 0, h["ntt"] or 2, h["nm"] or 12
                    elif attr_mode == "none":
                        h["mc"] = h["ntt"] = h["nm"] = None
                    hits.append(h)
                results.append(hits)
            masses_close = rng.random() < 0.3
            spec = dict(scan=rng.randint(1, 99999), charge=rng.choice([1, 2, 2, 3, 3, 4, 5, 7]),
                        rt=dec_text(rng, 0, 7200, 3), exp=dec_text(rng, 300, 4000, 4), results=results)
            if masses_close:
                for res in results:
                    for h in res:
                        delta = rng.choice(["0", "0.001", "0.0203", "1.0034", "-0.002", "15.9949", "0.5"])
                        h["calc"] = dec_sub(spec["exp"], delta)
            spectra.append(spec)
        runs.append(dict(base=base, ext=ext, spectra=spectra))
    if not any(h for r in runs for s in r["spectra"] for res in s["results"] for h in res) and rng.random() < 0.9:
        # files without any search hit are rejected by the code (KeyError); keep them rare
        tgt = rng.choice(runs)
        tgt["spectra"].insert(rng.randint(0, len(tgt["spectra"])), dict(
            scan=rng.randint(1, 99999), charge=rng.choice([1, 2, 3]), rt=dec_text(rng, 0, 7200, 3),
            exp=dec_text(rng, 300, 4000, 4), results=[[gen_hit(rng, prefix, schema, 0.85)]]))
    render = dict(ns=rng.random() < 0.7, extra_attrs=rng.random() < 0.5, extra_elems=rng.random() < 0.4,
                  rev_attrs=rng.random() < 0.3, newlines=rng.random() < 0.8)
    return dict(runs=runs, render=render)


def dec_sub(a, b):
    """decimal text of a - b (both decimal literals)"""
    x = Fraction(a) - Fraction(b)
    s = f"{float(x):.4f}"
    assert Fraction(s) == x, (a, b, s)
    return s


def gen_case(rng, size=4, prefixes=None):
    prefix = rng.choice(prefixes or PREFIXES)
    r = rng.random()
    nfiles = 1 if r < 0.7 else (2 if r < 0.9 else 3)
    files = []
    for _ in range(nfiles):
        q = rng.random()
        if q < 0.04:
            files.append(dict(bad=rng.choice(["tsv", "empty", "truncated", "unclosed", "garbage-tail"])))
        elif q < 0.06:
            files.append(dict(runs=[], render=dict(ns=False, root=rng.choice(["html", "msms_pipeline_analysis"]))))
        else:
            files.append(gen_file(rng, prefix, size))
    if rng.random() < 0.03:
        # a Percolator-processed file
        hs = [h for f in files for h in iter_hits(f)]
        if hs:
            h = rng.choice(hs)
            h["children"].insert(rng.randint(0, len(h["children"])),
                                 ["s", rng.choice(PERCOLATOR), dec_text(rng, 0, 1, 4), None])
    return dict(prefix=prefix, files=files, as_list=rng.random() < 0.7, as_tuple=rng.random() < 0.2)


# ----------------------------------------------------------------------------
# exhaustive small-scope sweeps (each packs many hits / columns into few documents)
# ----------------------------------------------------------------------------
def simple_hit(pep="PEPTIDEK", prot="T1", children=(), calc="500.25", mc=None, ntt=None, nm=None):
    return dict(calc=calc, pep=pep, prot=prot, mc=mc, ntt=ntt, nm=nm, children=[list(c) for c in children])


def pack(hits, prefix="decoy_", per_doc=400, render=None):
    """documents of one run, one spectrum per hit"""
    cases = []
    for i in range(0, len(hits), per_doc):
        spectra = [dict(scan=k + 1, charge=2, rt="1.5", exp="500.75", results=[[h]])
                   for k, h in enumerate(hits[i:i + per_doc])]
        cases.append(dict(prefix=prefix, files=[dict(runs=[dict(base="r", ext=".mzML", spectra=spectra)],
                                                     render=render or {})], as_list=False))
    return cases


def sweep_mods(nmax, kmax):
    hits = []
    masses = ["1", "22.5"]
    for n in range(1, nmax + 1):
        pep = "ACDE"[:n]
        opts = [(p, m) for p in range(0, n + 2) for m in masses]
        for k in range(0, kmax + 1):
            for seq in itertools.product(opts, repeat=k):
                hits.append(simple_hit(pep=pep, children=[["m", [list(x) for x in seq]], ["s", "x", "1.5", None]]))
    return hits


def sweep_labels(amax, prefix="decoy_"):
    kinds = {"T": "sp|T", "D": prefix + "P", "P": prefix, "S": "T " + prefix + "in description", "I": "sp|" + prefix + "X"}
    hits = []
    for k in range(0, amax + 1):
        for pat in itertools.product("TDPSI", repeat=k + 1):
            ch = [["s", "x", "1.5", None]] + [["a", kinds[c]] for c in pat[1:]]
            hits.append(simple_hit(prot=kinds[pat[0]], children=ch))
    return hits


def sweep_interleavings():
    base = [["m", [[1, "10"], [3, "2.5"]]], ["s", "x", "1.5", None], ["s", "y", "2", None], ["a", "T9"],
            ["a", "decoy_9"]]
    hits = []
    for prot in ("decoy_A", "A"):
        for perm in itertools.permutations(base):
            hits.append(simple_hit(prot=prot, children=perm))
    # duplicates of a score name and two modification_info elements, every order
    base2 = [["s", "x", "1.5", None], ["s", "x", "7", None], ["m", [[2, "5"]]], ["m", [[1, "33"]]], ["s", "y", "0", None]]
    for perm in itertools.permutations(base2):
        hits.append(simple_hit(prot="decoy_A", children=perm, ntt=2))
    return hits


def sweep_shapes(max_runs, max_spec, max_res, max_hits):
    """every document shape; two files when `max_runs` allows"""
    def hit(tag):
        return simple_hit(pep="PEK", prot=f"T{tag}", children=[["s", "x", str(tag), None]])

    hit_opts = list(range(0, max_hits + 1))
    res_opts = [c for k in range(0, max_res + 1) for c in itertools.product(hit_opts, repeat=k)]
    spec_opts = [c for k in range(0, max_spec + 1) for c in itertools.product(res_opts, repeat=k)]
    cases = []
    for nr in range(1, max_runs + 1):
        for shape in itertools.product(spec_opts, repeat=nr):
            tag = 0
            runs = []
            for ri, sp in enumerate(shape):
                spectra = []
                for si, ress in enumerate(sp):
                    results = []
                    for nh in ress:
                        hs = []
                        for _ in range(nh):
                            tag += 1
                            hs.append(hit(tag))
                        results.append(hs)
                    spectra.append(dict(scan=10 * ri + si + 1, charge=2 + si, rt=f"{ri}.{si}", exp=f"{500 + tag}.5",
                                        results=results))
                runs.append(dict(base=f"run{ri}", ext=".mzML" if ri else "", spectra=spectra))
            cases.append(dict(prefix="decoy_", files=[dict(runs=runs, render={})], as_list=bool(tag % 2)))
    return cases


POOL = [None, ("0", None), ("1", None), ("0.0001", None), ("1", "e-4"), ("2.5", "e-05"), ("5", None), ("20000", None),
        ("-1", None), ("3", "e+00")]


def sweep_columns(width, per_doc=150):
    """every column of `width` cells over POOL, as separate score names of a `width`-hit document"""
    cols = list(itertools.product(POOL, repeat=width))
    cases = []
    for i in range(0, len(cols), per_doc):
        chunk = cols[i:i + per_doc]
        hits = []
        for r in range(width):
            ch = []
            for j, col in enumerate(chunk):
                if col[r] is not None:
                    ch.append(["s", f"c{j}", col[r][0], col[r][1]])
            hits.append(simple_hit(pep="PEK", prot="T", children=ch, calc="500.25"))
        spectra = [dict(scan=k + 1, charge=2, rt="1", exp="500.75", results=[[h]]) for k, h in enumerate(hits)]
        cases.append(dict(prefix="decoy_", files=[dict(runs=[dict(base="r", ext=".x", spectra=spectra)], render={})],
                          as_list=True))
    return cases


def exhaustive(chk, thorough):
    plan = [
        ("mods", pack(sweep_mods(4 if thorough else 3, 3 if thorough else 2))),
        ("labels", pack(sweep_labels(4 if thorough else 2))),
        ("labels-rev", pack(sweep_labels(2, prefix="rev_"), prefix="rev_")),
        ("interleavings", pack(sweep_interleavings())),
        ("shapes", sweep_shapes(2, 2, 2, 1) if thorough else sweep_shapes(1, 2, 2, 1)),
        ("columns", sweep_columns(4 if thorough else 2) + sweep_columns(3 if thorough else 1)),
        ("opts", sweep_opts(3 if thorough else 1)),
        ("datafile", sweep_datafile()),
        ("duplicates", sweep_dups()),
        ("charges", sweep_charges()),
        ("hit-meta", sweep_hit_meta()),
        ("prefix-metachars", sweep_prefixes2(3 if thorough else 2)),
    ]
    summary = {}
    for name, cases in plan:
        for i in range(0, len(cases), 200):
            eval_cases(chk, cases[i:i + 200], tag="sweep-" + name)
        summary[name] = dict(documents=len(cases), hits=sum(n_hits(c) for c in cases))
    chk.extra["exhaustive_sweep"] = summary


def edge_cases():
    """hand-picked inputs run before the generated ones"""
    h = simple_hit
    cases = [
        dict(prefix="decoy_", files=[], as_list=True),
        dict(prefix="decoy_", files=[dict(bad="tsv")], as_list=False),
        dict(prefix="decoy_", files=[dict(runs=[], render=dict(root="html", ns=False))], as_list=True),
        dict(prefix="decoy_", files=[GOOD_DOC, dict(bad="truncated")], as_list=True),
        dict(prefix="decoy_", files=[dict(bad="empty"), GOOD_DOC], as_list=True),
        dict(prefix="decoy_", files=[GOOD_DOC, dict(runs=[dict(base="e", ext=".raw", spectra=[])], render={})],
             as_list=True),
    ]
    for attr in ("retention_time_sec", "end_scan", "assumed_charge", "precursor_neutral_mass",
                 "calc_neutral_pep_mass", "protein", "raw_data"):
        cases += pack([h(children=[["s", "xcorr", "2", None]])], render=dict(drop_attr=attr))
    for name in PERCOLATOR:
        cases += pack([h(children=[["s", "xcorr", "2", None]]), h(children=[["s", name, "0.5", None]])])
    # modification at every position of a peptide at once; N-terminal position 0; long masses
    cases += pack([h(pep="ACDEFGHIK", children=[["m", [[i, str(i) * i] for i in range(0, 10)]]]),
                   h(pep="ACD", children=[["m", [[3, "1"], [3, "22"], [3, "333"]]]]),
                   h(pep="ACD", children=[["m", [[3, "1"], [1, "22"]]]]),
                   h(pep="ACD", children=[["m", [[7, "1"], [9, "22"]]]])])
    return cases


def corpus_cases():
    p = common.VERIF / "harness" / "corpus" / "C20.json"
    if p.exists():
        return json.loads(p.read_text())
    return []


# ----------------------------------------------------------------------------
# second pass: input shapes the generators above never produce (see gaps/GAPS-C20.md, "Second pass")
#   data-file names whose base contains the extension elsewhere than at the end / extensions without a dot,
#   decoy prefixes made of regular-expression metacharacters, two- and three-digit charges, hits with ranks
#   beyond 1 / rejected hits, identical hits / spectra / runs / files, pathlib.Path arguments, lower-case
#   residues, a candidate count of 0
# ----------------------------------------------------------------------------
PREFIXES2 = ["sp|", "rev.", "DECOY+", "(d)", "d*", "[rev]_", "^rev_", "rev_$", "\\d", "##", "rev_|x", "dec?oy_"]
REGEX_META = set(".+*?()[]^$|\\{}")
DATAFILE_SHAPES = [("run.raw.pep", ".raw"), ("x.mzML.gz", ".mzML"), ("runmzML", "mzML"), ("run", "mzML"),
                   ("a.MZML", ".mzML"), (".mzML", ".mzML"), ("ML", ".mzML"), ("C:\\data\\run1", ".d"),
                   ("/data/run.1", ".1"), ("run.d.d", ".d"), ("raw", ".raw"), ("a.raw ", ".raw"), ("", ".mzML"),
                   ("r.mzXML.mzML", ".mzXML"), ("a.rawb", ".raw"), ("run.RAW", ".raw")]
BIG_CHARGES = [10, 12, 11, 23, 100]


def regex_near(prefix):
    """an accession that does not start with `prefix` but that `re.match(prefix, ·)` / a wildcard reading of the
    prefix would accept"""
    out, i = "", 0
    while i < len(prefix):
        c = prefix[i]
        if c == "\\" and i + 1 < len(prefix):
            out += "7" if prefix[i + 1] == "d" else prefix[i + 1]
            i += 2
            continue
        if c == "|":
            break
        if c == ".":
            out += "X"
        elif c not in REGEX_META:
            out += c
        i += 1
    return out + "Q9"


def mix_case(rng, pep):
    return "".join(c.lower() if rng.random() < 0.5 else c for c in pep) or pep


def clone(x):
    return json.loads(json.dumps(x))


def duplicate_something(rng, case):
    docs = [f for f in case["files"] if "bad" not in f]
    f = rng.choice(docs)
    kind = rng.choice(["hit", "hit", "spectrum", "run", "file"])
    runs = [r for r in f["runs"] if any(res for sp in r["spectra"] for res in sp["results"])]
    if kind == "file" or not runs:
        case["files"].append(clone(f))
        return
    r = rng.choice(runs)
    if kind == "run":
        f["runs"].insert(rng.randint(0, len(f["runs"])), clone(r))
        return
    sp = rng.choice([x for x in r["spectra"] if any(res for res in x["results"])])
    if kind == "spectrum":
        r["spectra"].insert(rng.randint(0, len(r["spectra"])), clone(sp))
        return
    res = rng.choice([q for q in sp["results"] if q])
    res.insert(rng.randint(0, len(res)), clone(rng.choice(res)))


def gen_case2(rng, size=3):
    case = gen_case(rng, size, prefixes=PREFIXES2 if rng.random() < 0.5 else None)
    docs = [f for f in case["files"] if "bad" not in f]
    for f in docs:
        for r in f["runs"]:
            if rng.random() < 0.5:
                r["base"], r["ext"] = rng.choice(DATAFILE_SHAPES)
            for sp in r["spectra"]:
                if rng.random() < 0.3:
                    sp["charge"] = rng.choice(BIG_CHARGES)
                for res in sp["results"]:
                    for h in res:
                        if rng.random() < 0.08:
                            h["pep"] = mix_case(rng, h["pep"])
                        if h["nm"] is not None and rng.random() < 0.04:
                            h["nm"] = 0
                        if rng.random() < 0.1 and case["prefix"] in PREFIXES2:
                            # a target that a pattern reading of the prefix would take for a decoy
                            near = regex_near(case["prefix"])
                            alts = [c for c in h["children"] if c[0] == "a"]
                            if alts and rng.random() < 0.5:
                                rng.choice(alts)[1] = near
                            else:
                                h["prot"] = near
        if rng.random() < 0.6:
            f["render"]["hit_meta"] = rng.choice(["pos", "rev", "rej"])
    if docs and rng.random() < 0.45:
        duplicate_something(rng, case)
    case["as_path"] = rng.random() < 0.3
    if rng.random() < 0.3:
        case["opts"] = gen_opts(rng, case)
        if any(h["nm"] == 0 for f in docs for h in iter_hits(f)):
            case["opts"]["dataset"] = False  # log10(0) = -inf is not a feature value a dataset need accept
    return case


def sweep_datafile():
    """every base x extension over small pools, one run each, in one document"""
    bases = ["run", "run.raw", "run.raw.x", "a.rawb", ".raw", "raw", "RUN.RAW", "", "r.mzML.raw", "w.raw.w"]
    exts = [".raw", "raw", "", ".RAW", ".mzML", "w"]
    runs = []
    for b in bases:
        for e in exts:
            runs.append(dict(base=b, ext=e, spectra=[dict(scan=len(runs) + 1, charge=2, rt="1.5", exp="500.75", results=[[
                simple_hit(pep="PEK", prot="T", children=[["s", "x", "1.5", None]])]])]))
    return [dict(prefix="decoy_", files=[dict(runs=runs, render={})], as_list=False)]


def sweep_dups():
    """identical hits in one search result / in two results, identical spectra, runs and files"""
    def h(tag, **kw):
        return simple_hit(pep="PEK", prot="decoy_" + tag, mc=1, children=[["s", "x", "2.5", None], ["a", "T" + tag]], **kw)

    def sp(results, scan=7):
        return dict(scan=scan, charge=2, rt="1.5", exp="500.75", results=results)

    def doc(spectra, nrun=1):
        return dict(runs=[dict(base="r", ext=".mzML", spectra=clone(spectra)) for _ in range(nrun)], render={})

    a, b = h("a"), h("b")
    docs = [doc([sp([[a, a]])]), doc([sp([[a, b, a]])]), doc([sp([[a, a, a]])]), doc([sp([[a], [a]])]),
            doc([sp([[a, b]]), sp([[a, b]])]), doc([sp([[a]]), sp([[b]], scan=8), sp([[a]])]),
            doc([sp([[a, b]])], nrun=2), doc([sp([[a]])], nrun=3)]
    cases = [dict(prefix="decoy_", files=[d], as_list=bool(i % 2)) for i, d in enumerate(docs)]
    one = doc([sp([[a, b]]), sp([[b]], scan=9)])
    cases.append(dict(prefix="decoy_", files=[one, clone(one)], as_list=True))
    cases.append(dict(prefix="decoy_", files=[one, clone(one), clone(one)], as_list=True, as_tuple=True))
    cases.append(dict(prefix="decoy_", files=[one, doc([sp([[a]])]), clone(one)], as_list=True, as_path=True,
                      opts=dict(exclude=["x"], exclude_form="str", bin="0.5", dataset=True)))
    return cases


def sweep_charges():
    spectra = [dict(scan=k + 1, charge=z, rt="1.5", exp="1500.75", results=[[
        simple_hit(pep="PEK", prot="T", calc="1500.25", children=[["s", "x", "1.5", None]])]])
        for k, z in enumerate([2, 10, 3, 12, 1, 100, 23, 10, 9, 11])]
    return [dict(prefix="decoy_", files=[dict(runs=[dict(base="r", ext=".mzML", spectra=spectra[:n])], render={})],
                 as_list=True) for n in (2, 4, 10)]


def sweep_hit_meta():
    hits = [simple_hit(pep="PEK", prot=("decoy_P" if k % 2 else "T") + str(k), children=[["s", "x", str(k), None]])
            for k in range(5)]
    cases = []
    for meta in ("pos", "rev", "rej"):
        spectra = [dict(scan=1, charge=2, rt="1.5", exp="500.75", results=[clone(hits), clone(hits[:2])]),
                   dict(scan=2, charge=3, rt="2.5", exp="600.75", results=[clone(hits[2:])])]
        cases.append(dict(prefix="decoy_", files=[dict(runs=[dict(base="r", ext=".mzML", spectra=spectra)],
                                                       render=dict(hit_meta=meta, extra_attrs=(meta == "rev")))],
                          as_list=True))
    return cases


def sweep_prefixes2(amax=2):
    """primary / alternative patterns over: target, decoy (literal prefix), and a target that a pattern reading of
    the prefix would accept — for every prefix made of regular-expression metacharacters"""
    cases = []
    for p in PREFIXES2:
        kinds = {"T": "sp_T", "D": p + "P", "R": regex_near(p)}
        hits = []
        for k in range(0, amax + 1):
            for pat in itertools.product("TDR", repeat=k + 1):
                ch = [["s", "x", "1.5", None]] + [["a", kinds[c]] for c in pat[1:]]
                hits.append(simple_hit(prot=kinds[pat[0]], children=ch))
        cases += pack(hits, prefix=p)
    return cases


def edge_cases2():
    h = simple_hit
    cases = []
    # a pathlib.Path instead of a str; alone and in a tuple
    cases.append(dict(prefix="decoy_", files=[clone(GOOD_DOC)], as_list=False, as_path=True))
    cases.append(dict(prefix="decoy_", files=[clone(GOOD_DOC), clone(GOOD_DOC)], as_list=True, as_tuple=True, as_path=True))
    # optional attributes: present on one hit only, on none, everywhere; a candidate count of 0 and of 1
    for pat in ([(None, None, None), (1, None, None)], [(None, None, None)] * 2, [(0, 2, 10), (2, 0, 1), (1, 1, 1000000)],
                [(None, 2, 0), (None, None, 5)], [(None, None, 1), (None, None, None)], [(12000, 1, None), (1, 2, None)]):
        cases += pack([h(children=[["s", "xcorr", "2", None]], mc=mc, ntt=ntt, nm=nm) for mc, ntt, nm in pat])
    return cases


def dup_kind(case):
    keys, per_file = [], []
    for f in case["files"]:
        ks = []
        for r in f.get("runs", []):
            for sp in r["spectra"]:
                for res in sp["results"]:
                    for h in res:
                        ks.append(json.dumps([r["base"], r["ext"], sp["scan"], sp["charge"], sp["rt"], sp["exp"], h],
                                             sort_keys=True))
        per_file.append(ks)
        keys += ks
    if len(set(keys)) == len(keys):
        return "none"
    return "within-file" if any(len(set(ks)) != len(ks) for ks in per_file) else "across-files"


def datafile_shape(base, ext):
    if ext == "":
        return "ext-empty"
    if base == ext:
        return "base-is-ext"
    if base.endswith(ext):
        return "ends-with-ext"
    if ext in base:
        return "ext-inside-base"
    if base.lower().endswith(ext.lower()):
        return "ends-case-differs"
    return "appended" if ext.startswith(".") else "appended-no-dot"


def tally2(chk, case):
    chk.count("prefix-kind", "regex-metachars" if REGEX_META & set(case["prefix"]) else "literal")
    form = "path" if case.get("as_path") else "str"
    n = len(case["files"])
    shape = "single" if (n == 1 and not case.get("as_list", True)) else ("tuple" if case.get("as_tuple") else "list")
    chk.count("arg-form", f"{shape}-of-{form}")
    chk.count("duplicate-psms", dup_kind(case))
    nruns = 0
    zmax, lower, nm0 = 0, False, False
    for f in case["files"]:
        if "bad" in f:
            continue
        chk.count("hit-meta", f.get("render", {}).get("hit_meta") or "constant")
        for r in f["runs"]:
            if nruns < 20:
                chk.count("datafile-shape", datafile_shape(r["base"], r["ext"]))
            nruns += 1
            for sp in r["spectra"]:
                if any(sp["results"]) and any(res for res in sp["results"]):
                    zmax = max(zmax, len(str(sp["charge"])))
        for h in iter_hits(f):
            lower = lower or h["pep"] != h["pep"].upper()
            nm0 = nm0 or h["nm"] == 0
    chk.count("charge-digits", zmax)
    chk.count("peptide-lowercase", lower)
    chk.count("num-matched-zero", nm0)
    hits = [h for f in case["files"] for h in iter_hits(f)]
    if hits:
        chk.count("attr-columns", "".join(
            ("a" if all(h[k] is not None for h in hits) else "s" if any(h[k] is not None for h in hits) else "-")
            for k in ("mc", "ntt", "nm")))


# ----------------------------------------------------------------------------
# shrinking
# ----------------------------------------------------------------------------
def deletions(case):
    """all cases obtained by deleting one file / run / spectrum / result / hit / child / modification"""
    def clone():
        return json.loads(json.dumps(case))

    if any("tree" in f for f in case["files"]):
        yield from tree_deletions(case)
        return
    o = case.get("opts")
    if o is not None:
        for i in range(len(o.get("exclude") or [])):
            c = clone(); del c["opts"]["exclude"][i]; c["opts"]["exclude_form"] = "list"; yield c
        for key in ("bin", "exclude"):
            if o.get(key) is not None:
                c = clone(); c["opts"][key] = None; yield c
        for key in ("dataset", "default_prefix"):
            if o.get(key):
                c = clone(); c["opts"][key] = False; yield c
    for fi, f in enumerate(case["files"]):
        c = clone(); del c["files"][fi]; yield c
        for ri, r in enumerate(f.get("runs", [])):
            c = clone(); del c["files"][fi]["runs"][ri]; yield c
            for si, s in enumerate(r["spectra"]):
                c = clone(); del c["files"][fi]["runs"][ri]["spectra"][si]; yield c
                for qi, res in enumerate(s["results"]):
                    c = clone(); del c["files"][fi]["runs"][ri]["spectra"][si]["results"][qi]; yield c
                    for hi, h in enumerate(res):
                        c = clone(); del c["files"][fi]["runs"][ri]["spectra"][si]["results"][qi][hi]; yield c
                        for ci, ch in enumerate(h["children"]):
                            c = clone()
                            del c["files"][fi]["runs"][ri]["spectra"][si]["results"][qi][hi]["children"][ci]
                            yield c
                            if ch[0] == "m":
                                for mi in range(len(ch[1])):
                                    c = clone()
                                    del c["files"][fi]["runs"][ri]["spectra"][si]["results"][qi][hi]["children"][ci][1][mi]
                                    yield c


def signature_of(chk_class, case, prop, tier, seed):
    sub = chk_class(prop, tier, seed)
    try:
        eval_cases(sub, [case], tag="shrink")
    except Exception:  # noqa: BLE001
        return None, None
    if sub.spec_violations:
        return sub.spec_violations[0]
    return None, None


def minimise(chk):
    if not chk.spec_violations:
        return
    sig, info = chk.spec_violations[0]
    case = info.get("case")
    if case is None:
        return
    size0 = len(json.dumps(case))
    budget = 400
    improved = True
    while improved and budget > 0:
        improved = False
        for cand in deletions(case):
            budget -= 1
            if budget <= 0:
                break
            s, i = signature_of(common.Check, cand, chk.prop, chk.tier, chk.seed)
            if s == sig:
                case, info = cand, i
                improved = True
                break
    chk.spec_violations[0] = (sig, dict(info, shrunk_from_bytes=size0))


# ----------------------------------------------------------------------------
# entry points
# ----------------------------------------------------------------------------
# ----------------------------------------------------------------------------
# third pass: element trees (see gaps/GAPS-C20.md, "Third pass").  The code reaches every level of the document
# with Element.iter (all descendants, any depth) / iterparse (end-tag order) / Element.get (None when absent);
# `Model/PepxmlTree.lean` models that walk.  A file of a case may carry `tree` = [tag, [[key, kind, text]*], [kid*]]
# (kind: t text, i integer literal, q decimal literal, n score literal); it is then rendered from the tree, and
# its `runs` are the abstraction of the tree computed HERE (a direct re-statement: `abstract_tree`), which the
# driver op `pepxml-tree` must reproduce; everything downstream (specification, flat model, attribute columns)
# works on that abstraction.  `tree_error` = "raises" / "unmodelled" when the walk does not yield a document.
# ----------------------------------------------------------------------------
def T(tag, attrs=(), kids=()):
    return [tag, [list(a) for a in attrs], list(kids)]


def tree_of_file(f, variant=0):
    """the tree of an abstract document (attributes the parser does not read included)"""
    runs = []
    for r in f["runs"]:
        spectra = []
        for k, sp in enumerate(r["spectra"]):
            results = []
            for res in sp["results"]:
                hits = []
                for hi, h in enumerate(res):
                    a = [["hit_rank", "i", str(hi + 1)], ["peptide", "t", h["pep"]], ["protein", "t", h["prot"]],
                         ["calc_neutral_pep_mass", "q", h["calc"]]]
                    for key, name in (("mc", "num_missed_cleavages"), ("ntt", "num_tol_term"),
                                      ("nm", "num_matched_peptides")):
                        if h[key] is not None:
                            a.append([name, "i", str(h[key])])
                    if variant % 2:
                        a.reverse()
                    kids = []
                    for ch in h["children"]:
                        if ch[0] == "m":
                            kids.append(T("modification_info", [["modified_peptide", "t", "X"], ["mod_nterm_mass", "q", "43.0184"]],
                                          [T("mod_aminoacid_mass", [["position", "i", str(pos)], ["mass", "t", m]])
                                           for pos, m in ch[1]]))
                        elif ch[0] == "s":
                            kids.append(T("search_score", [["name", "t", ch[1]], ["value", "n", score_text(ch)]]))
                        else:
                            kids.append(T("alternative_protein", [["protein", "t", ch[1]], ["num_tol_term", "i", "2"]]))
                    hits.append(T("search_hit", a, kids))
                results.append(T("search_result", [["search_id", "i", "1"]], hits))
            spectra.append(T("spectrum_query", [
                ["spectrum", "t", f"s.{k}"], ["start_scan", "i", str(sp["scan"] - 1)], ["end_scan", "i", str(sp["scan"])],
                ["precursor_neutral_mass", "q", sp["exp"]], ["assumed_charge", "i", str(sp["charge"])],
                ["retention_time_sec", "q", sp["rt"]]], results))
        runs.append(T("msms_run_summary", [["base_name", "t", r["base"]], ["raw_data_type", "t", "raw"],
                                           ["raw_data", "t", r["ext"]]], spectra))
    return T("msms_pipeline_analysis", [["summary_xml", "t", "x"]], runs)


def render_tree(e, out, top=None):
    attrs = "".join(f" {k}={quoteattr(v)}" for k, _, v in e[1])
    out.append(f"<{e[0]}{top or ''}{attrs}>")
    for kid in e[2]:
        render_tree(kid, out)
    out.append(f"</{e[0]}>")


def render_tree_file(f):
    opt_ = f.get("render", {})
    out = ['<?xml version="1.0" encoding="UTF-8"?>']
    render_tree(f["tree"], out, f' xmlns="{NS}"' if opt_.get("ns", True) else "")
    if opt_.get("comments"):
        out = [x + ("<!-- search_hit -->" if i % 7 == 3 and not x.startswith("<?") else "") for i, x in enumerate(out)]
    return ("\n" if opt_.get("newlines", True) else "").join(out) + "\n"


def wire_aval(kind, text):
    if kind == "t":
        return [Atom("t"), text]
    if kind == "i":
        return [Atom("i"), int(text)]
    if kind == "q":
        return [Atom("q"), Fraction(text)]
    root, _, ex = text.lower().partition("e")
    return [Atom("n"), Fraction(root), opt(int(ex) if ex else None)]


def wire_tree(e):
    return [e[0], [[k, wire_aval(kind, v)] for k, kind, v in e[1]], [wire_tree(x) for x in e[2]]]


class TreeRaises(Exception):
    pass


class TreeUnmodelled(Exception):
    pass


def t_pre(e):
    yield e
    for kid in e[2]:
        yield from t_pre(kid)


def t_post(e):
    for kid in e[2]:
        yield from t_post(kid)
    yield e


def t_iter(e, *tags):
    return [x for x in t_pre(e) if x[0] in tags]


def t_get(e, key, kinds, missing):
    for k, kind, v in e[1]:
        if k == key:
            if kind not in kinds:
                raise TreeUnmodelled(key)
            return v
    if missing is None:
        return None
    raise missing(key)


def abstract_tree(root):
    """direct re-statement of what lines 170-241 / 262-307 read off an element tree -> runs of the abstract document"""
    runs = []
    for r in [x for x in t_post(root) if x[0] == "msms_run_summary"]:
        base = t_get(r, "base_name", "t", TreeRaises)
        ext = t_get(r, "raw_data", "t", TreeRaises)
        spectra = []
        for sq in t_iter(r, "spectrum_query"):
            scan = int(t_get(sq, "end_scan", "i", TreeRaises))
            charge = int(t_get(sq, "assumed_charge", "i", TreeRaises))
            rt = t_get(sq, "retention_time_sec", "qi", TreeRaises)
            exp = t_get(sq, "precursor_neutral_mass", "qi", TreeRaises)
            results = []
            for res in t_iter(sq, "search_result"):
                hits = []
                for sh in t_iter(res, "search_hit"):
                    calc = t_get(sh, "calc_neutral_pep_mass", "qi", TreeRaises)
                    pep = t_get(sh, "peptide", "t", TreeUnmodelled)
                    prot = t_get(sh, "protein", "t", TreeRaises)
                    o = [t_get(sh, a, "i", None) for a in ("num_missed_cleavages", "num_tol_term", "num_matched_peptides")]
                    o = [None if x is None else int(x) for x in o]
                    if o[2] is not None and o[2] < 0:
                        raise TreeUnmodelled("num_matched_peptides")
                    children = []
                    for el in t_iter(sh, "modification_info", "search_score", "alternative_protein"):
                        if el[0] == "modification_info":
                            ms = []
                            for m in t_iter(el, "mod_aminoacid_mass"):
                                pos = int(t_get(m, "position", "i", TreeRaises))
                                if pos < 0:
                                    raise TreeUnmodelled("position")
                                ms.append([pos, t_get(m, "mass", "t", TreeRaises)])
                            children.append(["m", ms])
                        elif el[0] == "alternative_protein":
                            children.append(["a", t_get(el, "protein", "t", TreeRaises)])
                        else:
                            name = t_get(el, "name", "t", TreeUnmodelled)
                            val = t_get(el, "value", "n", TreeUnmodelled)
                            cut = min((val.find(ch_) for ch_ in "eE" if ch_ in val), default=-1)
                            children.append(["s", name, val if cut < 0 else val[:cut], None if cut < 0 else val[cut:]])
                    hits.append(dict(calc=calc, pep=pep, prot=prot, mc=o[0], ntt=o[1], nm=o[2], children=children))
                results.append(hits)
            spectra.append(dict(scan=scan, charge=charge, rt=rt, exp=exp, results=results))
        runs.append(dict(base=base, ext=ext, spectra=spectra))
    return runs


def attach_tree(f, tree):
    """file dict of a case for a tree: `runs` = its abstraction (or `tree_error`)"""
    g = dict(tree=tree, render=dict(ns=f.get("render", {}).get("ns", True), newlines=f.get("render", {}).get("newlines", True),
                                    comments=f.get("render", {}).get("comments", False)))
    try:
        g["runs"] = abstract_tree(tree)
    except TreeRaises:
        g["runs"], g["tree_error"] = [], "raises"
    except TreeUnmodelled:
        g["runs"], g["tree_error"] = [], "unmodelled"
    return g


def t_paths(e, path=()):
    yield path, e
    for i, kid in enumerate(e[2]):
        yield from t_paths(kid, path + (i,))


def t_at(root, path):
    for i in path:
        root = root[2][i]
    return root


PERTURBATIONS = ["wrap-kids", "wrap-one", "nested-children", "stray-spectrum", "stray-hit", "stray-mod",
                 "nested-result", "nested-hit", "nested-run", "score-in-modinfo", "foreign-sibling", "drop-required",
                 "deep-mod", "hit-in-wrapper-chain"]
REQUIRED = {"msms_run_summary": ["base_name", "raw_data"],
            "spectrum_query": ["end_scan", "assumed_charge", "retention_time_sec", "precursor_neutral_mass"],
            "search_hit": ["calc_neutral_pep_mass", "protein", "peptide"],
            "mod_aminoacid_mass": ["position", "mass"], "alternative_protein": ["protein"],
            "search_score": ["name", "value"]}


def perturb_tree(rng, tree, kind):
    """one structural change of a tree (in place); returns False when the tree offers no place for it"""
    nodes = list(t_paths(tree))

    def pick(*tags):
        c = [e for _, e in nodes if e[0] in tags]
        return rng.choice(c) if c else None

    def wrap(e, depth=1):
        for _ in range(depth):
            e = T(rng.choice(["wrapper", "analysis_result", "search_hit_extra", "x"]), [["name", "t", "w"], ["end_scan", "i", "1"]], [e])
        return e

    if kind == "wrap-kids":
        e = pick("msms_pipeline_analysis", "msms_run_summary", "spectrum_query", "search_result", "search_hit", "modification_info")
        if e is None or not e[2]:
            return False
        e[2] = [wrap(x, rng.choice([1, 1, 2])) for x in e[2]]
    elif kind == "wrap-one":
        e = pick("msms_run_summary", "spectrum_query", "search_result", "search_hit", "modification_info")
        if e is None or not e[2]:
            return False
        i = rng.randrange(len(e[2]))
        e[2][i] = wrap(e[2][i], rng.choice([1, 3]))
    elif kind == "nested-children":
        e = pick("search_hit")
        if e is None:
            return False
        extra = [T("search_score", [["name", "t", "nested_" + rng.choice("abc")], ["value", "n", rng.choice(["0.5", "3", "1.5e-3"])]])]
        if rng.random() < 0.5:
            extra.append(T("alternative_protein", [["protein", "t", rng.choice(["decoy_N1", "N2 descr", "rev_N3"])]]))
        e[2].insert(rng.randint(0, len(e[2])), T("analysis_result", [["analysis", "t", "peptideprophet"]],
                                                 [T("peptideprophet_result", [["probability", "q", "0.9"]], extra)]))
    elif kind == "stray-spectrum":
        sq = pick("spectrum_query")
        if sq is None:
            return False
        tree[2].insert(rng.randint(0, len(tree[2])), json.loads(json.dumps(sq)))
    elif kind == "stray-hit":
        sq, sh = pick("spectrum_query"), pick("search_hit")
        if sq is None or sh is None:
            return False
        sq[2].insert(rng.randint(0, len(sq[2])), wrap(json.loads(json.dumps(sh)), rng.choice([0, 1])))
    elif kind == "stray-mod":
        sh = pick("search_hit")
        if sh is None:
            return False
        sh[2].insert(rng.randint(0, len(sh[2])), T("mod_aminoacid_mass", [["position", "i", "1"], ["mass", "t", "99.9"]]))
    elif kind == "nested-result":
        res = pick("search_result")
        if res is None:
            return False
        res[2].insert(rng.randint(0, len(res[2])), json.loads(json.dumps(res)))
    elif kind == "nested-hit":
        sh = pick("search_hit")
        if sh is None:
            return False
        inner = json.loads(json.dumps(sh))
        inner[2] = [x for x in inner[2] if x[0] != "modification_info"]
        sh[2].insert(rng.randint(0, len(sh[2])), inner)
    elif kind == "nested-run":
        r = pick("msms_run_summary")
        if r is None:
            return False
        inner = json.loads(json.dumps(r))
        inner[1] = [["base_name", "t", "inner"], ["raw_data", "t", ".mzML"]]
        inner[2] = inner[2][:1]
        r[2].insert(rng.randint(0, len(r[2])), inner)
    elif kind == "score-in-modinfo":
        mi = pick("modification_info")
        if mi is None:
            return False
        mi[2].insert(rng.randint(0, len(mi[2])), T("search_score", [["name", "t", "inmod"], ["value", "n", "2.5"]]))
    elif kind == "foreign-sibling":
        e = pick("msms_pipeline_analysis", "msms_run_summary", "spectrum_query", "search_result", "search_hit")
        e[2].insert(rng.randint(0, len(e[2])), T(rng.choice(["search_summary", "parameter", "search_hits", "xsearch_hit"]),
                                                 [["base_name", "t", "zzz"], ["protein", "t", "decoy_zzz"], ["value", "t", "1"]],
                                                 [T("parameter", [["name", "t", "p"], ["value", "t", "1"]])]))
    elif kind == "drop-required":
        e = pick(*REQUIRED)
        if e is None:
            return False
        key = rng.choice(REQUIRED[e[0]])
        e[1] = [a for a in e[1] if a[0] != key]
    elif kind == "deep-mod":
        mi = pick("modification_info")
        if mi is None or not mi[2]:
            return False
        mi[2] = [wrap(x, 2) for x in mi[2]]
    elif kind == "hit-in-wrapper-chain":
        res = pick("search_result")
        if res is None or not res[2]:
            return False
        res[2] = [wrap(T("group", [], res[2]), 2)]
    else:
        raise AssertionError(kind)
    return True


def gen_tree_case(rng, size=3, kinds=None):
    case = gen_case(rng, size)
    case["files"] = [f for f in case["files"] if "bad" not in f][:2] or [gen_file(rng, case["prefix"], size)]
    applied = []
    files = []
    for f in case["files"]:
        tree = tree_of_file(f, rng.randint(0, 1))
        for _ in range(rng.choice([0, 1, 1, 2, 3])):
            kind = rng.choice(kinds or PERTURBATIONS)
            if kind == "drop-required" and rng.random() < 0.6:
                continue
            if perturb_tree(rng, tree, kind):
                applied.append(kind)
        g = attach_tree(f, tree)
        g["render"]["comments"] = rng.random() < 0.2
        files.append(g)
    case["files"] = files
    case["tree_kinds"] = applied
    return case


def tree_edge_cases():
    rng = random.Random(20)
    base = dict(runs=[dict(base="r", ext=".mzML", spectra=[dict(scan=5, charge=2, rt="1.5", exp="800.5", results=[[
        simple_hit(children=[["m", [[2, "15.99"], [5, "0.98"]]], ["a", "decoy_A desc"], ["s", "xcorr", "2.5", None],
                             ["s", "expect", "1.5", "e-05"]], mc=1, ntt=2, nm=37),
        simple_hit(pep="ACDK", prot="decoy_B", children=[["a", "decoy_C"], ["s", "xcorr", "0.5", None]])], []])])])
    cases = []
    for kind in PERTURBATIONS:
        for rep in range(3):
            tree = tree_of_file(base, rep)
            if perturb_tree(rng, tree, kind):
                cases.append(dict(prefix="decoy_", files=[attach_tree(base, tree)], as_list=True, tree_kinds=[kind]))
    # every required attribute of every level absent once
    for tag, keys in REQUIRED.items():
        for key in keys:
            tree = tree_of_file(base)
            e = next(x for x in t_pre(tree) if x[0] == tag)
            e[1] = [a for a in e[1] if a[0] != key]
            cases.append(dict(prefix="decoy_", files=[attach_tree(base, tree)], as_list=True, tree_kinds=["drop:" + key]))
    # the unperturbed tree, and two files (a tree and a flat rendering)
    cases.append(dict(prefix="decoy_", files=[attach_tree(base, tree_of_file(base))], as_list=False, tree_kinds=[]))
    cases.append(dict(prefix="decoy_", files=[attach_tree(base, tree_of_file(base)), GOOD_DOC], as_list=True, tree_kinds=[]))
    return cases


def _norm_wire(x):
    if isinstance(x, list):
        return [_norm_wire(y) for y in x]
    return x[:-2] if x.endswith("/1") else x


def compare_tree(chk, case, tree_resp):
    """the driver's tree walk (`runsOfTree`, `treeRows`, `treeHitCount`) against the re-statement `abstract_tree`"""
    for fi, line in tree_resp.items():
        f = case["files"][fi]
        got = common.dec(line)
        if not isinstance(got, list) or len(got) != 3:
            raise RuntimeError(f"driver answered {line[:200]} for a tree")
        doc, nrows, count = got
        want_doc = f.get("tree_error") or _norm_wire(common.dec(common.enc(wire_file(dict(runs=f["runs"])))))
        nh = sum(1 for _ in iter_hits(f))
        ok = _norm_wire(doc) == want_doc
        if ok and "tree_error" not in f:
            ok = nrows == [str(nh)] and count == str(nh)
        if not ok:
            chk.corr_break("pepxml-tree", dict(case=case, file=fi, model=line[:600], expected=str(want_doc)[:600],
                                               hits=nh))


def compare_tree_error(chk, case):
    """a tree from which no document can be read: the code must raise where an attribute it cannot do without is absent"""
    kinds = [f["tree_error"] for f in case["files"] if "tree_error" in f]
    impl = run_impl(case)
    if "raises" in kinds and kinds[0] == "raises" and len(case["files"]) == 1:
        if impl[0] in ("exception:TypeError", "exception:AttributeError"):
            chk.reject("tree:missing-required-attribute:" + impl[0])
        else:
            chk.corr_break("pepxml-tree", dict(case=case, impl=list(impl)[:2], model="raises"))
    else:
        chk.reject("tree:unmodelled:" + impl[0])


def tree_deletions(case):
    """delete one element of one tree (re-abstracting), or one whole file"""
    for fi, f in enumerate(case["files"]):
        if len(case["files"]) > 1:
            c = json.loads(json.dumps(case)); del c["files"][fi]; yield c
        if "tree" not in f:
            continue
        for path, _ in t_paths(f["tree"]):
            if not path:
                continue
            c = json.loads(json.dumps(case))
            t = c["files"][fi]["tree"]
            del t_at(t, path[:-1])[2][path[-1]]
            c["files"][fi] = attach_tree(f, t)
            if "tree_error" not in c["files"][fi]:
                yield c


def tally3(chk, case):
    for f in case["files"]:
        for h_ in iter_hits(f):
            if h_["prot"][:1] == " " or any(c[0] == "a" and c[1][:1] in (" ", "") for c in h_["children"]):
                chk.count("empty-accession", True)
    nsets = {tuple(sorted({c[1] for h_ in iter_hits(f) for c in h_["children"] if c[0] == "s"}))
             for f in case["files"] if "bad" not in f}
    if len(case["files"]) > 1:
        chk.count("files-score-sets", "same" if len(nsets) <= 1 else "different")
    if "tree_kinds" not in case:
        return
    for kd in case["tree_kinds"] or ["none"]:
        chk.count("tree-perturbation", kd)
    errs = [f.get("tree_error", "document") for f in case["files"] if "tree" in f]
    for e in errs:
        chk.count("tree-outcome", e)
    depth = max((len(p) for f in case["files"] if "tree" in f for p, _ in t_paths(f["tree"])), default=0)
    chk.count("tree-depth", depth)


def mixed_files_cases():
    """sixth-wave seeded change (inner join of the per-file frames): several files with DIFFERENT score sets and
    optional attributes, and a Percolator file next to an ordinary one, in both orders"""
    h = simple_hit

    def doc(name, hits):
        return dict(runs=[dict(base=name, ext=".mzML", spectra=[
            dict(scan=3 + i, charge=2 + i % 2, rt="10.5", exp="700.5", results=[[x]]) for i, x in enumerate(hits)])],
            render=dict(ns=True))

    a = doc("a", [h(children=[["s", "hyperscore", "21.5", None], ["s", "nextscore", "11", None], ["s", "expect", "0.5", None]],
                    mc=1, ntt=2),
                  h(prot="decoy_T2", children=[["s", "hyperscore", "8", None], ["s", "expect", "2", None]], mc=0, ntt=1)])
    b = doc("b", [h(children=[["s", "xcorr", "2.25", None], ["s", "deltacn", "0.5", None], ["s", "expect", "0.25", None]], nm=12)])
    c = doc("c", [h(children=[])])
    perc = doc("p", [h(children=[["s", "xcorr", "2.25", None], ["s", "Percolator PEP", "0.01", None],
                                 ["s", "Percolator q-Value", "0.01", None], ["s", "Percolator SVMScore", "1.5", None]])])
    cases = []
    for files in ([a, b], [b, a], [a, b, c], [c, a], [a, c, b], [a, a, b], [b, c]):
        cases.append(dict(prefix="decoy_", files=clone(list(files)), as_list=True))
    for files in ([a, perc], [perc, a], [a, perc, b], [perc, perc], [c, perc], [perc, c], [b, a, perc]):
        cases.append(dict(prefix="decoy_", files=clone(list(files)), as_list=True, as_tuple=len(files) == 3))
    # side observation of the sixth wave: a protein attribute that begins with a blank gives the empty accession
    # (`split(" ")[0]`), which carries no non-empty prefix — model and code agree, the histogram counts it
    blank = doc("k", [h(prot="decoy_P", children=[["a", " decoy_Q"], ["s", "xcorr", "1.5", None]]),
                      h(prot=" decoy_R", children=[["a", "decoy_S"], ["s", "xcorr", "2.5", None]]),
                      h(prot="decoy_P", children=[["a", " "], ["a", ""], ["s", "xcorr", "3.5", None]])])
    for pfx in ("decoy_", "", "d"):
        cases.append(dict(prefix=pfx, files=clone([blank]), as_list=True))
    return cases



def search(chk):
    rng = chk.rng
    cases = [gen_opts_case(rng, 5) if i % 4 == 0 else gen_case2(rng, 5) if i % 4 == 2 else
             gen_tree_case(rng, 4) if i % 8 == 3 else gen_case(rng, 6) for i in range(1500)]
    for i in range(0, len(cases), 200):
        eval_cases(chk, cases[i:i + 200], tag="search")
        if chk.spec_violations:
            break
    if not chk.spec_violations:
        exhaustive(chk, False)
    minimise(chk)


def main(chk, args):
    build = common.build_and_audit("C20")
    if not build.driver_ok:
        chk.finish(build, RULE)
    rng = chk.rng
    try:
        eval_cases(chk, corpus_cases(), tag="corpus")
        eval_cases(chk, edge_cases(), tag="edge")
        n = 1200 if chk.tier == "quick" else 12000
        cases = [gen_case(rng, 4 if i % 10 else 12) for i in range(n)]
        for i in range(0, len(cases), 200):
            eval_cases(chk, cases[i:i + 200])
        # options (generated after the default-path cases, whose stream is thereby unchanged)
        eval_cases(chk, opts_edge_cases(), tag="edge-opts")
        m = 160 if chk.tier == "quick" else 2500
        ocases = [gen_opts_case(rng, 3 if (i % 10 or chk.tier == "quick") else 8) for i in range(m)]
        for i in range(0, len(ocases), 200):
            eval_cases(chk, ocases[i:i + 200], tag="gen-opts")
        # second pass: shapes the generators above never produce (generated last: the streams above are unchanged)
        eval_cases(chk, edge_cases2(), tag="edge-2")
        m2 = 150 if chk.tier == "quick" else 2500
        cases2 = [gen_case2(rng, 3 if (i % 10 or chk.tier == "quick") else 8) for i in range(m2)]
        for i in range(0, len(cases2), 200):
            eval_cases(chk, cases2[i:i + 200], tag="gen-2")
        # third pass: element trees and mixed files (generated last: the streams above are unchanged)
        eval_cases(chk, mixed_files_cases(), tag="edge-3")
        eval_cases(chk, tree_edge_cases(), tag="edge-tree")
        m3 = 130 if chk.tier == "quick" else 3000
        cases3 = [gen_tree_case(rng, 3 if (i % 10 or chk.tier == "quick") else 6) for i in range(m3)]
        for i in range(0, len(cases3), 200):
            eval_cases(chk, cases3[i:i + 200], tag="gen-tree")
        exhaustive(chk, chk.tier == "thorough")
        minimise(chk)
    finally:
        cleanup()
    lc = common.leanchecker("C20") if chk.tier == "thorough" else None
    chk.assumptions += [
        "lxml delivers elements, attributes and document order as written; the harness renders the abstract document "
        "to PepXML text (attribute values XML-escaped; no tabs/newlines inside attribute values)",
        "float(text) of a decimal literal is the correctly rounded value of the exact rational the model carries "
        "(both sides use CPython's conversion); np.log10 / float subtraction / division are evaluated by the same "
        "numpy primitives on both sides, log10 itself is symbolic in the model",
        "score names never equal one of the fixed column names, num_matched_peptides, mass_diff, abs_mz_diff or "
        "charge_<z> (dict-key collisions are outside the model); assumed_charge != 0; modification positions and "
        "num_matched_peptides are non-negative decimal integers; required attributes are present",
        "mass_diff / abs_mz_diff are float-origin columns: compared exactly after applying the model's transform "
        "decision to the same float expression, with tolerance 1e-9 in the scientific branch; decisions within "
        "1e-6 of a threshold are counted as float_boundary_cases",
        "options: exclude_features (str / tuple / list; names of scores, attributes, derived, charge, fixed and absent "
        "columns), open_modification_bin_size > 0 (decimal sizes; the model bins in exact arithmetic, a mass "
        "difference within 1e-6 bins of a bin edge or a rounding tie is a float_boundary case accepted in either "
        "adjacent bin; sizes <= 0 are outside the model), the default decoy_prefix, and to_df=False (feature list, "
        "column roles, data identical to to_df=True) are exercised on separately generated cases; the bin value is "
        "read back from the peptide text with float()",
        "second pass: hit_rank / is_rejected / num_tot_proteins / massdiff are attributes the parser does not read "
        "(rendered with varying values, not part of the abstract document); optional-attribute columns are "
        "specified for attribute values < 10000 and no search score of the same name (otherwise model only); "
        "num_matched_peptides = 0 gives log10(0) = -inf on both sides (numpy), such cases do not use to_df=False",
    ]
    chk.finish(build, RULE, search=search, lc=lc,
               trusted_extra=["lxml iterparse, pandas DataFrame.from_records/concat/get_dummies/apply/astype, "
                              "numpy log10, CPython float()/int()/str methods"])


def replay(chk, path):
    info = json.loads(open(path).read())
    if "case" not in info:
        print(json.dumps(info, indent=1)[:3000])
        return 0
    common.build_and_audit("C20")
    try:
        eval_cases(chk, [info["case"]], tag="replay")
    finally:
        cleanup()
    for sig, i in chk.spec_violations:
        print("REPRODUCED", sig, json.dumps(i, default=str)[:1500])
    for op, i in chk.corr_breaks:
        print("CORRESPONDENCE", op, json.dumps(i, default=str)[:1500])
    return 1 if chk.spec_violations else 0
