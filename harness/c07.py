"""C07 — best-feature safety net: never silently worse than the best single feature."""
from __future__ import annotations

import contextlib
import json
from fractions import Fraction

import numpy as np

import common
import mkdata
import pipeline as P
import recest
from common import Atom, dec, req

RULE = (
    "case = (1-2 PSM tables, label encoding 1/-1 | 1/0 | bool, best feature higher- or lower-is-better, estimator "
    "good / inverted (cannot learn) / forced with override, folds, text or Parquet); the real brew() is run with a "
    "recording estimator, the comparison inputs (feat_pass per model, accepted targets of the returned-or-model "
    "scores) are recomputed through the Lean model and the returned (scores, descs) checked; then "
    "assign_confidence(descs=...) is run and the PSM-level winners and order are checked against the direction; "
    "distinct = distinct (data seed, encoding, direction, estimator kind, folds); non-trivial = estimator inverted or "
    "lower-is-better feature; extension: the whole returned (scores, descs) is compared with the end-to-end Lean model "
    "`brewTail` and checked by the proved-equivalent Boolean of `TailSpec` (ops fbtail / fbtailspec), collections of one "
    "run may use different label encodings, Model(direction=<feature>) is generated (feat_pass/desc vs `dirStart`, "
    "best_feat must name that feature), and assign_confidence(scores=None) is run: per collection the result files must "
    "rank by a (feature, direction) pair accepting the most targets at eval_fdr, low values first when lower-is-better "
    "(op fbentry); second extension: brew(ensemble=True), label columns stored as float / int8, a follow-up brew() with the "
    "trained fold models handed over as a list on a table built so that the models' scores accept feat_total-1 / "
    "feat_total / feat_total+1 targets (the boundary of the strict comparison), a follow-up brew() with ONE trained model "
    "that is re-trained (estimator that gets worse by re-training -> reset to the original model's calibrated scores; or "
    "equally good -> per-fold scores; feat_pass/best_feat/desc of the is_trained start are recomputed independently), all "
    "checked against `brewFull` / `TailSpecG` (ops fbfull / fbtailgspec / fbreset); the PEP estimator of "
    "assign_confidence is replaced by a recorder and its input must be the higher-is-better ranking score of the rows of "
    "every level file (op fbpep); a quarter of the runs use a decision_function estimator (brew calibrates every fold's "
    "scores per collection before the comparison; recomputed exactly from the C01 labels); third extension: the informative "
    "feature is stored as uint16 / int16 (dense ranks, best value = smallest value of the type) / uint32 / uint64 / int32 / "
    "float64 / int64 shifted by 2**24, +-2**30, 2**40, -2**44 (Parquet keeps the type, text gives int64): the ranking column of "
    "assign_confidence is compared with `entryRankTyped` / `brewThenRank` (ops fbrank / fbthenrank), the target PSMs accepted "
    "at test_fdr in targets.psms with the C01 count on the ranking scores of the PSM-level winners, feat_pass/desc of "
    "Model(direction=...) with `dirStartCol` on the stored training column (op fbdirstartcol), and `roundBits` with numpy's "
    "integer -> float32 / float64 conversion (op fbcast)"
)
THR = 0.25


class FlipProba(recest.TagProba):
    """recest.TagProba whose output order flips once `fit` has been called more than `flip_at` times (None: never):
    an estimator that gets worse by re-training.  With flip_at=None it is recest.TagProba."""

    def __init__(self, sign=1, run=0, tagged=True, order=False, flip_at=None):
        super().__init__(sign=sign, run=run, tagged=tagged, order=order)
        self.flip_at = flip_at

    def _score(self, X):
        s = super()._score(X)
        if self.flip_at is not None and self.n_fit_ > self.flip_at:
            s = 2 * (self.tag_ if self.tagged else 0) - s          # -(s - tag) + tag
        return s


class FlipDecision(FlipProba):
    """the same exposing decision_function: brew calibrates the scores of every fold before comparing them"""

    def decision_function(self, X):
        return self._score(X)

    predict_proba = None


def gen_case(rng):
    c = gen_case_base(rng)
    # --- second extension (drawn after the first-generation fields)
    c["ens"] = rng.random() < 0.2                              # brew(ensemble=True)
    c["lab_dtype"] = rng.choice([None, None, None, "float", "int8"])   # how a 1/-1 or 1/0 label column is stored
    # a second brew() on the fold models of the first one
    c["follow"] = rng.choice([None] * 11 + ["list", "list", "retrain-flip", "retrain-flip", "retrain-same"])
    c["delta"] = rng.choice([-1, 0, 0, 1])                     # list follow-up: accepted by the models = feat_total + delta
    # estimator API: predict_proba only (scores compared as they are) or decision_function (the default PercolatorModel's
    # kind: every fold's scores are calibrated, per collection, before the comparison)
    c["api"] = rng.choice(["proba", "proba", "proba", "decision"])
    if c["api"] == "decision" and c["est"] != "good" and rng.random() < 0.5:
        c["est"] = "good"                                     # (calibration only happens when every fold model is trained)
    # assign_confidence(scores=None, descs=<given by the caller>): the best feature is found, the caller's direction is used
    c["entry_descs"] = rng.choice([None, None, "up", "down"])
    # --- third extension: how the informative feature is stored
    c["feat_dtype"] = rng.choice([None] * 6 + ["uint16rank", "uint16rank", "int16rank", "uint32", "uint64", "int32", "float64"])
    # (the values spread over about 2**22: beyond 2**40 single precision merges most of them)
    c["feat_off"] = rng.choice([0] * 6 + [1 << 24, 1 << 30, -(1 << 30), 1 << 40, -(1 << 44)]) if c["feat_dtype"] is None else 0
    if c["direction"] == 0 and c["feat_dtype"] is None and c["feat_off"] == 0 and rng.random() < 0.5:
        c["feat_off"] = rng.choice([1 << 30, 1 << 40, -(1 << 44)])   # the named start feature beyond float32's 24 digits
    c["cast_probe"] = [rng.choice([1, -1]) * (rng.choice([1 << 24, 1 << 25, 1 << 30, 1 << 53, 1 << 54, 1 << 62, rng.randrange(1 << 63)])
                                              + rng.randrange(-4, 5)) for _ in range(6)]
    if c["feat_dtype"] in ("uint16rank", "int16rank", "uint32", "uint64") and rng.random() < 0.5:
        c["best_low"] = True                                   # best value = smallest value of the type (0 / -32768)
    if c["follow"]:
        c["feat_dtype"], c["feat_off"] = None, 0
    if c["follow"]:
        c["api"] = "proba"
        # the follow-ups need trained fold models
        c["est"] = rng.choice(["good", "good", "good", "forced-good"])
        c["direction"] = rng.choice([None, None, 0])
        c["two_good"] = False                                  # (a second strong feature makes the first training fail)
        if c["follow"] == "retrain-flip" and rng.random() < 0.7:
            # permissive training, strict evaluation, moderate signal: after the reset the original model's scores accept
            # fewer targets on all PSMs than its start count on a training set (so the fallback is due) — or about as many
            c.update(rng.choice([dict(train_fdr=0.5, test_fdr=0.125, signal=2.0), dict(train_fdr=0.5, test_fdr=0.0625, signal=2.5)]))
    return c


def gen_case_base(rng):
    return dict(
        nfiles=rng.choice([1, 1, 2]),
        n_spectra=rng.choice([150, 220, 300]),
        max_per=rng.choice([1, 2]),
        enc=rng.choice(["pm1", "pm1", "01", "bool"]),
        best_low=rng.random() < 0.5,
        est=rng.choice(["good", "bad", "bad", "forced-bad"]),
        folds=rng.choice([2, 3]),
        fmt=rng.choice(["pin", "parquet"]),
        seed=rng.randrange(1000),
        data_seed=rng.randrange(1 << 30),
        two_good=rng.random() < 0.5,     # two features of similar power: folds may disagree on the best one
        # second collection stored with another label encoding than the first
        enc2=rng.choice([None, None, "pm1", "01", "bool"]),
        # Model(direction=...): the start feature is named by the user (0 = informative feature, 1 = the other one)
        direction=rng.choice([None, None, None, None, 0, 0, 1]),
        # also run assign_confidence(psms, scores=None) at this eval_fdr (its own best-feature path)
        entry_fdr=rng.choice([None, None, None, None, 0.25, 0.5, 0.125]),
        # the best feature is counted at the model's training FDR, the learned scores at the evaluation FDR
        **rng.choice([dict(), dict(), dict(train_fdr=0.5, test_fdr=0.125), dict(train_fdr=0.125, test_fdr=0.5),
                      dict(train_fdr=0.5, test_fdr=0.01, signal=1.0), dict(train_fdr=0.5, test_fdr=0.03, signal=1.5),
                      dict(train_fdr=0.25, test_fdr=0.0625)]),
    )


def store_feature(col, kind, off):
    """the informative feature in another stored number type, same order, still free of ties: dense ranks 0..n-1 as uint16
    (so a lower-is-better feature has best value 0), dense ranks from the smallest int16 value, the values shifted to start
    at 0 as uint32 / uint64, as they are as int32 / float64, or int64 shifted by `off` (beyond float32's 24 digits)"""
    v = np.asarray(col, dtype=np.int64)
    if kind == "uint16rank":
        return pd_series(np.argsort(np.argsort(v, kind="stable"), kind="stable").astype(np.uint16), col)
    if kind == "int16rank":
        return pd_series((np.argsort(np.argsort(v, kind="stable"), kind="stable") - 32768).astype(np.int16), col)
    if kind == "uint32":
        return pd_series((v - v.min()).astype(np.uint32), col)
    if kind == "uint64":
        return pd_series((v - v.min()).astype(np.uint64), col)
    if kind == "int32":
        return pd_series(v.astype(np.int32), col)
    if kind == "float64":
        return pd_series(v.astype(np.float64), col)
    return pd_series(v + int(off), col)


def pd_series(arr, like):
    import pandas as pd

    return pd.Series(arr, index=like.index)


def cast_probe_check(chk, case):
    """`roundBits` (the model of numpy's integer -> binary32 / binary64 conversion that `tdc` and the entry of
    assign_confidence apply to integer score arrays) against numpy itself"""
    xs = case.get("cast_probe")
    if not xs or case["data_seed"] % 4:
        return
    arr = np.asarray(xs, dtype=np.int64)
    resp = common.driver_batch([req("fbcast", 24, xs), req("fbcast", 53, xs)])
    for r_, got in ((resp[0], arr.astype(np.float32)), (resp[1], arr.astype(np.float64))):
        model = [int(x) for x in dec(r_)]
        impl = [int(x) for x in got.astype(object)]
        if model != impl:
            chk.corr_break("fbcast", dict(case=case, probe=xs, model=model, impl=impl))


def raw_labels(df):
    out = []
    for v in df["Label"].tolist():
        out.append(bool(v) if isinstance(v, (bool, np.bool_)) else int(v))
    return out


def raw_wire(df):
    """the stored label column on the wire: T/F for booleans, the integer otherwise"""
    return raw_labels(df)


@contextlib.contextmanager
def pep_recorder(calls):
    """pipeline.pep_kernel(stub=True) with a memory: the PEP kernel called by confidence.py answers zeros and records the
    (scores, targets) it was handed"""
    mods = [P.mod("mokapot.confidence"), P.mod("mokapot.brew_rollup")]
    olds = [m.peps_from_scores for m in mods]

    def rec(scores, targets, alg="qvality"):
        calls.append((np.array(scores, dtype=float).ravel(), np.array(targets).astype(bool).ravel()))
        return np.zeros(len(scores))

    for m in mods:
        m.peps_from_scores = rec
    try:
        yield
    finally:
        for m, o in zip(mods, olds):
            m.peps_from_scores = o


def pep_input_check(chk, case, calls, out, tabs, returned, ret_int, descs):
    """the scores handed to the PEP estimator must be higher-is-better in the returned direction: at every level the
    estimator's input is the ranking score reported for the rows of that level (spec, restated: value if desc else
    -value); model: `pepScores` (op fbpep) on the PSM level"""
    model_cols = None
    if ret_int is not None:
        resp = common.driver_batch([req("fbpep", bool(descs[k]), ret_int[k]) for k in range(len(tabs))])
        model_cols = [[int(x) for x in dec(r_)] for r_ in resp]
    for k, df in enumerate(tabs):
        desc = bool(descs[k])
        rank = returned[k] if desc else -returned[k]
        if model_cols is not None and not np.array_equal(np.asarray(model_cols[k], dtype=float), rank):
            chk.corr_break("fbpep", dict(case=case, collection=k, desc=desc))
        byid = {sid: i for i, sid in enumerate(df["SpecId"])}
        for level in ("psms", "peptides"):
            t = P.read_result(out / f"p{k}.targets.{level}"); dd = P.read_result(out / f"p{k}.decoys.{level}")
            if t is None or dd is None:
                continue
            want_t = np.asarray([rank[byid[x]] for x in t["PSMId"]], dtype=float)
            want_d = np.asarray([rank[byid[x]] for x in dd["PSMId"]], dtype=float)
            n = len(want_t) + len(want_d)
            hit = any(len(sc) == n and int(tg.sum()) == len(want_t) and same_scores(sc[tg], want_t)
                      and same_scores(sc[~tg], want_d) for sc, tg in calls)
            chk.count("pep_input", f"{level}:{'desc' if desc else 'asc'}")
            if not hit:
                flipped = any(len(sc) == n and int(tg.sum()) == len(want_t) and same_scores(sc[tg], -want_t)
                              and same_scores(sc[~tg], -want_d) for sc, tg in calls)
                chk.spec_violation("pep-input-direction",
                                   dict(case=case, collection=k, level=level, desc=desc,
                                        clause=f"assign_confidence(descs=[{desc}]): at the {level} level the PEP estimator was not "
                                               "handed the higher-is-better ranking scores of the rows of that level"
                                               + (" (it was handed their negation: for a lower-is-better score the PEPs are "
                                                  "estimated as if high values were good)" if flipped else "")))
                return False
    return True


def entry_check(chk, case, d, dss, tabs, feature_cols):
    """assign_confidence(psms, scores=None): every collection is ranked by its own best feature IN THE DIRECTION
    find_best_feature reports (confidence.py:561-569).  Spec: the result files of a collection rank by a
    (feature, direction) pair that accepts the most targets at eval_fdr over all features and both directions;
    model: `collBest` (first maximum, higher-is-better tried first)."""
    thr = Fraction(case["entry_fdr"])
    given = None if not case.get("entry_descs") else [case["entry_descs"] == "up"] * len(dss)
    chk.count("entry_descs", str(case.get("entry_descs")))
    out = d / "out_entry"
    out.mkdir()
    try:
        with P.pep_kernel(stub=True):
            P.run_assign_confidence(dss, None, out, eval_fdr=float(thr), prefixes=[f"e{k}" for k in range(len(dss))],
                                    decoys=True, **({} if given is None else dict(descs=list(given))))
    except Exception as e:
        msg = f"{type(e).__name__}: {e}"
        if isinstance(e, RuntimeError) and "No PSMs found" in msg:
            real = None
        else:
            chk.spec_violation("confidence-entry-exception:" + type(e).__name__,
                               dict(case=case, error=msg[:300], clause="assign_confidence(scores=None) raised"))
            return
    else:
        real = True
    colls = [[raw_wire(df), [[int(v) for v in df[c]] for c in feature_cols], []] for df in tabs]
    # model (fbentry) and, independently, the counts (C01 model `labels`): accepted targets of every feature column in
    # both directions, per collection — one driver call
    reqs = [req("fbentry", thr, colls)]
    for df in tabs:
        targets = [l in (1, True) for l in raw_labels(df)]
        for c in feature_cols:
            for desc_ in (True, False):
                reqs.append(req("labels", desc_, thr, [[int(v), t] for v, t in zip(df[c], targets)]))
    resp = common.driver_batch(reqs)
    model = dec(resp[0])
    chk.count("entry", "none" if model == "none" else "ranked")
    per = 2 * len(feature_cols)
    all_counts = [[sum(1 for x in dec(r_) if x == "1") for r_ in resp[1 + k * per: 1 + (k + 1) * per]]
                  for k in range(len(tabs))]
    nothing = [k for k, cs in enumerate(all_counts) if max(cs) == 0]
    if real is None:
        if not nothing:
            chk.spec_violation("confidence-entry-refused",
                               dict(case=case, eval_fdr=str(thr), best_counts=[max(cs) for cs in all_counts],
                                    clause="assign_confidence(scores=None) raised 'No PSMs found' although in every collection "
                                           "some feature accepts targets at eval_fdr in one of the two directions"))
            return
        if model != "none":
            chk.corr_break("fbentry", dict(case=case, impl="RuntimeError", model=str(model)[:80]))
        chk.reject("entry-nothing-accepted")
        return
    if nothing:
        chk.spec_violation("confidence-entry-refused",
                           dict(case=case, eval_fdr=str(thr), collection=nothing[0],
                                clause="assign_confidence(scores=None) returned although no feature of a collection accepts a target"))
        return
    if model == "none":
        chk.corr_break("fbentry", dict(case=case, impl="ranked", model="none"))
        return
    for k, df in enumerate(tabs):
        counts = all_counts[k]
        best_n = max(counts)
        t = P.read_result(out / f"e{k}.targets.psms"); dd = P.read_result(out / f"e{k}.decoys.psms")
        byid = {sid: i for i, sid in enumerate(df["SpecId"])}
        ids = [byid[x] for x in list(t["PSMId"]) + list(dd["PSMId"])]
        rep = np.asarray(list(t["score"]) + list(dd["score"]), dtype=float)
        cands = []
        for j, c in enumerate(feature_cols):
            col = df[c].values.astype(float)
            for di, desc_ in enumerate((True, False)):
                if np.array_equal(rep, (col if desc_ else -col)[ids]):
                    cands.append((j, desc_, counts[2 * j + di]))
        info = dict(case=case, collection=k, eval_fdr=str(thr),
                    counts={f"{c}/{'desc' if de else 'asc'}": counts[2 * j + di] for j, c in enumerate(feature_cols)
                            for di, de in enumerate((True, False))},
                    ranked_by=[dict(feature=feature_cols[j], desc=de, accepts=n) for j, de, n in cands])
        m_rank, m_desc, m_i, m_n = model[k]
        chk.count("entry_desc", m_desc)
        if given is not None:
            # the caller's directions win (`entryDescs false (some descs) found n = descs`): the collection must be ranked by
            # a best feature (largest count in one of its directions) in the direction the caller gave
            md = dec(common.driver_batch([req("fbentrydescs", False, [bool(x) for x in given],
                                              [m[1] == "T" for m in model], len(tabs))])[0])
            if [x == "T" for x in md] != [bool(x) for x in given]:
                chk.corr_break("fbentrydescs", dict(info, model=md))
            ok = [(j, de, n) for j, de, n in cands
                  if de == bool(given[k]) and max(counts[2 * j], counts[2 * j + 1]) == best_n]
            if not ok:
                chk.spec_violation("confidence-entry-given-descs",
                                   dict(info, given=bool(given[k]),
                                        clause=f"assign_confidence(scores=None, descs=[{bool(given[k])}]): collection {k} is not ranked "
                                               "by a best feature in the direction the caller gave"))
                return
            j, de, n = ok[0]
            rank = df[feature_cols[j]].values.astype(float) * (1.0 if de else -1.0)
            best = {}
            for i, s_ in enumerate(df["ScanNr"]):
                if s_ not in best or rank[i] > rank[best[s_]]:
                    best[s_] = i
            if sorted(ids) != sorted(best.values()):
                chk.spec_violation("confidence-entry-given-descs",
                                   dict(info, given=bool(given[k]), clause="PSM-level winners are not the best-ranked PSM per "
                                                                            "spectrum in the direction the caller gave"))
                return
            continue
        if not cands:
            chk.spec_violation("confidence-best-feature-direction",
                               dict(info, clause="assign_confidence(scores=None): the reported scores are no feature column in any direction"))
            return
        if not any(n == best_n for _, _, n in cands):
            j, de, n = cands[0]
            chk.spec_violation("confidence-best-feature-direction",
                               dict(info, clause=f"assign_confidence(scores=None) ranks collection {k} by {feature_cols[j]} as "
                                                 f"{'higher' if de else 'lower'}-is-better, which accepts {n} targets at "
                                                 f"q<={thr}; the best feature/direction accepts {best_n} (the direction found "
                                                 "by find_best_feature is not honoured)"))
            return
        j, de, n = [c for c in cands if c[2] == best_n][0]
        rank = df[feature_cols[j]].values.astype(float) * (1.0 if de else -1.0)
        best = {}
        for i, s_ in enumerate(df["ScanNr"]):
            if s_ not in best or rank[i] > rank[best[s_]]:
                best[s_] = i
        bad = None
        if sorted(ids) != sorted(best.values()):
            bad = "PSM-level winners are not the best-ranked PSM per spectrum in the best feature's direction"
        for f_ in (t, dd):
            rr = [rank[byid[x]] for x in f_["PSMId"]]
            if any(a < b for a, b in zip(rr, rr[1:])):
                bad = "result rows are not ordered best-first in the best feature's direction"
        acc = int((np.asarray(t["q-value"], dtype=float) <= float(thr)).sum())
        if bad:
            chk.spec_violation("confidence-best-feature-direction", dict(info, clause="assign_confidence(scores=None): " + bad))
            return
        # model agreement (which of several maximal pairs: first maximum, higher-is-better first)
        if (int(m_i), m_desc == "T") != (j, de) and sum(1 for x in counts if x == best_n) == 1:
            chk.corr_break("fbentry", dict(info, model=[int(m_i), m_desc, int(m_n)]))
        elif int(m_n) != best_n:
            chk.corr_break("fbentry", dict(info, model=[int(m_i), m_desc, int(m_n)], note="model count differs from the C01 count"))
        if len(chk.extra.setdefault("entry_accepted_at_psm_level_samples", [])) < 8:
            chk.extra["entry_accepted_at_psm_level_samples"].append(dict(feature=feature_cols[j], desc=de, accepted=acc))


def refusal_check(chk, case, d, tabs, feature_cols, direction, msg):
    """brew raised 'No PSMs accepted at train_fdr' / 'No PSMs found below ...'.  The training set of fold f is every row
    outside test fold f (the partition into folds does not depend on the seed: spectra are grouped by a hash and cut at
    fixed positions, C02); it is recomputed with `_split` on freshly read datasets.  If on EVERY training set the start
    feature accepts a target (C01 model), the refusal breaks the safety net."""
    folds = case["folds"]
    fresh = [mkdata.read_dataset(d / f"in{k}.{case['fmt']}") for k in range(len(tabs))]
    test = [[set(map(int, idx)) for idx in ds._split(folds, np.random.default_rng(0))] for ds in fresh]
    thr = Fraction(case.get("train_fdr", THR))
    start = []
    for f in range(folds):
        rows = {c: [] for c in feature_cols}
        for k, df in enumerate(tabs):
            labs = raw_labels(df)
            keep = [i for i in range(len(df)) if i not in test[k][f]]
            for c in feature_cols:
                col = df[c].tolist()
                rows[c] += [[int(col[i]), labs[i] in (1, True)] for i in keep]
        cols = [direction] if direction is not None else feature_cols
        reqs = [req("labels", desc_, thr, rows[c]) for c in cols for desc_ in (True, False)]
        counts = [sum(1 for x in dec(r_) if x == "1") for r_ in common.driver_batch(reqs)]
        start.append(max(counts))
    if min(start) == 0:
        chk.reject("brew-refused:no-start-labels")
        return
    chk.spec_violation("brew-refused-with-usable-start-feature",
                       dict(case=case, error=msg[:200], start_counts_per_fold=start, direction=direction,
                            clause="brew refused (no start labels) although on every fold's training set "
                                   + ("the named start feature" if direction is not None else "some feature")
                                   + f" accepts targets at train_fdr (per fold: {start})"))


def same_scores(got, want):
    """exact for integer-valued scores (every score the first generation of this harness produced); calibrated scores are
    fractions that pass through text files inside assign_confidence, so they are compared to 1e-12 (relative)"""
    got = np.asarray(got, dtype=float); want = np.asarray(want, dtype=float)
    if got.shape != want.shape:
        return False
    if np.all(np.isfinite(want)) and np.all(want == np.round(want)):
        return bool(np.array_equal(got, want))
    return bool(np.allclose(got, want, rtol=1e-12, atol=1e-12))


def model_attrs(m, feature_cols):
    """[feat_pass, index of best_feat, desc, override, is_trained] of a returned Model, or None"""
    if m.feat_pass is None or not isinstance(m.best_feat, str) or m.best_feat not in feature_cols:
        return None
    return [int(m.feat_pass), feature_cols.index(m.best_feat), bool(m.desc), bool(m.override), bool(m.is_trained)]


def int_columns(returned):
    if all(np.all(np.isfinite(r)) and np.all(r == np.round(r)) for r in returned):
        return [[int(v) for v in r] for r in returned]
    return None


def check_full(chk, case, mode, ms, thr, tabs, feature_cols, compared, reset, ens, src_reset, src_ens, per_fold,
               ret_int, descs, extra):
    """a follow-up run against `brewFull` (model, with its own choice of the source) and `TailSpecG` (specification, for
    the compared scores `compared` as restated by the caller)."""
    colls = [[raw_wire(df), [[int(v) for v in df[c]] for c in feature_cols], per_fold[k] if per_fold else []]
             for k, df in enumerate(tabs)]
    info = dict(case=case, follow=mode, models=ms, descs=[bool(x) for x in descs], **extra)
    shaped = ret_int is not None and len(ret_int) == len(tabs) and all(len(r) == len(df) for r, df in zip(ret_int, tabs)) \
        and len(descs) == len(tabs)
    if not shaped:
        chk.spec_violation("safety-net-full", dict(info, clause=f"{mode}: the returned scores are not one list per collection "
                                                                "with one value per row (or not the expected kind of values)"))
        return
    resp = common.driver_batch([
        req("fbfull", reset, ens, ms, thr, colls, src_reset, src_ens),
        req("fbtailgspec", ms, thr, colls, compared, [ret_int, [bool(x) for x in descs]]),
        req("fbtotal", thr, colls, compared)])
    model, spec_ok, total = dec(resp[0]), dec(resp[1]) == "T", int(dec(resp[2]))
    feat_total = max(m[0] for m in ms)
    all_override = all(m[3] for m in ms)
    info.update(feat_total=feat_total, accepted_by_compared_scores=total)
    chk.count(f"follow_boundary:{mode}", "forced" if all_override else
              ("feat_total>pred" if feat_total > total else ("equal" if feat_total == total else "feat_total<pred")))
    if not spec_ok:
        kept = ret_int == compared
        chk.spec_violation("safety-net-full",
                           dict(info, clause=f"{mode}: the best feature count of the fold models is {feat_total}, the compared scores "
                                             f"accept {total} genuine targets at q<={thr}; brew returned "
                                             + ("the compared scores" if kept else "something else than the compared scores")
                                             + f" with descs={[bool(x) for x in descs]} — not what TailSpecG allows (keep the "
                                               "scores iff they are not beaten, else every collection's column of the best "
                                               "feature of a best fold model with its direction)"))
        return
    if model == "reject-label":
        chk.corr_break("fbfull", dict(info, note="model rejects labels that brew accepted"))
        return
    fm_scores = [[int(x) for x in col] for col in model[0]]
    fm_descs = [x == "T" for x in model[1]]
    chk.count(f"follow_tail:{mode}", "kept" if fm_scores == compared else "feature")
    if fm_scores != ret_int or fm_descs != [bool(x) for x in descs]:
        if sum(1 for m in ms if m[0] == feat_total) == 1 or fm_scores == compared:
            chk.corr_break("fbfull", dict(info, model_descs=fm_descs))


def follow_list(chk, case, d, tabs, feature_cols, models, ms, run, sign, off):
    """brew(psms2, model=[the trained fold models]) — no fitting, `feat_pass/best_feat/desc` are what the objects carry —
    on a table built so that the models' scores accept exactly feat_total + delta targets at test_fdr (when that many
    targets can be accepted at all): the boundary of the strict comparison."""
    import random
    import mokapot

    thr = Fraction(case.get("test_fdr", THR))
    k_top = max(1, max(m[0] for m in ms) + case.get("delta", 0))
    r2 = random.Random(case["data_seed"] ^ 0x5BD1E995)
    n_dec = k_top + 2
    n_extra = r2.choice([0, 3, 6])
    n = max(12, k_top + n_dec + n_extra)
    df = mkdata.make_psm_table(r2, n_spectra=n, max_per_spectrum=1, n_feat=2, label_enc="bool", optional=("ExpMass",))
    # rank by the models' scores: k_top targets, then decoys (FDR beyond them stays above 1/2), a few mixed rows, decoys
    labels = [True] * k_top + [False] * n_dec + [r2.random() < 0.5 for _ in range(n_extra)]
    labels += [False] * (n - len(labels))
    base = [4 * n - 3 * i for i in range(n)]
    order = list(range(n)); r2.shuffle(order)                  # row order in the file is not the rank order
    df["Label"] = [labels[j] for j in order]
    df["feat0"] = [sign * base[j] for j in order]              # sign * feat0 is the order of the models' scores
    df["feat1"] = r2.sample(range(-6 * n, 6 * n), n)
    df["rowid"] = np.arange(off, off + n)
    df["SpecId"] = [f"g_{i}" for i in range(n)]
    enc = case["enc"]
    if enc == "pm1":
        df["Label"] = np.where(df["Label"], 1, -1)
    elif enc == "01":
        df["Label"] = np.where(df["Label"], 1, 0)
    if case.get("two_good"):
        df = df.rename(columns={"feat1": "afeat"})
    ds2 = mkdata.read_dataset(mkdata.write_table(df, d / f"follow.{case['fmt']}"))
    if list(ds2.feature_columns) != feature_cols:
        chk.corr_break("fbfull", dict(case=case, note="follow-up table has other feature columns"))
        return
    mark = len(recest.log(run))
    chk.count("follow", "list")
    try:
        _, models2, scores2, descs2 = mokapot.brew([ds2], list(models), test_fdr=float(thr), folds=len(models),
                                                   rng=case["seed"] + 1)
    except Exception as e:
        chk.spec_violation("follow-list-exception:" + type(e).__name__,
                           dict(case=case, error=f"{type(e).__name__}: {e}"[:300],
                                clause="brew raised when handed the trained fold models of an earlier run as a list"))
        return
    ms2 = [model_attrs(m, feature_cols) for m in models2]
    if ms2 != ms:
        chk.spec_violation("follow-list-models-altered",
                           dict(case=case, follow="list", before=ms, after=ms2,
                                clause="trained models handed to brew as a list are used as they are: after the call they must "
                                       "carry the feat_pass / best_feat / desc / override of their training (the baseline of the "
                                       f"safety net); before {ms}, after {ms2}"))
        return
    tag_of = {}
    for kind, t, ids, _ in recest.log(run)[mark:]:
        if kind == "score":
            for i in ids:
                tag_of[i] = t
    try:
        per_fold = [[sign * int(f) * recest.TAGMOD + tag_of[int(i)] for f, i in zip(df["feat0"], df["rowid"])]]
    except KeyError:
        chk.corr_break("fbfull", dict(case=case, follow="list", note="a row was never scored by any model"))
        return
    returned = [np.asarray(sc, dtype=float).ravel() for sc in scores2]
    check_full(chk, case, "list", ms2, thr, [df], feature_cols, per_fold, False, False, [], [], per_fold,
               int_columns(returned), list(descs2), dict(k_top=k_top, rows=n))


def follow_retrain(chk, case, d, tabs, feature_cols, models, run, sign, override, direction):
    """brew(psms, model=<one trained Model>): every fold re-trains a copy.  The start of the training is the model's own
    scoring (model.py `is_trained` branch: feat_pass = accepted targets of its scores on the training set, best_feat/desc
    carried over); with an estimator that gets worse by re-training `fit` reports "performs worse", the copy stays trained,
    `reset` is set and brew compares (and may return) the calibrated scores of the ORIGINAL model on all PSMs."""
    import mokapot

    flip = case["follow"] == "retrain-flip"
    folds = case["folds"]
    pre = models[0]
    carried = model_attrs(pre, feature_cols)
    t0 = int(pre.estimator.tag_)
    if flip:
        pre.estimator.flip_at = pre.estimator.n_fit_            # every further fit turns the output upside down
    paths = [d / f"in{k}.{case['fmt']}" for k in range(len(tabs))]
    test = [[set(map(int, idx)) for idx in mkdata.read_dataset(p)._split(folds, np.random.default_rng(0))] for p in paths]
    train_fdr = Fraction(case.get("train_fdr", THR))
    thr = Fraction(case.get("test_fdr", THR))
    up = sign > 0                                                # the trained model ranks by feat0, high first iff sign > 0
    reqs = []
    for f in range(folds):
        rows = []
        for k, df in enumerate(tabs):
            labs = raw_labels(df)
            col = df["feat0"].tolist()
            rows += [[int(col[i]), labs[i] in (1, True)] for i in range(len(df)) if i not in test[k][f]]
        reqs += [req("labels", up, train_fdr, rows), req("labels", not up, train_fdr, rows)]
    # the original model on every whole collection at test_fdr (what the reset path calibrates with)
    for df in tabs:
        labs = raw_labels(df)
        reqs.append(req("labels", up, thr, [[int(v), l in (1, True)] for v, l in zip(df["feat0"], labs)]))
    resp = [dec(r_) for r_ in common.driver_batch(reqs)]
    counts = [sum(1 for x in r_ if x == "1") for r_ in resp[:2 * folds]]
    c_start, c_flip = counts[0::2], counts[1::2]
    whole = resp[2 * folds:]
    worse = [flip and (c_flip[f] == 0 or (c_flip[f] < c_start[f] and not override)) for f in range(folds)]
    m_reset = dec(common.driver_batch([req("fbreset", [[True, w] for w in worse])])[0])
    reset = any(worse)
    if (m_reset[0] == "T") != reset:
        chk.corr_break("fbreset", dict(case=case, worse=worse, model=str(m_reset)))
    chk.count("follow", case["follow"] + (":reset" if reset else ":no-reset"))
    dss2 = [mkdata.read_dataset(p) for p in paths]
    try:
        _, models2, scores2, descs2 = mokapot.brew(dss2, pre, test_fdr=float(thr), folds=folds, rng=case["seed"] + 2)
    except Exception as e:
        msg = f"{type(e).__name__}: {e}"
        info = dict(case=case, follow=case["follow"], error=msg[:300], start_counts_per_fold=c_start,
                    accepted_by_original_model_per_collection=[sum(1 for x in w if x == "1") for w in whole])
        if "No PSMs accepted at train_fdr" in msg and min(c_start) == 0:
            chk.reject("follow-retrain:no-start-labels")
        elif "No target PSMs were below" in msg and reset and any(not any(x == "1" for x in w) for w in whole):
            chk.reject("follow-retrain:reset-scores-accept-nothing")
        else:
            chk.spec_violation("follow-retrain-refused",
                               dict(info, clause="brew raised when re-training a trained model although the model's own scores "
                                                 "accept targets on every training set"
                                                 + (" and, after the reset, in every collection" if reset else "")))
        return
    ms2 = [model_attrs(m, feature_cols) for m in models2]
    if any(m is None for m in ms2):
        chk.spec_violation("best-feat-not-a-name", dict(case=case, follow=case["follow"],
                                                        clause="a re-trained model's best_feat is not the name of a feature"))
        return
    # the three attributes of the `is_trained` start (spec restated; model: pretrainedAttrs is the identity on them)
    for f, m in enumerate(ms2):
        if m[0] != c_start[f] or m[1] != carried[1] or m[2] != carried[2]:
            chk.spec_violation("pretrained-start-attrs",
                               dict(case=case, follow=case["follow"], fold=f, reported=m, own_count=c_start[f],
                                    carried=dict(best_feat=carried[1], desc=carried[2]),
                                    clause=f"fold {f}: a re-trained model must report the accepted targets of its own scores on "
                                           f"the training set as feat_pass ({c_start[f]}) and carry best_feat/desc of its earlier "
                                           f"training; it reports feat_pass={m[0]}, best_feat={feature_cols[m[1]]}, desc={m[2]}"))
            return
    if [m[4] for m in ms2] != [x == "T" for x in m_reset[1]]:
        chk.corr_break("fbreset", dict(case=case, is_trained=[m[4] for m in ms2], model=str(m_reset)))
        return
    returned = [np.asarray(sc, dtype=float).ravel() for sc in scores2]
    shaped = len(returned) == len(tabs) and all(len(r) == len(df) for r, df in zip(returned, tabs))
    # scores of the original model (never re-fitted: brew trains deep copies)
    orig = [[sign * int(f) * recest.TAGMOD + t0 for f in df["feat0"]] for df in tabs]
    if reset:
        # the compared scores are calibrated per collection: (s - t) / (t - d), t = lowest accepted target score, d = median
        # decoy score; represented for the model by the integers s (or -s when t < d turns the order round)
        src_reset, expect = [], []
        for k, df in enumerate(tabs):
            s_arr = np.asarray(orig[k], dtype=float)
            lab = np.asarray([int(x) for x in whole[k]])
            if not (lab == 1).any() or not (lab == -1).any():
                chk.corr_break("fbreset", dict(case=case, collection=k,
                                               note="a reset was expected, whose calibration must refuse this collection (the "
                                                    "original model accepts no target / there is no decoy); brew returned"))
                return
            t_ = np.min(s_arr[lab == 1]); d_ = np.median(s_arr[lab == -1])
            if t_ == d_:
                chk.reject("follow-retrain:degenerate-calibration")
                return
            expect.append((s_arr - t_) / (t_ - d_))
            src_reset.append(orig[k] if t_ > d_ else [-x for x in orig[k]])
        compared, per_fold, ens_src = src_reset, None, []
        if shaped and all(np.array_equal(r, e) for r, e in zip(returned, expect)):
            ret_int = src_reset
        else:
            ret_int = int_columns(returned) if shaped else None
    else:
        # every copy was trained (again): per-fold scores; all copies carry the tag of the original, so the score of a row
        # does not depend on its fold; a copy that was re-fitted by a flipping estimator scores upside down
        sgn2 = -sign if flip else sign
        per_fold = [[sgn2 * int(f) * recest.TAGMOD + t0 for f in df["feat0"]] for df in tabs]
        compared, src_reset, ens_src = per_fold, [], []
        ret_int = int_columns(returned) if shaped else None
    check_full(chk, case, case["follow"], ms2, thr, tabs, feature_cols, compared, reset, False, src_reset, ens_src, per_fold,
               ret_int, list(descs2), dict(reset=reset, worse=worse))


def calibrated_scores(chk, case, tabs, raw_scores, tag_of):
    """decision_function estimators: `_predict` calibrates the scores of every fold, per collection, before the comparison:
    (s - t) / (t - d) with t the lowest score of a target accepted at test_fdr within the fold and d the median decoy
    score of the fold.  Returns (integers in the same order as the calibrated scores — the exact rationals times a common
    positive factor per collection —, the expected floats by the same numpy operations), or None (case given up)."""
    from math import lcm

    thr = Fraction(case.get("test_fdr", THR))
    groups, reqs = [], []
    for k, df in enumerate(tabs):
        labs = raw_labels(df)
        by_tag = {}
        for j, i in enumerate(df["rowid"]):
            by_tag.setdefault(tag_of[int(i)], []).append(j)
        for t, idx in sorted(by_tag.items()):
            groups.append((k, idx))
            reqs.append(req("labels", True, thr, [[raw_scores[k][j], labs[j] in (1, True)] for j in idx]))
    resp = [dec(r_) for r_ in common.driver_batch(reqs)]
    ints = [[None] * len(df) for df in tabs]
    floats = [np.zeros(len(df)) for df in tabs]
    parts = [[] for _ in tabs]
    for (k, idx), lab in zip(groups, resp):
        lab = np.asarray([int(x) for x in lab])
        s_arr = np.asarray([raw_scores[k][j] for j in idx], dtype=float)
        if not (lab == 1).any() or not (lab == -1).any():
            chk.corr_break("fallback", dict(case=case, collection=k,
                                            note="a fold's scores accept no target at test_fdr (or the fold has no decoy): "
                                                 "the calibration of `_predict` must refuse, brew returned"))
            return None
        t_ = np.min(s_arr[lab == 1]); d_ = np.median(s_arr[lab == -1])
        q = int(round(2 * t_ - 2 * d_))                       # t - d = q / 2 exactly (t an integer, d an integer or a half)
        if q == 0:
            chk.reject("degenerate-calibration")
            return None
        floats[k][idx] = (s_arr - t_) / (t_ - d_)
        parts[k].append((idx, int(t_), q))
    for k in range(len(tabs)):
        big = lcm(*[abs(q) for _, _, q in parts[k]])
        for idx, t_, q in parts[k]:
            f_ = (big // abs(q)) * (1 if q > 0 else -1)
            for j in idx:
                ints[k][j] = 2 * (raw_scores[k][j] - t_) * f_
    return ints, floats


def calibration_refusal_check(chk, case, d, tabs, sign, msg):
    """brew raised "Failed to calibrate scores between cross-validation folds" (`_predict`): legitimate only if in some
    collection some test fold's scores (every fold model ranks by sign * feat0) accept no target at test_fdr."""
    folds = case["folds"]
    thr = Fraction(case.get("test_fdr", THR))
    reqs = []
    for k, df in enumerate(tabs):
        labs = raw_labels(df)
        col = df["feat0"].tolist()
        test = mkdata.read_dataset(d / f"in{k}.{case['fmt']}")._split(folds, np.random.default_rng(0))
        for idx in test:
            reqs.append(req("labels", sign > 0, thr, [[int(col[int(i)]), labs[int(i)] in (1, True)] for i in idx]))
    counts = [sum(1 for x in dec(r_) if x == "1") for r_ in common.driver_batch(reqs)]
    if min(counts) == 0:
        chk.reject("brew-refused:calibration-accepts-nothing")
        return
    chk.spec_violation("brew-refused-calibration",
                       dict(case=case, error=msg[:200], accepted_per_collection_and_fold=counts,
                            clause="brew refused (failed to calibrate) although every fold's scores accept targets at test_fdr "
                                   f"in every collection: {counts}"))


def run_case(chk, case):
    import random
    import mokapot

    r = random.Random(case["data_seed"])
    cast_probe_check(chk, case)
    with P.workdir() as d:
        tabs, dss = [], []
        off = 0
        for k in range(case["nfiles"]):
            df = mkdata.make_psm_table(r, n_spectra=case["n_spectra"], max_per_spectrum=case["max_per"], n_feat=2,
                                       label_enc=(case.get("enc2") or case["enc"]) if k else case["enc"],
                                       optional=("ExpMass",), signal=case.get("signal", 4.0),
                                       good_feats=(0, 1) if case.get("two_good") else (0,))
            df["rowid"] = np.arange(off, off + len(df))
            enc_k = (case.get("enc2") or case["enc"]) if k else case["enc"]
            if enc_k != "bool" and case.get("lab_dtype") == "float":
                df["Label"] = df["Label"].astype(float)            # 1.0 / -1.0 / 0.0 (text: "1.0")
            elif enc_k != "bool" and case.get("lab_dtype") == "int8" and case["fmt"] == "parquet":
                df["Label"] = df["Label"].astype(np.int8)
            chk.count("label_dtype", str(df["Label"].dtype))
            df["SpecId"] = [f"f{k}_{i}" for i in range(len(df))]
            if case["best_low"]:
                df["feat0"] = -df["feat0"]
            df["feat0"] = store_feature(df["feat0"], case.get("feat_dtype"), case.get("feat_off", 0))
            chk.count("feature_dtype", f"{df['feat0'].dtype}/{case['fmt']}" + (f"+{case['feat_off']}" if case.get("feat_off") else ""))
            if case.get("two_good"):
                # name the second informative feature so that it sorts before the first one
                df = df.rename(columns={"feat1": "afeat"})
            off += len(df)
            tabs.append(df)
            dss.append(mkdata.read_dataset(mkdata.write_table(df, d / f"in{k}.{case['fmt']}")))
        feature_cols = list(dss[0].feature_columns)          # rowid, feat0, feat1
        good_sign = -1 if case["best_low"] else 1
        sign = good_sign if case["est"] in ("good", "forced-good") else -good_sign
        override = case["est"].startswith("forced")
        run = recest.new_run()
        dir_idx = case.get("direction")
        direction = None if dir_idx is None else feature_cols[1 + dir_idx]
        ens = bool(case.get("ens"))
        api = case.get("api", "proba")
        chk.count("estimator_api", api)
        model = mokapot.Model((FlipDecision if api == "decision" else FlipProba)(sign=sign, run=run), scaler="as-is", train_fdr=case.get("train_fdr", THR), max_iter=2,
                              override=override, rng=case["seed"], direction=direction)
        chk.count("direction_option", "none" if direction is None else ("informative" if dir_idx == 0 else "other"))
        try:
            _, models, scores, descs = mokapot.brew(dss, model, test_fdr=case.get("test_fdr", THR), folds=case["folds"],
                                                    rng=case["seed"], **(dict(ensemble=True) if ens else {}))
        except Exception as e:
            msg = f"{type(e).__name__}: {e}"
            if "No PSMs accepted at train_fdr" in msg or "No PSMs found below" in msg:
                # refusal because the start labels are empty: legitimate only if on some fold's training set the start
                # feature (the named one, or every feature) accepts nothing in either direction
                refusal_check(chk, case, d, tabs, feature_cols, direction, msg)
                return
            if api == "decision" and "Failed to calibrate scores between cross-validation folds" in msg:
                calibration_refusal_check(chk, case, d, tabs, sign, msg)
                return
            if isinstance(e, (IndexError,)) or "No PSMs" in msg or "PSMs were" in msg:
                chk.reject("brew-refused:" + type(e).__name__)
                return
            if direction is not None and type(e).__name__ == "TypeCheckError":
                chk.spec_violation("direction-best-feat-not-a-name",
                                   dict(case=case, error=msg[:300],
                                        clause="Model(direction=...): the fallback to the start feature raised instead of "
                                               "returning that feature's values"))
                return
            chk.spec_violation("exception:" + type(e).__name__, dict(case=case, error=msg[:300], clause="brew raised"))
            return
        # --- what the comparison saw
        ms = []
        for m in models:
            if m.feat_pass is None or m.best_feat is None:
                chk.reject("model-without-best-feature")
                return
            if not isinstance(m.best_feat, str) or m.best_feat not in feature_cols:
                chk.spec_violation("direction-best-feat-not-a-name" if direction is not None else "best-feat-not-a-name",
                                   dict(case=case, best_feat=repr(m.best_feat)[:120],
                                        clause="models[i].best_feat is not the name of a feature"))
                return
            ms.append([int(m.feat_pass), feature_cols.index(m.best_feat), bool(m.desc), bool(m.override),
                       bool(m.is_trained)])
        # --- independent recomputation of every fold's best single feature (C01 model + find_best_feature rule)
        allrows = {}
        for df in tabs:
            labs = raw_labels(df)
            for j, i in enumerate(df["rowid"]):
                allrows[int(i)] = ({c: int(df[c].iloc[j]) for c in feature_cols}, labs[j] in (1, True))
        for f, m in enumerate(models):
            tag = getattr(m.estimator, "tag_", None)
            ids = recest.training_rows(run, tag) if tag is not None else None
            if not ids:
                continue
            reqs = []
            for c in feature_cols:
                for desc_ in (True, False):
                    reqs.append(req("labels", desc_, Fraction(case.get("train_fdr", THR)), [[allrows[i][0][c], allrows[i][1]] for i in ids]))
            counts = [sum(1 for x in dec(r_) if x == "1") for r_ in common.driver_batch(reqs)]
            cd, ca = counts[0::2], counts[1::2]
            if direction is not None:
                # the start feature is given: feat_pass = the better of ITS two directions, desc wins ties (dirStart)
                j = feature_cols.index(direction)
                exp, exp_col = [dec(r_) for r_ in common.driver_batch([
                    req("fbdirstart", cd[j], ca[j]),
                    req("fbdirstartcol", Fraction(case.get("train_fdr", THR)), [allrows[i][1] for i in ids],
                        [allrows[i][0][direction] for i in ids])])]
                got = (ms[f][1], ms[f][0], ms[f][2])
                if exp_col != exp:
                    chk.corr_break("fbdirstartcol", dict(case=case, fold=f, model_col=exp_col, model_counts=exp))
                if got[0] != j or got[1] != max(cd[j], ca[j]) or (cd[j] if got[2] else ca[j]) != got[1]:
                    chk.spec_violation("direction-start-not-that-feature",
                                       dict(case=case, fold=f, direction=direction,
                                            reported=dict(feature=feature_cols[got[0]], feat_pass=got[1], desc=got[2]),
                                            pass_desc=cd[j], pass_asc=ca[j],
                                            clause=f"fold {f}: with direction={direction} the model reports feature "
                                                   f"{feature_cols[got[0]]}, feat_pass {got[1]}, desc {got[2]}; that feature "
                                                   f"accepts {cd[j]} (higher-is-better) / {ca[j]} (lower-is-better)"))
                    return
                if [int(exp[0]), exp[1] == "T"] != [got[1], got[2]]:
                    chk.corr_break("fbdirstart", dict(case=case, fold=f, model=exp, impl=list(got)))
                continue
            best = dec(common.driver_batch([req("fbbest", cd, ca)])[0])
            if best == "none":
                continue
            exp_n = int(best[1])
            # any (feature, direction) reaching the maximum count is an acceptable "best feature"
            got = (ms[f][1], ms[f][0], ms[f][2])
            got_count = (cd if got[2] else ca)[got[0]]
            if got[1] != exp_n or got_count != exp_n:
                chk.spec_violation("best-feature-not-best",
                                   dict(case=case, fold=f, reported=dict(feature=feature_cols[got[0]], feat_pass=got[1], desc=got[2]),
                                        counts_desc=dict(zip(feature_cols, cd)), counts_asc=dict(zip(feature_cols, ca)),
                                        clause=f"fold {f}: the model's best feature accepts {got[1]} targets but a single "
                                               f"feature accepts {exp_n} on the same training set"))
                return
            elif [int(best[0]), best[2] == "T"] != [got[0], got[2]] and sum(1 for x in cd + ca if x == exp_n) == 1:
                chk.corr_break("fbbest", dict(case=case, fold=f, model=best, impl=list(got)))
        all_trained = all(m[4] for m in ms)
        model_scores = []
        model_float = None
        if all_trained and ens:
            # ensemble=True: every fold model scores every row and brew compares / returns the mean; here the mean is
            # represented by folds * mean (an integer, same order), the returned floats are compared with sum / folds
            tags = [int(m.estimator.tag_) for m in models]
            model_scores = [[len(tags) * sign * int(f) * recest.TAGMOD + sum(tags) for f in df["feat0"]] for df in tabs]
            model_float = [np.asarray(e, dtype=float) / len(tags) for e in model_scores]
        elif all_trained:
            tag_of = {}
            nscore = {}
            for kind, t, ids, _ in recest.log(run):
                if kind == "score":
                    nscore[t] = nscore.get(t, 0) + 1
                    if nscore[t] > 2:           # after the two training iterations: prediction calls
                        for i in ids:
                            tag_of[i] = t
            for df in tabs:
                try:
                    model_scores.append([sign * int(f) * recest.TAGMOD + tag_of[int(i)]
                                         for f, i in zip(df["feat0"], df["rowid"])])
                except KeyError:
                    chk.corr_break("fallback", dict(case=case, note="a row was never scored by any model"))
                    return
            if api == "decision" and not ens:
                cal = calibrated_scores(chk, case, tabs, model_scores, tag_of)
                if cal is None:
                    return
                model_scores, model_float = cal
        else:
            model_scores = [[0] * len(df) for df in tabs]
        reqs = [req("fbpred", Fraction(case.get("test_fdr", THR)), [[[s, l] for s, l in zip(sc, raw_labels(df))]
                                              for sc, df in zip(model_scores, tabs)])]
        pred = dec(common.driver_batch(reqs)[0])
        if pred == "reject-label":
            chk.corr_break("fbpred", dict(case=case, note="model rejects labels that brew accepted"))
            return
        pred = int(pred)
        decision = dec(common.driver_batch([req("fbdecide", ms, pred)])[0])
        feat_total = max(m[0] for m in ms)
        all_override = all(m[3] for m in ms)
        # --- what brew returned
        returned = []
        for sc, df in zip(scores, tabs):
            returned.append(np.asarray(sc, dtype=float).ravel())
        if model_float is None:
            model_float = [np.array(msc, dtype=float) for msc in model_scores]
        is_model = all_trained and len(returned) == len(model_float) and all(
            np.array_equal(ret, msc) for ret, msc in zip(returned, model_float))
        is_zero = (not all_trained) and all((ret == 0).all() for ret in returned)
        feat_hit = None
        for j, c in enumerate(feature_cols):
            if all(np.array_equal(ret, df[c].values.astype(float)) for ret, df in zip(returned, tabs)):
                feat_hit = j
        # --- end to end: the whole returned pair against the Lean model of brew's tail and against TailSpec
        colls = [[raw_wire(df), [[int(v) for v in df[c]] for c in feature_cols], list(map(int, msc))]
                 for df, msc in zip(tabs, model_scores)]
        thr_t = Fraction(case.get("test_fdr", THR))
        ret_int = None
        if (ens or api == "decision") and is_model:
            ret_int = [list(msc) for msc in model_scores]          # the integer representation of the returned means / calibrated scores
        elif all(np.all(np.isfinite(r)) and np.all(r == np.round(r)) for r in returned):
            ret_int = [[int(v) for v in r] for r in returned]
        shaped = ret_int is not None and len(ret_int) == len(tabs) and all(len(r) == len(df) for r, df in zip(ret_int, tabs))
        # the model of every source of the compared scores (`brewFull`) and its specification `TailSpecG`, for the
        # compared scores as restated here: zeros unless every fold model is trained, then the ensemble mean or the
        # per-fold scores
        colls_full = [[c_[0], c_[1], [] if ens else c_[2]] for c_ in colls]
        full_reqs = [req("fbfull", False, ens, ms, thr_t, colls_full, [], model_scores if ens else [])]
        # (third extension) the ranking columns of assign_confidence: `brewThenRank` on the model's own return value and
        # `entryRankTyped` on the returned columns — only for columns whose integers ARE the returned values (the integers
        # standing for an ensemble mean / calibrated scores are order-preserving representatives, not stored values)
        stored_ints = shaped and not ((ens or api == "decision") and is_model)
        extra_reqs = [req("fbthenrank", False, ens, ms, thr_t, colls_full, [], model_scores if ens else [])]
        if stored_ints and len(descs) == len(tabs):
            extra_reqs += [req("fbrank", bool(descs[k]), ret_int[k]) for k in range(len(tabs))]
        if shaped:
            full_reqs.append(req("fbtailgspec", ms, thr_t, colls_full, model_scores, [ret_int, [bool(x) for x in descs]]))
        if not ens:
            tail_reqs = [req("fbtail", ms, thr_t, colls)]
            if shaped:
                tail_reqs.append(req("fbtailspec", ms, thr_t, colls, [ret_int, [bool(x) for x in descs]]))
        else:
            tail_reqs = []                                          # `brewTail` has no ensemble source
        tail_resp = common.driver_batch(tail_reqs + full_reqs + extra_reqs)
        extra_resp = tail_resp[len(tail_reqs) + len(full_reqs):]
        tail_resp = tail_resp[:len(tail_reqs) + len(full_reqs)]
        then_rank = dec(extra_resp[0])
        full_resp = tail_resp[len(tail_reqs):]
        full_model = dec(full_resp[0])
        full_spec_ok = (dec(full_resp[1]) == "T") if shaped else None
        if ens:
            tail_model, tail_spec_ok = full_model, full_spec_ok
        else:
            tail_model = dec(tail_resp[0])
            tail_spec_ok = (dec(tail_resp[1]) == "T") if shaped else None
        chk.count("ensemble", ens)
        if api == "decision":
            chk.count("decision_api_outcome", "calibrated scores returned" if (is_model and not ens) else
                      ("ensemble mean returned" if is_model else ("zeros" if is_zero else "feature")))
        chk.count("enc2", str(case.get("enc2") if case["nfiles"] > 1 else None))
        chk.count("est", case["est"]); chk.count("enc", case["enc"]); chk.count("best_low", case["best_low"])
        chk.count("all_trained", all_trained); chk.count("decision", "feature" if decision != "model" else "model")
        chk.count("fmt", case["fmt"]); chk.count("nfiles", case["nfiles"])
        chk.count("train_fdr/test_fdr", f"{case.get('train_fdr', THR)}/{case.get('test_fdr', THR)}")
        chk.count("folds_agree_on_best_feature", len({m[1] for m in ms}) == 1)
        key = (case["data_seed"], case["enc"], case["best_low"], case["est"], case["folds"])
        chk.case(None, key if (case["est"] != "good" or case["best_low"]) else None,
                 sample=dict(case={k: str(v) for k, v in case.items()}, models=ms, pred_total=pred,
                             feat_total=feat_total, decision=str(decision), descs=list(map(bool, descs))))
        clause = None
        should_fallback = (not all_override) and feat_total > pred
        if should_fallback:
            if feat_hit is None:
                clause = (f"silently worse: best feature accepted {feat_total} > {pred} targets but the returned "
                          "scores are not a feature's values")
            else:
                cands = [m for m in ms if m[0] == feat_total]
                if not any(m[1] == feat_hit and all(bool(x) == m[2] for x in descs) for m in cands):
                    clause = "fallback returned a feature/direction that is not the best feature's"
        else:
            if not (is_model or is_zero):
                clause = "model scores expected (no fallback condition) but something else was returned"
            elif not all(bool(x) for x in descs):
                clause = "model scores returned with a lower-is-better direction"
        info = dict(case=case, models=ms, pred_total=pred, feat_total=feat_total, decision=str(decision),
                    returned_feature=feat_hit, descs=list(map(bool, descs)), clause=clause)
        if clause:
            chk.spec_violation("safety-net", info)
            return
        if tail_spec_ok is not True:
            info["clause"] = ("the returned (scores, descs) do not satisfy TailSpec (model-or-zero scores that are not beaten, "
                              "or every collection's column of a best fold's best feature with its direction for every "
                              "collection)" if tail_spec_ok is False else
                              "returned scores are not one integer-valued list per collection with one value per row")
            chk.spec_violation("safety-net-tail", info)
            return
        if tail_model == "reject-label":
            chk.corr_break("fbtail", dict(info, note="model rejects labels that brew accepted"))
        else:
            tm_scores = [[int(x) for x in col] for col in tail_model[0]]
            tm_descs = [x == "T" for x in tail_model[1]]
            chk.count("tail", "feature" if decision != "model" else ("zeros" if not all_trained else "model"))
            if tm_scores != ret_int or tm_descs != [bool(x) for x in descs]:
                # several folds may tie on feat_pass with different features: TailSpec accepted the choice
                if sum(1 for m in ms if m[0] == feat_total) == 1 or decision == "model":
                    chk.corr_break("fbtail", dict(info, model_descs=tm_descs))
        # the same through the model with the source selection (`brewFull`) and `TailSpecG`
        if full_spec_ok is not True:
            info["clause"] = "the returned (scores, descs) do not satisfy TailSpecG for the compared scores of this run"
            chk.spec_violation("safety-net-full", info)
            return
        if full_model == "reject-label":
            chk.corr_break("fbfull", dict(info, note="model rejects labels that brew accepted"))
        else:
            fm_scores = [[int(x) for x in col] for col in full_model[0]]
            fm_descs = [x == "T" for x in full_model[1]]
            if fm_scores != ret_int or fm_descs != [bool(x) for x in descs]:
                if sum(1 for m in ms if m[0] == feat_total) == 1 or decision == "model":
                    chk.corr_break("fbfull", dict(info, model_descs=fm_descs))
        chk.count("main_boundary", "feat_total>pred" if feat_total > pred else ("equal" if feat_total == pred else "feat_total<pred"))
        # model agreement
        if decision == "model":
            if not (is_model or is_zero):
                chk.corr_break("fbdecide", info)
        else:
            if feat_hit != int(decision[1]) or any(bool(x) != (decision[2] == "T") for x in descs):
                # several folds may tie on feat_pass with different features: the spec above already accepted it
                if sum(1 for m in ms if m[0] == feat_total) == 1:
                    chk.corr_break("fbdecide", info)
        # --- confidence assignment must honour the direction
        out = d / "out"
        out.mkdir()
        pep_calls = []
        try:
            with pep_recorder(pep_calls):
                P.run_assign_confidence(dss, list(scores), out, descs=list(descs), prefixes=[f"p{k}" for k in range(len(dss))],
                                        decoys=True)
        except Exception as e:
            chk.spec_violation("confidence-exception:" + type(e).__name__,
                               dict(case=case, error=f"{type(e).__name__}: {e}"[:300],
                                    clause="assign_confidence raised on brew's return value"))
            return
        int_reps = ret_int if shaped else None                     # integers in the order of the returned scores
        rank_model = [[int(x) for x in dec(r_)] for r_ in extra_resp[1:]] if len(extra_resp) == 1 + len(tabs) else None
        count_reqs, count_real = [], []
        for k, (df, ret) in enumerate(zip(tabs, returned)):
            desc = bool(descs[k])
            t = P.read_result(out / f"p{k}.targets.psms"); dd = P.read_result(out / f"p{k}.decoys.psms")
            byid = {sid: i for i, sid in enumerate(df["SpecId"])}
            rank = ret if desc else -ret
            stored_kind = np.asarray(scores[k]).dtype.kind
            chk.count("returned_dtype", f"{np.asarray(scores[k]).dtype}:{'desc' if desc else 'asc'}")
            if rank_model is not None and stored_ints:
                # model: `entryRankTyped` (conversion to binary64, then the negation) on the integers of the returned column
                want = int_reps[k] if desc else [-x for x in int_reps[k]]
                if rank_model[k] != want:
                    chk.corr_break("fbrank", dict(case=case, collection=k, desc=desc))
                if (isinstance(then_rank, list) and len(then_rank) == len(tabs) and full_model != "reject-label"
                        and [[int(x) for x in col] for col in full_model[0]] == int_reps
                        and [x == "T" for x in full_model[1]] == [bool(x) for x in descs]
                        and [int(x) for x in then_rank[k]] != want):
                    chk.corr_break("fbthenrank", dict(case=case, collection=k, desc=desc))
            best = {}
            for i, s in enumerate(df["ScanNr"]):
                if s not in best or rank[i] > rank[best[s]]:
                    best[s] = i
            got = [byid[x] for x in list(t["PSMId"]) + list(dd["PSMId"])]
            bad = None
            if sorted(got) != sorted(best.values()):
                bad = "PSM-level winners are not the best-ranked PSM per spectrum for the returned direction"
            for f in (t, dd):
                ids = [byid[x] for x in f["PSMId"]]
                rr = [rank[i] for i in ids]
                if any(a < b for a, b in zip(rr, rr[1:])):
                    bad = "result rows are not ordered best-first for the returned direction"
                if not same_scores(np.asarray(f["score"], dtype=float), np.array(rr)):
                    bad = bad or "reported score is not the (sign-corrected) returned score of the row"
            if bad:
                chk.spec_violation("integer-score-ranking" if stored_kind in "iub" else "direction",
                                   dict(case=case, clause=bad + (f" (the scores were handed over as a {np.asarray(scores[k]).dtype} "
                                                                 "array)" if stored_kind in "iub" else ""), desc=desc,
                                        returned_dtype=str(np.asarray(scores[k]).dtype)))
                return
            # accepted target PSMs at test_fdr in the result file = C01 count on the ranking scores of the PSM-level winners
            if int_reps is not None and float(thr_t) in (0.5, 0.25, 0.125, 0.0625):
                rk = int_reps[k] if desc else [-x for x in int_reps[k]]
                targets = [l in (1, True) for l in raw_labels(df)]
                count_reqs.append(req("labels", True, thr_t, [[rk[i], targets[i]] for i in got]))
                count_real.append((k, int((np.asarray(t["q-value"], dtype=float) <= float(thr_t)).sum()), desc,
                                   str(np.asarray(scores[k]).dtype)))
        if count_reqs:
            for (k, real_n, desc, dt), r_ in zip(count_real, common.driver_batch(count_reqs)):
                want_n = sum(1 for x in dec(r_) if x == "1")
                chk.count("accepted_count_checked", "desc" if desc else "asc")
                if real_n != want_n:
                    chk.spec_violation("confidence-accepted-count",
                                       dict(case=case, collection=k, desc=desc, returned_dtype=dt, accepted=real_n, expected=want_n,
                                            clause=f"assign_confidence(descs=[{desc}]) on a {dt} score array: targets.psms holds "
                                                   f"{real_n} target PSMs with q<={thr_t}; the ranking scores of the PSM-level "
                                                   f"winners (value if higher-is-better else -value) accept {want_n} by the "
                                                   "defining formula (the q-values do not belong to the returned scores in the "
                                                   "returned direction)"))
                    return
        if not pep_input_check(chk, case, pep_calls, out, tabs, returned, None if ((ens or api == "decision") and is_model) else ret_int, descs):
            return
        if case.get("entry_fdr") is not None:
            entry_check(chk, case, d, dss, tabs, feature_cols)
            if chk.spec_violations:
                return
        if case.get("follow"):
            if not all_trained:
                chk.count("follow", "skipped:untrained-fold-model")
            elif case["follow"] == "list":
                follow_list(chk, case, d, tabs, feature_cols, models, ms, run, sign, off)
            else:
                follow_retrain(chk, case, d, tabs, feature_cols, models, run, sign, override, direction)


def search(chk):
    for _ in range(25 * chk.budget_mult):
        c = gen_case(chk.rng)
        if not c.get("follow"):
            c["est"] = chk.rng.choice(["bad", "good"])
        run_case(chk, c)
        if chk.spec_violations:
            return


def main(chk, args):
    build = common.build_and_audit("C07")
    if not build.driver_ok:
        chk.finish(build, RULE)
    # hand-picked cases first (stored number types of the informative feature; they draw nothing from chk.rng)
    corpus = common.HARNESS / "corpus" / "C07.json" if hasattr(common, "HARNESS") else None
    if corpus is None:
        from pathlib import Path
        corpus = Path(__file__).resolve().parent / "corpus" / "C07.json"
    if corpus.exists():
        for c in json.loads(corpus.read_text()):
            c = {k: v for k, v in c.items() if k != "note"}
            chk.count("corpus", "case")
            run_case(chk, c)
    n = chk.scale(110 if chk.tier == "quick" else 400)
    for _ in range(n):
        run_case(chk, gen_case(chk.rng))
    lc = common.leanchecker("C07") if chk.tier == "thorough" else None
    chk.assumptions += [
        "the accepted-target count of the model scores is recomputed from the recording estimator's known output "
        "(sign*feature*16+tag, uncalibrated predict_proba path) and the C01 model; thresholds are dyadic",
        "feat_pass / best_feat / desc are read from the returned Model objects (observe_at of the property)",
        "a refusal of brew for lack of start labels is accepted only if the start feature accepts nothing on some fold's "
        "training set; the fold partition is recomputed with the real `_split` on a fresh copy of the files (C02)",
        "assign_confidence(scores=None): the accepted counts per feature and direction are computed by the C01 model on the "
        "whole collection; which column the result files rank by is read off their `score` column",
        "ensemble=True: the returned mean over the fold models is compared with (sum of the recording estimators' known "
        "outputs) / folds by the same float division and handed to the model as that integer sum (same order)",
        "reset path: the calibrated scores (s - t) / (t - d) of the original model are recomputed with the same numpy "
        "operations from the C01 labels and handed to the model as s (or -s if t < d): calibration itself is C11's subject; "
        "whether a fold's re-training reports 'performs worse' is restated from model.py:312-329 for an estimator whose "
        "output order is known before and after the re-fit",
        "follow-up runs re-read the input files (brew consumes `spectra_dataframe` of a dataset); the fold partition of a "
        "re-trained run is recomputed with the real `_split` on a fresh copy (C02)",
        "the PEP kernel is replaced by a recorder that answers zeros (PEP numerics are C06's subject)",
    ]
    chk.finish(build, RULE, search=search, lc=lc, trusted_extra=["C01 model for q-values", "pandas/pyarrow I/O"])


def replay(chk, path):
    info = json.loads(open(path).read())
    case = info.get("case")
    if not isinstance(case, dict) or "est" not in case:
        print(json.dumps(info, indent=1)[:3000])
        return 0
    common.build_and_audit("C07")
    run_case(chk, case)
    for sig, i in chk.spec_violations:
        print("REPRODUCED", sig, i.get("clause"))
    return 1 if chk.spec_violations else 0
