"""C07 — best-feature safety net: never silently worse than the best single feature."""
from __future__ import annotations

import json
from fractions import Fraction

import numpy as np

import common
import mkdata
import pipeline as P
import recest
from common import Atom, dec, req

RULE = (
    "case = (1-2 PSM tables, label encoding 1/-1 | 1/0 | bool, best feature higher- or lower-is-better, estimator "
    "good / inverted (cannot learn) / forced with override, folds, text or Parquet); the real brew() is run with a "
    "recording estimator, the comparison inputs (feat_pass per model, accepted targets of the returned-or-model "
    "scores) are recomputed through the Lean model and the returned (scores, descs) checked; then "
    "assign_confidence(descs=...) is run and the PSM-level winners and order are checked against the direction; "
    "distinct = distinct (data seed, encoding, direction, estimator kind, folds); non-trivial = estimator inverted or "
    "lower-is-better feature"
)
THR = 0.25


def gen_case(rng):
    return dict(
        nfiles=rng.choice([1, 1, 2]),
        n_spectra=rng.choice([150, 220, 300]),
        max_per=rng.choice([1, 2]),
        enc=rng.choice(["pm1", "pm1", "01", "bool"]),
        best_low=rng.random() < 0.5,
        est=rng.choice(["good", "bad", "bad", "forced-bad"]),
        folds=rng.choice([2, 3]),
        fmt=rng.choice(["pin", "parquet"]),
        seed=rng.randrange(1000),
        data_seed=rng.randrange(1 << 30),
        two_good=rng.random() < 0.5,     # two features of similar power: folds may disagree on the best one
        # the best feature is counted at the model's training FDR, the learned scores at the evaluation FDR
        **rng.choice([dict(), dict(), dict(train_fdr=0.5, test_fdr=0.125), dict(train_fdr=0.125, test_fdr=0.5),
                      dict(train_fdr=0.5, test_fdr=0.01, signal=1.0), dict(train_fdr=0.5, test_fdr=0.03, signal=1.5),
                      dict(train_fdr=0.25, test_fdr=0.0625)]),
    )


def raw_labels(df):
    out = []
    for v in df["Label"].tolist():
        out.append(bool(v) if isinstance(v, (bool, np.bool_)) else int(v))
    return out


def run_case(chk, case):
    import random
    import mokapot

    r = random.Random(case["data_seed"])
    with P.workdir() as d:
        tabs, dss = [], []
        off = 0
        for k in range(case["nfiles"]):
            df = mkdata.make_psm_table(r, n_spectra=case["n_spectra"], max_per_spectrum=case["max_per"], n_feat=2,
                                       label_enc=case["enc"], optional=("ExpMass",), signal=case.get("signal", 4.0),
                                       good_feats=(0, 1) if case.get("two_good") else (0,))
            df["rowid"] = np.arange(off, off + len(df))
            df["SpecId"] = [f"f{k}_{i}" for i in range(len(df))]
            if case["best_low"]:
                df["feat0"] = -df["feat0"]
            if case.get("two_good"):
                # name the second informative feature so that it sorts before the first one
                df = df.rename(columns={"feat1": "afeat"})
            off += len(df)
            tabs.append(df)
            dss.append(mkdata.read_dataset(mkdata.write_table(df, d / f"in{k}.{case['fmt']}")))
        feature_cols = list(dss[0].feature_columns)          # rowid, feat0, feat1
        good_sign = -1 if case["best_low"] else 1
        sign = good_sign if case["est"] == "good" else -good_sign
        override = case["est"] == "forced-bad"
        run = recest.new_run()
        model = mokapot.Model(recest.TagProba(sign=sign, run=run), scaler="as-is", train_fdr=case.get("train_fdr", THR), max_iter=2,
                              override=override, rng=case["seed"])
        try:
            _, models, scores, descs = mokapot.brew(dss, model, test_fdr=case.get("test_fdr", THR), folds=case["folds"], rng=case["seed"])
        except Exception as e:
            msg = f"{type(e).__name__}: {e}"
            if isinstance(e, (IndexError,)) or "No PSMs" in msg or "PSMs were" in msg:
                chk.reject("brew-refused:" + type(e).__name__)
                return
            chk.spec_violation("exception:" + type(e).__name__, dict(case=case, error=msg[:300], clause="brew raised"))
            return
        # --- what the comparison saw
        ms = []
        for m in models:
            if m.feat_pass is None or m.best_feat is None:
                chk.reject("model-without-best-feature")
                return
            ms.append([int(m.feat_pass), feature_cols.index(m.best_feat), bool(m.desc), bool(m.override),
                       bool(m.is_trained)])
        # --- independent recomputation of every fold's best single feature (C01 model + find_best_feature rule)
        allrows = {}
        for df in tabs:
            labs = raw_labels(df)
            for j, i in enumerate(df["rowid"]):
                allrows[int(i)] = ({c: int(df[c].iloc[j]) for c in feature_cols}, labs[j] in (1, True))
        for f, m in enumerate(models):
            tag = getattr(m.estimator, "tag_", None)
            ids = recest.training_rows(run, tag) if tag is not None else None
            if not ids:
                continue
            reqs = []
            for c in feature_cols:
                for desc_ in (True, False):
                    reqs.append(req("labels", desc_, Fraction(case.get("train_fdr", THR)), [[allrows[i][0][c], allrows[i][1]] for i in ids]))
            counts = [sum(1 for x in dec(r_) if x == "1") for r_ in common.driver_batch(reqs)]
            cd, ca = counts[0::2], counts[1::2]
            best = dec(common.driver_batch([req("fbbest", cd, ca)])[0])
            if best == "none":
                continue
            exp_n = int(best[1])
            # any (feature, direction) reaching the maximum count is an acceptable "best feature"
            got = (ms[f][1], ms[f][0], ms[f][2])
            got_count = (cd if got[2] else ca)[got[0]]
            if got[1] != exp_n or got_count != exp_n:
                chk.spec_violation("best-feature-not-best",
                                   dict(case=case, fold=f, reported=dict(feature=feature_cols[got[0]], feat_pass=got[1], desc=got[2]),
                                        counts_desc=dict(zip(feature_cols, cd)), counts_asc=dict(zip(feature_cols, ca)),
                                        clause=f"fold {f}: the model's best feature accepts {got[1]} targets but a single "
                                               f"feature accepts {exp_n} on the same training set"))
                return
            elif [int(best[0]), best[2] == "T"] != [got[0], got[2]] and sum(1 for x in cd + ca if x == exp_n) == 1:
                chk.corr_break("fbbest", dict(case=case, fold=f, model=best, impl=list(got)))
        all_trained = all(m[4] for m in ms)
        model_scores = []
        if all_trained:
            tag_of = {}
            nscore = {}
            for kind, t, ids, _ in recest.log(run):
                if kind == "score":
                    nscore[t] = nscore.get(t, 0) + 1
                    if nscore[t] > 2:           # after the two training iterations: prediction calls
                        for i in ids:
                            tag_of[i] = t
            for df in tabs:
                try:
                    model_scores.append([sign * int(f) * recest.TAGMOD + tag_of[int(i)]
                                         for f, i in zip(df["feat0"], df["rowid"])])
                except KeyError:
                    chk.corr_break("fallback", dict(case=case, note="a row was never scored by any model"))
                    return
        else:
            model_scores = [[0] * len(df) for df in tabs]
        reqs = [req("fbpred", Fraction(case.get("test_fdr", THR)), [[[s, l] for s, l in zip(sc, raw_labels(df))]
                                              for sc, df in zip(model_scores, tabs)])]
        pred = dec(common.driver_batch(reqs)[0])
        if pred == "reject-label":
            chk.corr_break("fbpred", dict(case=case, note="model rejects labels that brew accepted"))
            return
        pred = int(pred)
        decision = dec(common.driver_batch([req("fbdecide", ms, pred)])[0])
        feat_total = max(m[0] for m in ms)
        all_override = all(m[3] for m in ms)
        # --- what brew returned
        returned = []
        for sc, df in zip(scores, tabs):
            returned.append(np.asarray(sc, dtype=float).ravel())
        is_model = all_trained and all(np.array_equal(ret, np.array(msc, dtype=float))
                                       for ret, msc in zip(returned, model_scores))
        is_zero = (not all_trained) and all((ret == 0).all() for ret in returned)
        feat_hit = None
        for j, c in enumerate(feature_cols):
            if all(np.array_equal(ret, df[c].values.astype(float)) for ret, df in zip(returned, tabs)):
                feat_hit = j
        chk.count("est", case["est"]); chk.count("enc", case["enc"]); chk.count("best_low", case["best_low"])
        chk.count("all_trained", all_trained); chk.count("decision", "feature" if decision != "model" else "model")
        chk.count("fmt", case["fmt"]); chk.count("nfiles", case["nfiles"])
        chk.count("train_fdr/test_fdr", f"{case.get('train_fdr', THR)}/{case.get('test_fdr', THR)}")
        chk.count("folds_agree_on_best_feature", len({m[1] for m in ms}) == 1)
        key = (case["data_seed"], case["enc"], case["best_low"], case["est"], case["folds"])
        chk.case(None, key if (case["est"] != "good" or case["best_low"]) else None,
                 sample=dict(case={k: str(v) for k, v in case.items()}, models=ms, pred_total=pred,
                             feat_total=feat_total, decision=str(decision), descs=list(map(bool, descs))))
        clause = None
        should_fallback = (not all_override) and feat_total > pred
        if should_fallback:
            if feat_hit is None:
                clause = (f"silently worse: best feature accepted {feat_total} > {pred} targets but the returned "
                          "scores are not a feature's values")
            else:
                cands = [m for m in ms if m[0] == feat_total]
                if not any(m[1] == feat_hit and all(bool(x) == m[2] for x in descs) for m in cands):
                    clause = "fallback returned a feature/direction that is not the best feature's"
        else:
            if not (is_model or is_zero):
                clause = "model scores expected (no fallback condition) but something else was returned"
            elif not all(bool(x) for x in descs):
                clause = "model scores returned with a lower-is-better direction"
        info = dict(case=case, models=ms, pred_total=pred, feat_total=feat_total, decision=str(decision),
                    returned_feature=feat_hit, descs=list(map(bool, descs)), clause=clause)
        if clause:
            chk.spec_violation("safety-net", info)
            return
        # model agreement
        if decision == "model":
            if not (is_model or is_zero):
                chk.corr_break("fbdecide", info)
        else:
            if feat_hit != int(decision[1]) or any(bool(x) != (decision[2] == "T") for x in descs):
                # several folds may tie on feat_pass with different features: the spec above already accepted it
                if sum(1 for m in ms if m[0] == feat_total) == 1:
                    chk.corr_break("fbdecide", info)
        # --- confidence assignment must honour the direction
        out = d / "out"
        out.mkdir()
        try:
            with P.pep_kernel(stub=True):
                P.run_assign_confidence(dss, list(scores), out, descs=list(descs), prefixes=[f"p{k}" for k in range(len(dss))],
                                        decoys=True)
        except Exception as e:
            chk.spec_violation("confidence-exception:" + type(e).__name__,
                               dict(case=case, error=f"{type(e).__name__}: {e}"[:300],
                                    clause="assign_confidence raised on brew's return value"))
            return
        for k, (df, ret) in enumerate(zip(tabs, returned)):
            desc = bool(descs[k])
            t = P.read_result(out / f"p{k}.targets.psms"); dd = P.read_result(out / f"p{k}.decoys.psms")
            byid = {sid: i for i, sid in enumerate(df["SpecId"])}
            rank = ret if desc else -ret
            best = {}
            for i, s in enumerate(df["ScanNr"]):
                if s not in best or rank[i] > rank[best[s]]:
                    best[s] = i
            got = [byid[x] for x in list(t["PSMId"]) + list(dd["PSMId"])]
            bad = None
            if sorted(got) != sorted(best.values()):
                bad = "PSM-level winners are not the best-ranked PSM per spectrum for the returned direction"
            for f in (t, dd):
                ids = [byid[x] for x in f["PSMId"]]
                rr = [rank[i] for i in ids]
                if any(a < b for a, b in zip(rr, rr[1:])):
                    bad = "result rows are not ordered best-first for the returned direction"
                if not np.array_equal(np.asarray(f["score"], dtype=float), np.array(rr)):
                    bad = bad or "reported score is not the (sign-corrected) returned score of the row"
            if bad:
                chk.spec_violation("direction", dict(case=case, clause=bad, desc=desc))
                return


def search(chk):
    for _ in range(25 * chk.budget_mult):
        c = gen_case(chk.rng)
        c["est"] = chk.rng.choice(["bad", "good"])
        run_case(chk, c)
        if chk.spec_violations:
            return


def main(chk, args):
    build = common.build_and_audit("C07")
    if not build.driver_ok:
        chk.finish(build, RULE)
    n = chk.scale(60 if chk.tier == "quick" else 400)
    for _ in range(n):
        run_case(chk, gen_case(chk.rng))
    lc = common.leanchecker("C07") if chk.tier == "thorough" else None
    chk.assumptions += [
        "the accepted-target count of the model scores is recomputed from the recording estimator's known output "
        "(sign*feature*16+tag, uncalibrated predict_proba path) and the C01 model; thresholds are dyadic",
        "feat_pass / best_feat / desc are read from the returned Model objects (observe_at of the property)",
    ]
    chk.finish(build, RULE, search=search, lc=lc, trusted_extra=["C01 model for q-values", "pandas/pyarrow I/O"])


def replay(chk, path):
    info = json.loads(open(path).read())
    case = info.get("case")
    if not isinstance(case, dict) or "est" not in case:
        print(json.dumps(info, indent=1)[:3000])
        return 0
    common.build_and_audit("C07")
    run_case(chk, case)
    for sig, i in chk.spec_violations:
        print("REPRODUCED", sig, i.get("clause"))
    return 1 if chk.spec_violations else 0
