"""C07 — best-feature safety net: never silently worse than the best single feature."""
from __future__ import annotations

import json
from fractions import Fraction

import numpy as np

import common
import mkdata
import pipeline as P
import recest
from common import Atom, dec, req

RULE = (
    "case = (1-2 PSM tables, label encoding 1/-1 | 1/0 | bool, best feature higher- or lower-is-better, estimator "
    "good / inverted (cannot learn) / forced with override, folds, text or Parquet); the real brew() is run with a "
    "recording estimator, the comparison inputs (feat_pass per model, accepted targets of the returned-or-model "
    "scores) are recomputed through the Lean model and the returned (scores, descs) checked; then "
    "assign_confidence(descs=...) is run and the PSM-level winners and order are checked against the direction; "
    "distinct = distinct (data seed, encoding, direction, estimator kind, folds); non-trivial = estimator inverted or "
    "lower-is-better feature; extension: the whole returned (scores, descs) is compared with the end-to-end Lean model "
    "`brewTail` and checked by the proved-equivalent Boolean of `TailSpec` (ops fbtail / fbtailspec), collections of one "
    "run may use different label encodings, Model(direction=<feature>) is generated (feat_pass/desc vs `dirStart`, "
    "best_feat must name that feature), and assign_confidence(scores=None) is run: per collection the result files must "
    "rank by a (feature, direction) pair accepting the most targets at eval_fdr, low values first when lower-is-better "
    "(op fbentry)"
)
THR = 0.25


def gen_case(rng):
    return dict(
        nfiles=rng.choice([1, 1, 2]),
        n_spectra=rng.choice([150, 220, 300]),
        max_per=rng.choice([1, 2]),
        enc=rng.choice(["pm1", "pm1", "01", "bool"]),
        best_low=rng.random() < 0.5,
        est=rng.choice(["good", "bad", "bad", "forced-bad"]),
        folds=rng.choice([2, 3]),
        fmt=rng.choice(["pin", "parquet"]),
        seed=rng.randrange(1000),
        data_seed=rng.randrange(1 << 30),
        two_good=rng.random() < 0.5,     # two features of similar power: folds may disagree on the best one
        # second collection stored with another label encoding than the first
        enc2=rng.choice([None, None, "pm1", "01", "bool"]),
        # Model(direction=...): the start feature is named by the user (0 = informative feature, 1 = the other one)
        direction=rng.choice([None, None, None, None, 0, 0, 1]),
        # also run assign_confidence(psms, scores=None) at this eval_fdr (its own best-feature path)
        entry_fdr=rng.choice([None, None, None, None, 0.25, 0.5, 0.125]),
        # the best feature is counted at the model's training FDR, the learned scores at the evaluation FDR
        **rng.choice([dict(), dict(), dict(train_fdr=0.5, test_fdr=0.125), dict(train_fdr=0.125, test_fdr=0.5),
                      dict(train_fdr=0.5, test_fdr=0.01, signal=1.0), dict(train_fdr=0.5, test_fdr=0.03, signal=1.5),
                      dict(train_fdr=0.25, test_fdr=0.0625)]),
    )


def raw_labels(df):
    out = []
    for v in df["Label"].tolist():
        out.append(bool(v) if isinstance(v, (bool, np.bool_)) else int(v))
    return out


def raw_wire(df):
    """the stored label column on the wire: T/F for booleans, the integer otherwise"""
    return raw_labels(df)


def entry_check(chk, case, d, dss, tabs, feature_cols):
    """assign_confidence(psms, scores=None): every collection is ranked by its own best feature IN THE DIRECTION
    find_best_feature reports (confidence.py:561-569).  Spec: the result files of a collection rank by a
    (feature, direction) pair that accepts the most targets at eval_fdr over all features and both directions;
    model: `collBest` (first maximum, higher-is-better tried first)."""
    thr = Fraction(case["entry_fdr"])
    out = d / "out_entry"
    out.mkdir()
    try:
        with P.pep_kernel(stub=True):
            P.run_assign_confidence(dss, None, out, eval_fdr=float(thr), prefixes=[f"e{k}" for k in range(len(dss))],
                                    decoys=True)
    except Exception as e:
        msg = f"{type(e).__name__}: {e}"
        if isinstance(e, RuntimeError) and "No PSMs found" in msg:
            real = None
        else:
            chk.spec_violation("confidence-entry-exception:" + type(e).__name__,
                               dict(case=case, error=msg[:300], clause="assign_confidence(scores=None) raised"))
            return
    else:
        real = True
    colls = [[raw_wire(df), [[int(v) for v in df[c]] for c in feature_cols], []] for df in tabs]
    # model (fbentry) and, independently, the counts (C01 model `labels`): accepted targets of every feature column in
    # both directions, per collection — one driver call
    reqs = [req("fbentry", thr, colls)]
    for df in tabs:
        targets = [l in (1, True) for l in raw_labels(df)]
        for c in feature_cols:
            for desc_ in (True, False):
                reqs.append(req("labels", desc_, thr, [[int(v), t] for v, t in zip(df[c], targets)]))
    resp = common.driver_batch(reqs)
    model = dec(resp[0])
    chk.count("entry", "none" if model == "none" else "ranked")
    per = 2 * len(feature_cols)
    all_counts = [[sum(1 for x in dec(r_) if x == "1") for r_ in resp[1 + k * per: 1 + (k + 1) * per]]
                  for k in range(len(tabs))]
    nothing = [k for k, cs in enumerate(all_counts) if max(cs) == 0]
    if real is None:
        if not nothing:
            chk.spec_violation("confidence-entry-refused",
                               dict(case=case, eval_fdr=str(thr), best_counts=[max(cs) for cs in all_counts],
                                    clause="assign_confidence(scores=None) raised 'No PSMs found' although in every collection "
                                           "some feature accepts targets at eval_fdr in one of the two directions"))
            return
        if model != "none":
            chk.corr_break("fbentry", dict(case=case, impl="RuntimeError", model=str(model)[:80]))
        chk.reject("entry-nothing-accepted")
        return
    if nothing:
        chk.spec_violation("confidence-entry-refused",
                           dict(case=case, eval_fdr=str(thr), collection=nothing[0],
                                clause="assign_confidence(scores=None) returned although no feature of a collection accepts a target"))
        return
    if model == "none":
        chk.corr_break("fbentry", dict(case=case, impl="ranked", model="none"))
        return
    for k, df in enumerate(tabs):
        counts = all_counts[k]
        best_n = max(counts)
        t = P.read_result(out / f"e{k}.targets.psms"); dd = P.read_result(out / f"e{k}.decoys.psms")
        byid = {sid: i for i, sid in enumerate(df["SpecId"])}
        ids = [byid[x] for x in list(t["PSMId"]) + list(dd["PSMId"])]
        rep = np.asarray(list(t["score"]) + list(dd["score"]), dtype=float)
        cands = []
        for j, c in enumerate(feature_cols):
            col = df[c].values.astype(float)
            for di, desc_ in enumerate((True, False)):
                if np.array_equal(rep, (col if desc_ else -col)[ids]):
                    cands.append((j, desc_, counts[2 * j + di]))
        info = dict(case=case, collection=k, eval_fdr=str(thr),
                    counts={f"{c}/{'desc' if de else 'asc'}": counts[2 * j + di] for j, c in enumerate(feature_cols)
                            for di, de in enumerate((True, False))},
                    ranked_by=[dict(feature=feature_cols[j], desc=de, accepts=n) for j, de, n in cands])
        m_rank, m_desc, m_i, m_n = model[k]
        chk.count("entry_desc", m_desc)
        if not cands:
            chk.spec_violation("confidence-best-feature-direction",
                               dict(info, clause="assign_confidence(scores=None): the reported scores are no feature column in any direction"))
            return
        if not any(n == best_n for _, _, n in cands):
            j, de, n = cands[0]
            chk.spec_violation("confidence-best-feature-direction",
                               dict(info, clause=f"assign_confidence(scores=None) ranks collection {k} by {feature_cols[j]} as "
                                                 f"{'higher' if de else 'lower'}-is-better, which accepts {n} targets at "
                                                 f"q<={thr}; the best feature/direction accepts {best_n} (the direction found "
                                                 "by find_best_feature is not honoured)"))
            return
        j, de, n = [c for c in cands if c[2] == best_n][0]
        rank = (df[feature_cols[j]].values if de else -df[feature_cols[j]].values).astype(float)
        best = {}
        for i, s_ in enumerate(df["ScanNr"]):
            if s_ not in best or rank[i] > rank[best[s_]]:
                best[s_] = i
        bad = None
        if sorted(ids) != sorted(best.values()):
            bad = "PSM-level winners are not the best-ranked PSM per spectrum in the best feature's direction"
        for f_ in (t, dd):
            rr = [rank[byid[x]] for x in f_["PSMId"]]
            if any(a < b for a, b in zip(rr, rr[1:])):
                bad = "result rows are not ordered best-first in the best feature's direction"
        acc = int((np.asarray(t["q-value"], dtype=float) <= float(thr)).sum())
        if bad:
            chk.spec_violation("confidence-best-feature-direction", dict(info, clause="assign_confidence(scores=None): " + bad))
            return
        # model agreement (which of several maximal pairs: first maximum, higher-is-better first)
        if (int(m_i), m_desc == "T") != (j, de) and sum(1 for x in counts if x == best_n) == 1:
            chk.corr_break("fbentry", dict(info, model=[int(m_i), m_desc, int(m_n)]))
        elif int(m_n) != best_n:
            chk.corr_break("fbentry", dict(info, model=[int(m_i), m_desc, int(m_n)], note="model count differs from the C01 count"))
        if len(chk.extra.setdefault("entry_accepted_at_psm_level_samples", [])) < 8:
            chk.extra["entry_accepted_at_psm_level_samples"].append(dict(feature=feature_cols[j], desc=de, accepted=acc))


def refusal_check(chk, case, d, tabs, feature_cols, direction, msg):
    """brew raised 'No PSMs accepted at train_fdr' / 'No PSMs found below ...'.  The training set of fold f is every row
    outside test fold f (the partition into folds does not depend on the seed: spectra are grouped by a hash and cut at
    fixed positions, C02); it is recomputed with `_split` on freshly read datasets.  If on EVERY training set the start
    feature accepts a target (C01 model), the refusal breaks the safety net."""
    folds = case["folds"]
    fresh = [mkdata.read_dataset(d / f"in{k}.{case['fmt']}") for k in range(len(tabs))]
    test = [[set(map(int, idx)) for idx in ds._split(folds, np.random.default_rng(0))] for ds in fresh]
    thr = Fraction(case.get("train_fdr", THR))
    start = []
    for f in range(folds):
        rows = {c: [] for c in feature_cols}
        for k, df in enumerate(tabs):
            labs = raw_labels(df)
            keep = [i for i in range(len(df)) if i not in test[k][f]]
            for c in feature_cols:
                col = df[c].tolist()
                rows[c] += [[int(col[i]), labs[i] in (1, True)] for i in keep]
        cols = [direction] if direction is not None else feature_cols
        reqs = [req("labels", desc_, thr, rows[c]) for c in cols for desc_ in (True, False)]
        counts = [sum(1 for x in dec(r_) if x == "1") for r_ in common.driver_batch(reqs)]
        start.append(max(counts))
    if min(start) == 0:
        chk.reject("brew-refused:no-start-labels")
        return
    chk.spec_violation("brew-refused-with-usable-start-feature",
                       dict(case=case, error=msg[:200], start_counts_per_fold=start, direction=direction,
                            clause="brew refused (no start labels) although on every fold's training set "
                                   + ("the named start feature" if direction is not None else "some feature")
                                   + f" accepts targets at train_fdr (per fold: {start})"))


def run_case(chk, case):
    import random
    import mokapot

    r = random.Random(case["data_seed"])
    with P.workdir() as d:
        tabs, dss = [], []
        off = 0
        for k in range(case["nfiles"]):
            df = mkdata.make_psm_table(r, n_spectra=case["n_spectra"], max_per_spectrum=case["max_per"], n_feat=2,
                                       label_enc=(case.get("enc2") or case["enc"]) if k else case["enc"],
                                       optional=("ExpMass",), signal=case.get("signal", 4.0),
                                       good_feats=(0, 1) if case.get("two_good") else (0,))
            df["rowid"] = np.arange(off, off + len(df))
            df["SpecId"] = [f"f{k}_{i}" for i in range(len(df))]
            if case["best_low"]:
                df["feat0"] = -df["feat0"]
            if case.get("two_good"):
                # name the second informative feature so that it sorts before the first one
                df = df.rename(columns={"feat1": "afeat"})
            off += len(df)
            tabs.append(df)
            dss.append(mkdata.read_dataset(mkdata.write_table(df, d / f"in{k}.{case['fmt']}")))
        feature_cols = list(dss[0].feature_columns)          # rowid, feat0, feat1
        good_sign = -1 if case["best_low"] else 1
        sign = good_sign if case["est"] == "good" else -good_sign
        override = case["est"] == "forced-bad"
        run = recest.new_run()
        dir_idx = case.get("direction")
        direction = None if dir_idx is None else feature_cols[1 + dir_idx]
        model = mokapot.Model(recest.TagProba(sign=sign, run=run), scaler="as-is", train_fdr=case.get("train_fdr", THR), max_iter=2,
                              override=override, rng=case["seed"], direction=direction)
        chk.count("direction_option", "none" if direction is None else ("informative" if dir_idx == 0 else "other"))
        try:
            _, models, scores, descs = mokapot.brew(dss, model, test_fdr=case.get("test_fdr", THR), folds=case["folds"], rng=case["seed"])
        except Exception as e:
            msg = f"{type(e).__name__}: {e}"
            if "No PSMs accepted at train_fdr" in msg or "No PSMs found below" in msg:
                # refusal because the start labels are empty: legitimate only if on some fold's training set the start
                # feature (the named one, or every feature) accepts nothing in either direction
                refusal_check(chk, case, d, tabs, feature_cols, direction, msg)
                return
            if isinstance(e, (IndexError,)) or "No PSMs" in msg or "PSMs were" in msg:
                chk.reject("brew-refused:" + type(e).__name__)
                return
            if direction is not None and type(e).__name__ == "TypeCheckError":
                chk.spec_violation("direction-best-feat-not-a-name",
                                   dict(case=case, error=msg[:300],
                                        clause="Model(direction=...): the fallback to the start feature raised instead of "
                                               "returning that feature's values"))
                return
            chk.spec_violation("exception:" + type(e).__name__, dict(case=case, error=msg[:300], clause="brew raised"))
            return
        # --- what the comparison saw
        ms = []
        for m in models:
            if m.feat_pass is None or m.best_feat is None:
                chk.reject("model-without-best-feature")
                return
            if not isinstance(m.best_feat, str) or m.best_feat not in feature_cols:
                chk.spec_violation("direction-best-feat-not-a-name" if direction is not None else "best-feat-not-a-name",
                                   dict(case=case, best_feat=repr(m.best_feat)[:120],
                                        clause="models[i].best_feat is not the name of a feature"))
                return
            ms.append([int(m.feat_pass), feature_cols.index(m.best_feat), bool(m.desc), bool(m.override),
                       bool(m.is_trained)])
        # --- independent recomputation of every fold's best single feature (C01 model + find_best_feature rule)
        allrows = {}
        for df in tabs:
            labs = raw_labels(df)
            for j, i in enumerate(df["rowid"]):
                allrows[int(i)] = ({c: int(df[c].iloc[j]) for c in feature_cols}, labs[j] in (1, True))
        for f, m in enumerate(models):
            tag = getattr(m.estimator, "tag_", None)
            ids = recest.training_rows(run, tag) if tag is not None else None
            if not ids:
                continue
            reqs = []
            for c in feature_cols:
                for desc_ in (True, False):
                    reqs.append(req("labels", desc_, Fraction(case.get("train_fdr", THR)), [[allrows[i][0][c], allrows[i][1]] for i in ids]))
            counts = [sum(1 for x in dec(r_) if x == "1") for r_ in common.driver_batch(reqs)]
            cd, ca = counts[0::2], counts[1::2]
            if direction is not None:
                # the start feature is given: feat_pass = the better of ITS two directions, desc wins ties (dirStart)
                j = feature_cols.index(direction)
                exp = dec(common.driver_batch([req("fbdirstart", cd[j], ca[j])])[0])
                got = (ms[f][1], ms[f][0], ms[f][2])
                if got[0] != j or got[1] != max(cd[j], ca[j]) or (cd[j] if got[2] else ca[j]) != got[1]:
                    chk.spec_violation("direction-start-not-that-feature",
                                       dict(case=case, fold=f, direction=direction,
                                            reported=dict(feature=feature_cols[got[0]], feat_pass=got[1], desc=got[2]),
                                            pass_desc=cd[j], pass_asc=ca[j],
                                            clause=f"fold {f}: with direction={direction} the model reports feature "
                                                   f"{feature_cols[got[0]]}, feat_pass {got[1]}, desc {got[2]}; that feature "
                                                   f"accepts {cd[j]} (higher-is-better) / {ca[j]} (lower-is-better)"))
                    return
                if [int(exp[0]), exp[1] == "T"] != [got[1], got[2]]:
                    chk.corr_break("fbdirstart", dict(case=case, fold=f, model=exp, impl=list(got)))
                continue
            best = dec(common.driver_batch([req("fbbest", cd, ca)])[0])
            if best == "none":
                continue
            exp_n = int(best[1])
            # any (feature, direction) reaching the maximum count is an acceptable "best feature"
            got = (ms[f][1], ms[f][0], ms[f][2])
            got_count = (cd if got[2] else ca)[got[0]]
            if got[1] != exp_n or got_count != exp_n:
                chk.spec_violation("best-feature-not-best",
                                   dict(case=case, fold=f, reported=dict(feature=feature_cols[got[0]], feat_pass=got[1], desc=got[2]),
                                        counts_desc=dict(zip(feature_cols, cd)), counts_asc=dict(zip(feature_cols, ca)),
                                        clause=f"fold {f}: the model's best feature accepts {got[1]} targets but a single "
                                               f"feature accepts {exp_n} on the same training set"))
                return
            elif [int(best[0]), best[2] == "T"] != [got[0], got[2]] and sum(1 for x in cd + ca if x == exp_n) == 1:
                chk.corr_break("fbbest", dict(case=case, fold=f, model=best, impl=list(got)))
        all_trained = all(m[4] for m in ms)
        model_scores = []
        if all_trained:
            tag_of = {}
            nscore = {}
            for kind, t, ids, _ in recest.log(run):
                if kind == "score":
                    nscore[t] = nscore.get(t, 0) + 1
                    if nscore[t] > 2:           # after the two training iterations: prediction calls
                        for i in ids:
                            tag_of[i] = t
            for df in tabs:
                try:
                    model_scores.append([sign * int(f) * recest.TAGMOD + tag_of[int(i)]
                                         for f, i in zip(df["feat0"], df["rowid"])])
                except KeyError:
                    chk.corr_break("fallback", dict(case=case, note="a row was never scored by any model"))
                    return
        else:
            model_scores = [[0] * len(df) for df in tabs]
        reqs = [req("fbpred", Fraction(case.get("test_fdr", THR)), [[[s, l] for s, l in zip(sc, raw_labels(df))]
                                              for sc, df in zip(model_scores, tabs)])]
        pred = dec(common.driver_batch(reqs)[0])
        if pred == "reject-label":
            chk.corr_break("fbpred", dict(case=case, note="model rejects labels that brew accepted"))
            return
        pred = int(pred)
        decision = dec(common.driver_batch([req("fbdecide", ms, pred)])[0])
        feat_total = max(m[0] for m in ms)
        all_override = all(m[3] for m in ms)
        # --- what brew returned
        returned = []
        for sc, df in zip(scores, tabs):
            returned.append(np.asarray(sc, dtype=float).ravel())
        is_model = all_trained and all(np.array_equal(ret, np.array(msc, dtype=float))
                                       for ret, msc in zip(returned, model_scores))
        is_zero = (not all_trained) and all((ret == 0).all() for ret in returned)
        feat_hit = None
        for j, c in enumerate(feature_cols):
            if all(np.array_equal(ret, df[c].values.astype(float)) for ret, df in zip(returned, tabs)):
                feat_hit = j
        # --- end to end: the whole returned pair against the Lean model of brew's tail and against TailSpec
        colls = [[raw_wire(df), [[int(v) for v in df[c]] for c in feature_cols], list(map(int, msc))]
                 for df, msc in zip(tabs, model_scores)]
        thr_t = Fraction(case.get("test_fdr", THR))
        ret_int = None
        if all(np.all(np.isfinite(r)) and np.all(r == np.round(r)) for r in returned):
            ret_int = [[int(v) for v in r] for r in returned]
        tail_reqs = [req("fbtail", ms, thr_t, colls)]
        shaped = ret_int is not None and len(ret_int) == len(tabs) and all(len(r) == len(df) for r, df in zip(ret_int, tabs))
        if shaped:
            tail_reqs.append(req("fbtailspec", ms, thr_t, colls, [ret_int, [bool(x) for x in descs]]))
        tail_resp = common.driver_batch(tail_reqs)
        tail_model = dec(tail_resp[0])
        tail_spec_ok = (dec(tail_resp[1]) == "T") if shaped else None
        chk.count("enc2", str(case.get("enc2") if case["nfiles"] > 1 else None))
        chk.count("est", case["est"]); chk.count("enc", case["enc"]); chk.count("best_low", case["best_low"])
        chk.count("all_trained", all_trained); chk.count("decision", "feature" if decision != "model" else "model")
        chk.count("fmt", case["fmt"]); chk.count("nfiles", case["nfiles"])
        chk.count("train_fdr/test_fdr", f"{case.get('train_fdr', THR)}/{case.get('test_fdr', THR)}")
        chk.count("folds_agree_on_best_feature", len({m[1] for m in ms}) == 1)
        key = (case["data_seed"], case["enc"], case["best_low"], case["est"], case["folds"])
        chk.case(None, key if (case["est"] != "good" or case["best_low"]) else None,
                 sample=dict(case={k: str(v) for k, v in case.items()}, models=ms, pred_total=pred,
                             feat_total=feat_total, decision=str(decision), descs=list(map(bool, descs))))
        clause = None
        should_fallback = (not all_override) and feat_total > pred
        if should_fallback:
            if feat_hit is None:
                clause = (f"silently worse: best feature accepted {feat_total} > {pred} targets but the returned "
                          "scores are not a feature's values")
            else:
                cands = [m for m in ms if m[0] == feat_total]
                if not any(m[1] == feat_hit and all(bool(x) == m[2] for x in descs) for m in cands):
                    clause = "fallback returned a feature/direction that is not the best feature's"
        else:
            if not (is_model or is_zero):
                clause = "model scores expected (no fallback condition) but something else was returned"
            elif not all(bool(x) for x in descs):
                clause = "model scores returned with a lower-is-better direction"
        info = dict(case=case, models=ms, pred_total=pred, feat_total=feat_total, decision=str(decision),
                    returned_feature=feat_hit, descs=list(map(bool, descs)), clause=clause)
        if clause:
            chk.spec_violation("safety-net", info)
            return
        if tail_spec_ok is not True:
            info["clause"] = ("the returned (scores, descs) do not satisfy TailSpec (model-or-zero scores that are not beaten, "
                              "or every collection's column of a best fold's best feature with its direction for every "
                              "collection)" if tail_spec_ok is False else
                              "returned scores are not one integer-valued list per collection with one value per row")
            chk.spec_violation("safety-net-tail", info)
            return
        if tail_model == "reject-label":
            chk.corr_break("fbtail", dict(info, note="model rejects labels that brew accepted"))
        else:
            tm_scores = [[int(x) for x in col] for col in tail_model[0]]
            tm_descs = [x == "T" for x in tail_model[1]]
            chk.count("tail", "feature" if decision != "model" else ("zeros" if not all_trained else "model"))
            if tm_scores != ret_int or tm_descs != [bool(x) for x in descs]:
                # several folds may tie on feat_pass with different features: TailSpec accepted the choice
                if sum(1 for m in ms if m[0] == feat_total) == 1 or decision == "model":
                    chk.corr_break("fbtail", dict(info, model_descs=tm_descs))
        # model agreement
        if decision == "model":
            if not (is_model or is_zero):
                chk.corr_break("fbdecide", info)
        else:
            if feat_hit != int(decision[1]) or any(bool(x) != (decision[2] == "T") for x in descs):
                # several folds may tie on feat_pass with different features: the spec above already accepted it
                if sum(1 for m in ms if m[0] == feat_total) == 1:
                    chk.corr_break("fbdecide", info)
        # --- confidence assignment must honour the direction
        out = d / "out"
        out.mkdir()
        try:
            with P.pep_kernel(stub=True):
                P.run_assign_confidence(dss, list(scores), out, descs=list(descs), prefixes=[f"p{k}" for k in range(len(dss))],
                                        decoys=True)
        except Exception as e:
            chk.spec_violation("confidence-exception:" + type(e).__name__,
                               dict(case=case, error=f"{type(e).__name__}: {e}"[:300],
                                    clause="assign_confidence raised on brew's return value"))
            return
        for k, (df, ret) in enumerate(zip(tabs, returned)):
            desc = bool(descs[k])
            t = P.read_result(out / f"p{k}.targets.psms"); dd = P.read_result(out / f"p{k}.decoys.psms")
            byid = {sid: i for i, sid in enumerate(df["SpecId"])}
            rank = ret if desc else -ret
            best = {}
            for i, s in enumerate(df["ScanNr"]):
                if s not in best or rank[i] > rank[best[s]]:
                    best[s] = i
            got = [byid[x] for x in list(t["PSMId"]) + list(dd["PSMId"])]
            bad = None
            if sorted(got) != sorted(best.values()):
                bad = "PSM-level winners are not the best-ranked PSM per spectrum for the returned direction"
            for f in (t, dd):
                ids = [byid[x] for x in f["PSMId"]]
                rr = [rank[i] for i in ids]
                if any(a < b for a, b in zip(rr, rr[1:])):
                    bad = "result rows are not ordered best-first for the returned direction"
                if not np.array_equal(np.asarray(f["score"], dtype=float), np.array(rr)):
                    bad = bad or "reported score is not the (sign-corrected) returned score of the row"
            if bad:
                chk.spec_violation("direction", dict(case=case, clause=bad, desc=desc))
                return
        if case.get("entry_fdr") is not None:
            entry_check(chk, case, d, dss, tabs, feature_cols)


def search(chk):
    for _ in range(25 * chk.budget_mult):
        c = gen_case(chk.rng)
        c["est"] = chk.rng.choice(["bad", "good"])
        run_case(chk, c)
        if chk.spec_violations:
            return


def main(chk, args):
    build = common.build_and_audit("C07")
    if not build.driver_ok:
        chk.finish(build, RULE)
    n = chk.scale(110 if chk.tier == "quick" else 400)
    for _ in range(n):
        run_case(chk, gen_case(chk.rng))
    lc = common.leanchecker("C07") if chk.tier == "thorough" else None
    chk.assumptions += [
        "the accepted-target count of the model scores is recomputed from the recording estimator's known output "
        "(sign*feature*16+tag, uncalibrated predict_proba path) and the C01 model; thresholds are dyadic",
        "feat_pass / best_feat / desc are read from the returned Model objects (observe_at of the property)",
        "a refusal of brew for lack of start labels is accepted only if the start feature accepts nothing on some fold's "
        "training set; the fold partition is recomputed with the real `_split` on a fresh copy of the files (C02)",
        "assign_confidence(scores=None): the accepted counts per feature and direction are computed by the C01 model on the "
        "whole collection; which column the result files rank by is read off their `score` column",
    ]
    chk.finish(build, RULE, search=search, lc=lc, trusted_extra=["C01 model for q-values", "pandas/pyarrow I/O"])


def replay(chk, path):
    info = json.loads(open(path).read())
    case = info.get("case")
    if not isinstance(case, dict) or "est" not in case:
        print(json.dumps(info, indent=1)[:3000])
        return 0
    common.build_and_audit("C07")
    run_case(chk, case)
    for sig, i in chk.spec_violations:
        print("REPRODUCED", sig, i.get("clause"))
    return 1 if chk.spec_violations else 0
