"""C15 — Picked-protein: one entry per target/decoy protein pair, won by its best peptide
(correspondence harness).

Implementation side (observed at the public interfaces only):
  * `mokapot.picked_protein.picked_protein` on generated peptide tables, with a `Proteins` object obtained
    from the real `mokapot.read_fasta` on generated FASTA text,
  * `targets.proteins` / `decoys.proteins` (and `*.peptides`) written by `assign_confidence(proteins=...)`,
  * `mokapot.picked_protein.strip_peptides` for exotic notations that never survive the mapping checks.
  * `mokapot.peptides.match_decoy` (the pairing step of `group_without_decoys`, target-only FASTA), with the
    seeded shuffle obtained independently from the pandas primitive `Series.sample` itself.
Model side: driver ops `strip`, `picked`, `pickedq`, `spec-C15`, `matchdecoy`, `pickedfull`, `pickedfiles`,
`pickedrun` (several collections / calls, chunk-wise writer), `joingroup` (+ `qspec` of C01); third pass: `stripn`, `stripmodsn`,
`dropdash` (model of the repair proposed in FINDING-C15.md, against Python's `re` and the patched function written with pandas).
The spec is evaluated on the implementation's output twice, independently of the model: by the Lean
checker `spec-C15` (proved equivalent to `SpecEntries`) and by a direct Python re-statement that uses the
generator's ground truth (the residue sequence behind every rendered peptide) instead of any stripping.
"""
from __future__ import annotations

import contextlib
import io
import itertools
import json
import logging
import os
import shutil
import tempfile
import warnings
from fractions import Fraction
from pathlib import Path

import numpy as np
import pandas as pd

import common
from common import a_bool, a_rat, a_str, dec, req

logging.disable(logging.CRITICAL)
warnings.simplefilter("ignore")

RULE = (
    "cases = (FASTA text with subset/duplicate/overlapping proteins, with or without decoy entries, identifiers plain / "
    "UniProt-like / odd / made of prefix letters / holding commas -> real read_fasta -> Proteins; peptide table rendered "
    "in one of 9 flat modification/flank notations or (8 % of the direct tables) one of 3 notations with annotations that hold "
    "brackets / ProForma terminal modifications; table shapes random mixture / empty / placed exactly on and one row above "
    "the thresholds of the 10 % and 5 % rules; scores tie-free or tied, small or needing 25 significant bits (not "
    "float32-representable); seed given as int or numpy Generator; row labels of the table range/permuted/offset/duplicated; "
    "entry point picked_protein or assign_confidence result files, the latter from text or Parquet input, with "
    "decoys=True/False, descs=[True]/[False], CONFIDENCE_CHUNK_SIZE default / 1..7 rows, tie-free or tied scores, one "
    "collection or 2-3 collections in one call (prefixes absent / distinct / mixed / repeated / empty string, optionally "
    "a second call with append_to_output_file=True on the same directory); group names of read_fasta vs joinGroup; "
    "match_decoy on random target/decoy lists; strip_peptides on "
    "well-formed, listed exotic and random bracket/dot strings); distinct = distinct (protein "
    "maps, stripped table with score ranks and labels); non-trivial = at least one pair with >= 2 candidate rows "
    "or a shared/unmappable peptide in the table; thorough adds the exhaustive sweep over all tables of <= 3 rows "
    "(7 peptide kinds x 3 score values) and all 4-row tables over 4 peptide kinds x 2 score values, on a "
    "database with and without decoys"
)

AA = "ACDEFGHILMNPQSTVWY"  # no K / R: peptides are cut only where we put one
PREFIXES = ["decoy_", "decoy_", "rev_", "DECOY-", "XXX_"]
_TMP = None


def tmpdir() -> Path:
    global _TMP
    if _TMP is None:
        base = "/dev/shm" if os.path.isdir("/dev/shm") else None
        _TMP = Path(tempfile.mkdtemp(prefix="c15-", dir=base))
    return _TMP


def cleanup():
    global _TMP
    if _TMP:
        shutil.rmtree(_TMP, ignore_errors=True)
        _TMP = None


@contextlib.contextmanager
def quiet():
    with contextlib.redirect_stdout(io.StringIO()), contextlib.redirect_stderr(io.StringIO()):
        yield


# ----------------------------------------------------------------------------
# databases
# ----------------------------------------------------------------------------
def rev_pep(p: str) -> str:
    """decoy of a tryptic peptide: reverse everything but the C-terminal residue"""
    return p[:-1][::-1] + p[-1]


def gen_db(rng, big=False, wide=False):
    """FASTA text with subset / duplicate / overlapping proteins; `wide`: many proteins with peptides of their own,
    so that the protein level has enough target/decoy pairs for its q-values to differ from 1"""
    alpha = rng.sample(AA, rng.choice([3, 5] if wide else [1, 2, 2, 3, 5]))
    npool = rng.choice([12, 16, 20] if wide else [1, 2, 3, 4, 5, 6, 8] + ([12, 20] if big else []))
    pool = []
    tries = 0
    while len(pool) < npool and tries < 200:
        tries += 1
        L = rng.randint(2, 5)
        p = "".join(rng.choice(alpha) for _ in range(L)) + rng.choice("KKR")
        if p not in pool:
            pool.append(p)
    npool = len(pool)
    nprot = rng.choice([6, 9, 12] if wide else [1, 2, 2, 3, 3, 4, 5, 6] + ([9, 14] if big else []))
    pat = rng.choice(["disjoint", "disjoint", "star", "random"] if wide else ["random", "random", "chain", "dups", "star", "disjoint"])
    sets = []
    for j in range(nprot):
        if pat == "random":
            s = [p for p in pool if rng.random() < 0.5] or [rng.choice(pool)]
        elif pat == "chain":
            s = pool[: rng.randint(1, npool)]
        elif pat == "dups":
            s = list(sets[rng.randrange(len(sets))]) if sets and rng.random() < 0.6 else rng.sample(pool, rng.randint(1, npool))
            if rng.random() < 0.3 and len(s) > 1:
                s = rng.sample(s, rng.randint(1, len(s)))
        elif pat == "star":
            s = [pool[0]] + [p for p in pool[1:] if rng.random() < (0.12 if wide else 0.3)]
        else:
            s = [pool[j % npool]]
        s = list(s)
        rng.shuffle(s)
        sets.append(s)
    prefix = rng.choice(PREFIXES)
    style = rng.choice(["plain", "plain", "uniprot", "odd", "prefix-letters", "comma"])
    names = []
    for j in range(nprot):
        if style == "plain":
            names.append(f"P{j}")
        elif style == "uniprot":
            names.append(f"sp|Q{j:04d}|PR{j}_HUMAN")
        elif style == "prefix-letters":
            # distinct names that begin with letters of the decoy prefix (without being decoys) and agree once those
            # leading letters are removed: a target and its decoy must be paired by the NAME, not by a stripped form
            chars = [ch for ch in dict.fromkeys(prefix) if ch not in ",; \t"] or ["d"]
            for _ in range(50):
                nm = "".join(rng.choice(chars) for _ in range(rng.randint(1, 3))) + str(j // 2)
                if not nm.startswith(prefix) and nm not in names:
                    break
            else:
                nm = f"P{j}"
            names.append(nm)
        elif style == "comma":
            # legal FASTA identifiers that hold a comma (the identifier is the header up to the first blank, so never
            # the separator ", " itself); group names are joined with ", " and the first member is read back by
            # picked_protein: these databases must be handled like any other
            names.append(rng.choice(["P,", "P,", "a,b", "Q,x", ",", "gi,"]) + str(j) + rng.choice(["", "", ",v2"]))
        else:
            names.append(rng.choice(["P", "p", "dec", "Z|z", "1", "P1", "a;b", "x-"]) + str(j))
    mode = rng.choice(["paired", "paired", "paired", "none", "none", "partial"])
    entries = [(n, "".join(s)) for n, s in zip(names, sets)]
    if mode != "none":
        dec_entries = []
        for n, s in zip(names, sets):
            if mode == "partial" and rng.random() < 0.35:
                continue
            ds = [rev_pep(p) for p in s]
            if rng.random() < 0.3:
                rng.shuffle(ds)
            dec_entries.append((prefix + n, "".join(ds)))
        lay = rng.choice(["after", "interleaved", "before", "shuffled"])
        if lay == "after":
            entries = entries + dec_entries
        elif lay == "before":
            entries = dec_entries + entries
        elif lay == "interleaved":
            out = []
            dd = dict((n[len(prefix):], (n, s)) for n, s in dec_entries)
            for n, s in entries:
                out.append((n, s))
                if n in dd:
                    out.append(dd[n])
            entries = out
        else:
            entries = entries + dec_entries
            rng.shuffle(entries)
    lines = []
    for n, s in entries:
        lines.append(">" + n + rng.choice(["", " some description", " OS=Homo sapiens"]))
        w = rng.choice([60, 7, 1000])
        lines += [s[i:i + w] for i in range(0, len(s), w)]
    fasta = "\n".join(lines) + "\n"
    params = dict(enzyme="[KR]", missed_cleavages=rng.choice([0, 0, 0, 1]), min_length=2, max_length=50,
                  decoy_prefix=prefix)
    return dict(fasta=fasta, params=params, pool=pool, mode=mode, pat=pat, wide=wide, name_style=style)


def load_proteins(db):
    """the real read_fasta on the generated text -> plain dict of the Proteins maps (the model's input)"""
    import mokapot

    path = tmpdir() / "db.fasta"
    path.write_text(db["fasta"])
    with quiet():
        P = mokapot.read_fasta(str(path), **db["params"])
    return dict(has_decoys=bool(P.has_decoys), prefix=P.decoy_prefix, peptide_map=dict(P.peptide_map),
                shared=list(P.shared_peptides.keys()), protein_map=dict(P.protein_map))


def mk_proteins(pd_):
    from mokapot.proteins import Proteins

    return Proteins(pd_["prefix"], dict(pd_["peptide_map"]), dict(pd_["protein_map"]),
                    {k: "x; y" for k in pd_["shared"]}, pd_["has_decoys"])


def known_names(P):
    """every protein name of the database (targets and their decoy names): the keys and values of the name map
    read_fasta builds from the identifiers themselves"""
    return set(P["protein_map"].keys()) | set(P["protein_map"].values())


def members_of(P, g):
    """the member names that were joined (", ") into the group name `g`, recovered with the names of the database
    (not by splitting at commas: identifiers may hold commas); None if `g` is not such a join"""
    known = known_names(P)
    out, rest = [], g
    while True:
        cands = sorted((n for n in known if rest == n or rest.startswith(n + ", ")), key=len, reverse=True)
        if not cands:
            return None
        n = cands[0]
        out.append(n)
        if rest == n:
            return out
        rest = rest[len(n) + 2:]


def first_of(P, g):
    """first member of a group: by the names of the database; for a group name that is no join of known names
    (hand-made maps of the corpus) the text up to the first separator ", " """
    m = members_of(P, g)
    return m[0] if m else g.split(", ")[0]


def pair_order_mismatches(P):
    """B of the design: target group and decoy group with the same member set but a different member order"""
    pre = P["prefix"]
    groups = set(P["peptide_map"].values())
    tg = [g for g in groups if not g.startswith(pre)]
    dg = [g for g in groups if g.startswith(pre)]
    n = 0
    for g in tg:
        mem = sorted(pre + m for m in g.split(", "))
        mirrored = ", ".join(pre + m for m in g.split(", "))
        for d in dg:
            if sorted(d.split(", ")) == mem and d != mirrored and d.split(",")[0] != pre + g.split(",")[0]:
                n += 1
    return n


# ----------------------------------------------------------------------------
# notations
# ----------------------------------------------------------------------------
MODS_BR = ["[+15.995]", "[UNIMOD:35]", "[+79.]", "[Oxidation (M]", "[-17.03]", "[]", "[+1.0.2]", "[a.b[c]"]
MODS_PA = ["(ox)", "(+57.02)", "(Carbamidomethyl [C)", "()", "(ph.)"]
MODS_MIX = ["[ph)", "(ox]", "[+1.5)", "(U:4]"]
FLANKS = [("K", "A"), ("-", "-"), ("R", "G"), ("K", "-"), ("", ""), ("MK", "AA"), ("_", "*")]
STYLES = ["plain", "flank", "bracket", "paren", "mixed", "lowmark", "full", "lower_all", "lower_all_flank", "sparse"]


# third pass: annotations that themselves hold brackets (MaxQuant / UniMod names), and the ProForma terminal
# notation `[mod]-SEQ-[mod]`.  Well-formed = a square annotation holds square brackets only as complete inner groups
# (round ones are plain text inside it) and vice versa; one level.  Ground truth as before: the residue sequence.
NESTED_STYLES = ["nested", "maxquant", "proforma"]
MODS_NEST_SQ = ["[Oxidation (M)]", "[Phospho (STY)]", "[Label:13C(6)15N(2)]", "[Acetyl (Protein N-term)]", "[a[b]c]",
                "[[+1.5]]", "[x (y]", "[Cation:Fe[III]]", "[)(]", "[+15.995]"]
MODS_NEST_RD = ["(Oxidation (M))", "(Phospho (STY))", "(Acetyl (Protein N-term))", "(Gln->pyro-Glu)", "((ox))",
                "(a [b (c))", "(ph (S).)", "(ox)"]
NTERM_MODS = ["[Acetyl]", "[+42.011]", "[Acetyl (N-term)]", "(Acetyl (Protein N-term))", "[iTRAQ4plex][+1]"]
CTERM_MODS = ["[Amidated]", "[-0.984]", "(Amidated (C-term))"]
NESTED_SIG = "spec:modification annotation holding a bracket / terminal separator not ignored"


def render_nested(rng, seq: str, style: str) -> str:
    mods = MODS_NEST_RD if style == "maxquant" else MODS_NEST_SQ + MODS_NEST_RD
    rate = 0.15 if style == "proforma" else 0.3
    out = []
    if style == "maxquant" and rng.random() < 0.3:
        out.append("(Acetyl (Protein N-term))")
    for ch in seq:
        out.append(ch)
        if rng.random() < rate:
            out.append(rng.choice(mods))
        if style == "nested" and rng.random() < 0.1:
            out.append(rng.choice("nmcoxp"))
    body = "".join(out)
    if style == "proforma":
        if rng.random() < 0.7:
            body = rng.choice(NTERM_MODS) + "-" + body
        if rng.random() < 0.3:
            body = body + "-" + rng.choice(CTERM_MODS)
    if rng.random() < 0.4:
        l, r = rng.choice(FLANKS)
        return f"{l}.{body}.{r}"
    return body


def strip_fixed(ser):
    """the repair proposed in FINDING-C15.md, written with the same pandas primitives as strip_peptides (the model
    `stripColN` is compared with it: ties the model of the new expressions to the regex engines pandas uses)"""
    mod = r"\[(?:[^\[\]]|\[[^\[\]]*\])*\]|\((?:[^()]|\([^()]*\))*\)"
    ser = (ser.str.replace(mod, "", regex=True).str.replace(r"^.*?\.", "", regex=True)
           .str.replace(r"\..*?$", "", regex=True).str.replace(r"^-|-$", "", regex=True))
    if all(ser.str.islower()):
        return ser.str.upper()
    return ser.str.replace(r"[a-z]", "", regex=True)


def real_strip(peps, pdtype):
    from mokapot.picked_protein import strip_peptides

    return [str(x) for x in strip_peptides(pd.Series(list(peps), dtype=(object if pdtype == "object" else "str"))).tolist()]


def render(rng, seq: str, style: str) -> str:
    """one well-formed notation of the residue sequence `seq` (ground truth: stripping must give `seq`)"""
    if style in NESTED_STYLES:
        return render_nested(rng, seq, style)
    if style == "sparse":  # a mostly plain table with the occasional annotated peptide
        style = "plain" if rng.random() < 0.9 else rng.choice(["flank", "bracket", "paren", "mixed", "lowmark", "full"])
    lower_all = style.startswith("lower_all")
    mods = []
    if style in ("bracket", "full"):
        mods += MODS_BR
    if style in ("paren", "full"):
        mods += MODS_PA
    if style in ("mixed", "full"):
        mods += MODS_MIX + MODS_BR[:2]
    if lower_all and rng.random() < 0.5:
        mods += ["[+15.995]", "(ox)", "[U:35]"]
    marks = "nmcoxp" if style in ("lowmark", "full") else ""
    out = []
    if mods and rng.random() < 0.3:
        out.append(rng.choice(mods))
    if marks and rng.random() < 0.3:
        out.append(rng.choice("nc"))
    for ch in seq:
        out.append(ch.lower() if lower_all else ch)
        if mods and rng.random() < 0.3:
            out.append(rng.choice(mods))
        if marks and rng.random() < 0.2:
            out.append(rng.choice(marks))
    body = "".join(out)
    if style in ("flank", "full", "lower_all_flank") or (style in ("bracket", "paren", "mixed", "lowmark") and rng.random() < 0.5):
        l, r = rng.choice(FLANKS)
        if lower_all:
            l, r = l.lower(), r.lower()
        return f"{l}.{body}.{r}"
    return body


EXOTIC = ["A[BC", "A[B[C]D]E", "n[1.2]ABC(x]D", "..A.B", "A]B[C)D", "", "[]", "A[]B", "x.y.z", "abc", "K.PEP.TIDE.A",
          "PEP.TIDE", ".PEPK", "PEPK.", "(", ")", "[.]", "A(Phospho (STY))BK", "a.b", "A.b.C", "pepK", "PEPk", "1.2",
          "[A].[B].[C]", "A.[x.y]BC.D", "-.ABC", "AB[", "AB]", "A(B", "é"]


# ----------------------------------------------------------------------------
# peptide tables
# ----------------------------------------------------------------------------
def anagram_decoys(rng, seq):
    body = list(seq[:-1])
    rng.shuffle(body)
    return "".join(body) + seq[-1]


def gen_table(rng, db, P, big=False, e2e=False, tiefree=False):
    pm = P["peptide_map"]
    pre = P["prefix"]
    uniq_t = [p for p, g in pm.items() if not g.startswith(pre)]
    uniq_d = [p for p, g in pm.items() if g.startswith(pre)]
    shared = list(P["shared"])
    kinds = []
    if uniq_t:
        kinds += ["ut"] * 6
    if uniq_d:
        kinds += ["ud"] * 5
    if shared:
        kinds += ["sh"] * 2
    if not P["has_decoys"] and uniq_t:
        kinds += ["ana"] * 5 + ["revsh"] * (1 if shared else 0) + ["junkd"]
    junk_rate = rng.choice([0, 0, 0, 0.03, 0.08, 0.15, 0.4])
    n = rng.choice([12, 16, 20, 30, 40] if (db or {}).get("wide") else [1, 2, 3, 4, 5, 6, 8, 10, 12, 16, 20, 30] + ([40, 60, 100] if big else []))
    flip = rng.choice([0, 0, 0, 0.05, 0.2])
    style = rng.choice(STYLES + (["sparse"] * 3 if n >= 10 else []))
    if not e2e and rng.random() < 0.08:
        style = rng.choice(NESTED_STYLES)
    # table shapes: random mixtures, the empty table, and tables placed on the thresholds of the two digest rules
    # (exactly a tenth / a tenth plus one row unmappable; exactly a twentieth / one more of the decoy rows)
    shape = "random"
    if not e2e and not (db or {}).get("wide"):
        shape = rng.choice(["random"] * 40 + ["empty"] + (["tenth"] * 3 if uniq_t else []) +
                           (["twentieth"] * 2 if (P["has_decoys"] and uniq_d) else []))
    rows = []
    if shape == "empty":
        n = 0
    elif shape == "tenth":
        n = rng.choice([10, 20, 30])
        k = n // 10 + rng.choice([0, 0, 1])
        jk = rng.choice(["junkt", "junkd"]) if P["has_decoys"] else "junkt"
        plan = [jk] * k + [rng.choice(["ut"] * 3 + (["ud"] * 3 if uniq_d else []) + (["sh"] if shared else [])) for _ in range(n - k)]
        rng.shuffle(plan)
    elif shape == "twentieth":
        d = rng.choice([20, 20, 40] if big else [20])
        u = d // 20 + rng.choice([0, 0, 1])
        plan = ["ud"] * d + ["junkt"] * u + ["ut"] * (rng.randint(0, 4) if uniq_t else 0)
        rng.shuffle(plan)
        n = len(plan)
    for i in range(n):
        if shape in ("tenth", "twentieth"):
            k = plan[i]
        elif not kinds or rng.random() < junk_rate:
            k = rng.choice(["junkt", "junkd"])
        else:
            k = rng.choice(kinds)
        if k == "ut":
            seq, tgt = rng.choice(uniq_t), True
        elif k == "ud":
            seq, tgt = rng.choice(uniq_d), False
        elif k == "sh":
            seq = rng.choice(shared)
            tgt = rng.random() < 0.7
        elif k == "ana":
            seq, tgt = rng.choice([rev_pep, lambda s: anagram_decoys(rng, s)])(rng.choice(uniq_t)), False
        elif k == "revsh":
            seq, tgt = rev_pep(rng.choice(shared)), False
        else:
            seq = "".join(rng.choice("WY") for _ in range(rng.randint(2, 4))) + "K"
            tgt = k == "junkt"
        if shape == "random" and rng.random() < flip:
            tgt = not tgt
        rows.append(dict(target=tgt, seq=seq, kind=k))
    # one notation per table; different renderings of the same sequence are different rows
    for r in rows:
        r["peptide"] = render(rng, r["seq"], style)
    # options of the assign_confidence entry point (input format, decoy files, score orientation); a run without the
    # decoy files hides the decoy rows, so its expected peptide level is only computable when no two scores tie
    opts = None
    if e2e:
        opts = dict(fmt=rng.choice(["pin", "pin", "parquet"]), decoys=rng.random() < 0.7, desc=rng.random() < 0.7,
                    groups=rng.choice([0, 0, 2, 3]),
                    # CONFIDENCE_CHUNK_SIZE: default (one piece) or a few rows (1 only on short tables: every piece of
                    # the PSM table becomes a temporary file of its own)
                    chunk=rng.choice([None, None, None, 1 if n <= 10 else 3, 2 if n <= 20 else 7, 3, 5]))
    if e2e:
        # (tied scores also leave the row order of the peptide level, hence the draw of match_decoy, to the code:
        #  only with decoys in the FASTA)
        smode = rng.choice(["tiefree", "tiefree", "ties"]) if (opts["decoys"] and P["has_decoys"]) else "tiefree"
    else:
        smode = rng.choice(["tiefree", "tiefree", "ties", "ties", "allequal"])
    if tiefree:
        smode = "tiefree"
    denom = rng.choice([1, 1, 2, 4])
    if smode == "tiefree":
        vals = rng.sample(range(-3 * n - 5, 4 * n + 5), n)
    elif smode == "ties":
        pool = rng.sample(range(-20, 40), max(1, min(n // 2, rng.randint(1, 4))))
        vals = [rng.choice(pool) for _ in range(n)]
    else:
        vals = [rng.randint(-5, 5)] * n
    # magnitude: small integers / quarters, or values that need 25 significant bits (65536 <= |x| < 2^18 with an odd
    # number of 256ths: exact in float64 and in the text round trip with 14 digits, NOT representable in float32) —
    # the ties of `vals` are kept (the order is kept or reversed)
    smag = rng.choice(["small", "small", "small", "wide25"])
    wsign = rng.choice([1, -1])
    for r, v in zip(rows, vals):
        if smag == "wide25":
            r["score"] = str(Fraction(((v + 70000) * 256 + 129) * wsign, 256))
        else:
            r["score"] = str(Fraction(v, denom))
    if smag == "wide25":
        denom = 256
    return dict(P=P, rows=rows, style=style, smode=smode, seed=rng.choice([0, 0, 1, 2, 7, 42, 12345]),
                rng_kind=rng.choice(["int", "int", "generator"]), opts=opts,
                index=rng.choice(["range", "range", "range", "perm", "perm", "offset", "offset", "dup"]), sdtype=rng.choice(["float64", "float64", "int64", "float32"]) if denom == 1 else "float64",
                pdtype=rng.choice(["str", "str", "object"]), shape=shape, smag=smag,
                cols=rng.choice([("Label", "peptide", "score"), ("is_target", "Peptide", "mokapot score"), ("t", "seq", "s")]),
                entry="e2e" if e2e else "direct", dbmode=db.get("mode") if db else None)


# ----------------------------------------------------------------------------
# implementation adapters
# ----------------------------------------------------------------------------
def case_df(case):
    rows = case["rows"]
    tcol, pcol, scol = case["cols"]
    sc = np.array([float(Fraction(r["score"])) for r in rows], dtype=case["sdtype"])
    df = pd.DataFrame({"extra": np.arange(len(rows)), tcol: np.array([r["target"] for r in rows], dtype=bool),
                       pcol: pd.Series([r["peptide"] for r in rows], dtype=(object if case["pdtype"] == "object" else "str")),
                       scol: sc})
    if case["index"] == "perm":
        df.index = np.random.RandomState(len(rows)).permutation(len(rows))
    elif case["index"] == "dup":
        # row labels that repeat (what pd.concat of several peptide tables without ignore_index leaves)
        df.index = np.arange(len(rows)) % max(1, (len(rows) + 1) // 2)
    elif case["index"] == "offset":
        df.index = np.arange(len(rows)) * 3 + 100
    return df


def classify_exc(e: Exception) -> str:
    msg = str(e)
    if isinstance(e, ValueError) and "Fewer than 90%" in msg:
        return "reject-unmapped"
    if isinstance(e, ValueError) and "Fewer than 5%" in msg:
        return "reject-decoys"
    if isinstance(e, KeyError) and msg.strip("'\"") == "0":
        return "reject-empty"
    if isinstance(e, KeyError):
        return "reject-keyerror"
    return "other:" + type(e).__name__ + ":" + msg[:80]


def entries_of_frame(res, tcol, scol):
    out = []
    for rec in res.to_dict("records"):
        g = rec["mokapot protein group"]
        g = None if (g is None or (isinstance(g, float) and g != g) or g is pd.NA) else str(g)
        out.append((g, str(rec["best peptide"]), str(rec["stripped sequence"]),
                    Fraction(float(rec[scol])), bool(rec[tcol])))
    return out


_PERMS = {}


def rng_arg(case):
    """what is passed as `rng`: the integer seed, or a fresh numpy Generator seeded with it"""
    return np.random.default_rng(case["seed"]) if case.get("rng_kind") == "generator" else case["seed"]


def shuffle_perm(n, case):
    """the arrangement `Series.sample(frac=1, random_state=rng)` draws for n items: obtained from the pandas
    primitive itself on 0..n-1 (independent of any mokapot code); perm[i] = original position of the i-th item"""
    if n == 0:
        return []
    key = (n, case["seed"], case.get("rng_kind", "int"))
    if key not in _PERMS:
        _PERMS[key] = [int(x) for x in pd.Series(np.arange(n)).sample(frac=1, random_state=rng_arg(case)).to_numpy()]
    return _PERMS[key]


@contextlib.contextmanager
def record_pairing(log):
    """observe the pairing the code really uses: the call of match_decoy made by group_without_decoys is wrapped
    (module attribute, no source change) and its arguments and result are appended to `log`"""
    import mokapot.picked_protein as pp

    real = pp.match_decoy

    def wrapped(decoys, targets, *a, **k):
        d_in, t_in = [str(x) for x in decoys.to_list()], [str(x) for x in targets.to_list()]
        out = real(decoys, targets, *a, **k)
        log.append(dict(decoys=d_in, targets=t_in, result=[[str(k_), str(v_)] for k_, v_ in dict(out).items()]))
        return out

    pp.match_decoy = wrapped
    try:
        yield
    finally:
        pp.match_decoy = real


def impl_direct(case):
    from mokapot.picked_protein import picked_protein

    df = case_df(case)
    tcol, pcol, scol = case["cols"]
    P = mk_proteins(case["P"])
    if case.get("warm"):
        # the same Proteins object analysed another table first (what several datasets in one
        # assign_confidence call, or the CLI with several PIN files, do): no effect on this table allowed
        w = case["warm"]
        try:
            with quiet():
                picked_protein(case_df(w), *w["cols"], P, w["seed"])
        except Exception:  # noqa: BLE001
            pass
    case["_rec"] = []
    try:
        with quiet(), record_pairing(case["_rec"]):
            res = picked_protein(df, tcol, pcol, scol, P, rng_arg(case))
    except Exception as e:  # noqa: BLE001
        return classify_exc(e), None
    return "ok", entries_of_frame(res, tcol, scol)


@contextlib.contextmanager
def pep_stub():
    """C15 is not about the PEP numerics (C06 is): on the tiny tables used here triqler's spline and the NNLS
    estimators are degenerate, so the PEP kernel called by confidence.py is replaced by zeros."""
    import importlib

    m = importlib.import_module("mokapot.confidence")
    old = m.peps_from_scores
    m.peps_from_scores = lambda scores, targets, alg="qvality": np.zeros(len(scores))
    try:
        yield
    finally:
        m.peps_from_scores = old


def read_tsv(path):
    if not Path(path).exists():
        return None
    return pd.read_csv(path, sep="\t", float_precision="round_trip", keep_default_na=False, dtype=str)


E2E_DEFAULT = dict(fmt="pin", decoys=True, desc=True, groups=0, chunk=None)


@contextlib.contextmanager
def confidence_chunk(c):
    """CONFIDENCE_CHUNK_SIZE as seen by confidence.py (level files and result files are then written and read in
    pieces of `c` rows); None leaves the default (one piece)"""
    import importlib

    m = importlib.import_module("mokapot.confidence")
    old = m.CONFIDENCE_CHUNK_SIZE
    if c:
        m.CONFIDENCE_CHUNK_SIZE = int(c)
    try:
        yield
    finally:
        m.CONFIDENCE_CHUNK_SIZE = old


def e2e_opts(case):
    return dict(E2E_DEFAULT, **(case.get("opts") or {}))


def impl_e2e(case):
    """assign_confidence(proteins=...) on a PIN (text or Parquet) file with one PSM per row, with decoys=True/False
    and descs=[True]/[False]; returns the observed peptide-level table (the input of picked_protein; complete only
    when the decoy files are written) and the rows of targets.proteins / decoys.proteins in file order"""
    import mokapot

    rows = case["rows"]
    opts = e2e_opts(case)
    d = Path(tempfile.mkdtemp(prefix="e2e-", dir=tmpdir()))

    def run(rows, name, proteins, seed, opts):
        sc = np.array([float(Fraction(r["score"])) for r in rows], dtype=float)
        df = pd.DataFrame({
            "SpecId": [f"psm{i}" for i in range(len(rows))],
            "Label": [1 if r["target"] else -1 for r in rows],
            "ScanNr": np.arange(len(rows)) + 1,
            "ExpMass": np.arange(len(rows)) + 500,
            "feat0": sc,
            "feat1": np.arange(len(rows)) % 3,
            "Peptide": [r["peptide"] for r in rows],
            "Proteins": ["prot"] * len(rows),
        })
        if opts.get("groups"):
            # one more roll-up level, coarser than peptides (a group mixes peptides of different proteins): the protein
            # level must still be picked from the PEPTIDE level, not from the last roll-up level
            ng = int(opts["groups"])
            df.insert(len(df.columns) - 1, "PeptideGroup", [f"G{(7 * i + 3) % ng}" for i in range(len(rows))])
        if opts["fmt"] == "parquet":
            pin = d / (name + ".parquet")
            df.to_parquet(pin, index=False)
        else:
            pin = d / (name + ".pin")
            df.to_csv(pin, sep="\t", index=False)
        out = d / name
        out.mkdir()
        with quiet(), pep_stub(), confidence_chunk(opts.get("chunk")):
            ds = mokapot.read_pin(pin, max_workers=1)[0]
            mokapot.assign_confidence([ds], max_workers=1, scores=[sc], descs=[opts["desc"]], dest_dir=out,
                                      proteins=proteins, prefixes=[None], decoys=opts["decoys"], rng=seed)
        return out

    try:
        proteins = mk_proteins(case["P"])
        if case.get("warm"):
            try:
                run(case["warm"]["rows"], "warm", proteins, case["warm"]["seed"], E2E_DEFAULT)
            except Exception:  # noqa: BLE001
                pass
        case["_rec"] = []
        try:
            with record_pairing(case["_rec"]):
                out = run(rows, "out", proteins, rng_arg(case), opts)
        except Exception as e:  # noqa: BLE001
            return classify_exc(e), None, None
        wanted = [("targets", True)] + ([("decoys", False)] if opts["decoys"] else [])
        if not opts["decoys"] and any((out / ("decoys." + lv)).exists() for lv in ("psms", "peptides", "proteins")):
            return "other:decoy-file-written-with-decoys-False", None, None
        pep_rows = []
        for fn, tgt in wanted:
            t = read_tsv(out / (fn + ".peptides"))
            if t is None:
                return "other:missing-" + fn + ".peptides", None, None
            for rec in t.to_dict("records"):
                pep_rows.append(dict(target=tgt, peptide=rec["peptide"], score=str(Fraction(float(rec["score"])))))
        pep_rows.sort(key=lambda r: -Fraction(r["score"]))
        ents = []
        for fn, tgt in wanted:
            t = read_tsv(out / (fn + ".proteins"))
            if t is None:
                return "other:missing-" + fn + ".proteins", None, None
            for rec in t.to_dict("records"):
                g = rec["mokapot protein group"]
                ents.append(((g if g != "" else None), rec["best peptide"], rec["stripped sequence"],
                             Fraction(float(rec["score"])), tgt, float(rec["q-value"])))
        return "ok", pep_rows, ents
    finally:
        shutil.rmtree(d, ignore_errors=True)


def replicate_pairing(case, stripped):
    """the RNG draw of `match_decoy` (target-only FASTA): the same public function, the same seed, the same
    arguments as picked_protein.group_without_decoys builds them"""
    from mokapot.peptides import match_decoy

    P = case["P"]
    if P["has_decoys"]:
        return {}
    t = np.array([r["target"] for r in case["rows"]], dtype=bool)
    col = pd.Series(list(stripped), dtype="str")
    decoys = pd.Series(col[~t].unique())
    if len(decoys) == 0:
        decoys = pd.Series([], dtype="str")
    with quiet():
        # (sorted keys: /repo fix D25 — the pairing must not depend on the hash-ordered key order of the map)
        return dict(match_decoy(decoys, pd.Series(sorted(P["peptide_map"].keys())), rng=rng_arg(case)))


# ----------------------------------------------------------------------------
# the spec, re-stated directly (independent of the Lean model and of any stripping)
# ----------------------------------------------------------------------------
def first_by_comma(P, g):
    """the first member as picked_protein read it back before /repo commit bfdfdaf: the text up to the first comma
    (used only to label a violation that is exactly that repaired defect coming back)"""
    return g.split(",")[0]


COMMA_SIG = "spec:protein names containing a comma"


def comma_sig(P, rows, dm, ents, sig):
    """a violation on a database whose identifiers hold commas that disappears when the pairs are formed by the text
    up to the first comma (instead of the first member's name) is the defect repaired by /repo commit bfdfdaf; it gets
    a signature of its own (it is NOT a known finding: it is reported like any other violation)"""
    if any("," in n for n in known_names(P)) and py_spec(P, rows, dm, ents, first=first_by_comma) is None:
        return COMMA_SIG
    return sig


def py_candidates(P, rows, dm, first=None):
    """rows: dicts with ground-truth `seq`; returns {pair key: [(row index, group)]}"""
    first_fn = first or first_of
    pm, prm, pre = P["peptide_map"], P["protein_map"], P["prefix"]
    cands = {}
    for i, r in enumerate(rows):
        s = r["seq"]
        g = pm.get(s)
        if g is None and not P["has_decoys"] and s in dm and dm[s] in pm:
            g = ", ".join(pre + m for m in pm[dm[s]].split(", "))
        if g is None:
            continue
        first = first_fn(P, g)
        cands.setdefault(prm.get(first, first), []).append((i, g))
    return cands


def py_outcome(P, rows, dm):
    """the 10 % / 5 % rules and the empty result, re-stated on the ground-truth residue sequences"""
    pm, pre, shared = P["peptide_map"], P["prefix"], set(P["shared"])
    k = u = 0
    d = sum(1 for r in rows if not r["target"])
    have = False
    for r in rows:
        s = r["seq"]
        g = pm.get(s)
        if g is None and not P["has_decoys"] and s in dm and dm[s] in pm:
            g = "x"
        have = have or g is not None
        bad = g is None and (P["has_decoys"] or r["target"]) and s not in shared
        k += bad
        u += bad and r["target"]
    if 10 * k > len(rows):
        return "reject-unmapped"
    if P["has_decoys"] and ((d == 0 and u > 0) or (d > 0 and 20 * u > d)):
        return "reject-decoys"
    if not have:
        return "reject-empty"
    return "ok"


def rule_margins(P, rows, dm):
    """where the table stands relative to the thresholds of the two digest rules (histogram only)"""
    pm, shared = P["peptide_map"], set(P["shared"])
    k = u = 0
    d = sum(1 for r in rows if not r["target"])
    for r in rows:
        s_ = r.get("seq")
        g = pm.get(s_)
        if g is None and not P["has_decoys"] and s_ in dm and dm[s_] in pm:
            g = "x"
        bad = g is None and (P["has_decoys"] or r["target"]) and s_ not in shared
        k += bad
        u += bad and r["target"]
    out = {}
    if rows and k:
        out["unmapped_vs_tenth"] = "below" if 10 * k < len(rows) else "exactly" if 10 * k == len(rows) else "above"
    if P["has_decoys"] and u and d:
        out["bad_targets_vs_twentieth_of_decoys"] = "below" if 20 * u < d else "exactly" if 20 * u == d else "above"
    return out


def py_spec(P, rows, dm, entries, first=None):
    """None if `entries` (g, peptide, stripped, score, target) meets the property, else the violated clause"""
    first_fn = first or first_of
    cands = py_candidates(P, rows, dm, first=first_fn)
    pm, prm = P["peptide_map"], P["protein_map"]
    seen = {}
    for e in entries:
        g, pep, st, sc, tg = e[:5]
        if g is None:
            return "entry without a protein group"
        first = first_fn(P, g)
        key = prm.get(first, first)
        if key in seen:
            return "two entries for one target/decoy pair"
        seen[key] = e
        if key not in cands:
            return "entry for a pair without a retained unique peptide"
        best = max(Fraction(rows[i]["score"]) for i, _ in cands[key])
        ok = False
        for i, gi in cands[key]:
            r = rows[i]
            if gi == g and r["peptide"] == pep and r["seq"] == st and Fraction(r["score"]) == sc and r["target"] == tg:
                ok = True
                if sc != best:
                    return "entry is not the best-scoring unique peptide of its pair"
        if not ok:
            if any(rows[i]["peptide"] == pep for i, _ in cands[key]) and not any(
                    rows[i]["peptide"] == pep and rows[i]["seq"] == st for i, _ in cands[key]):
                return "stripped sequence is not the residue sequence of the reported peptide"
            return "entry is not a retained row of its pair (group/peptide/stripped/score/target)"
        # (a shared peptide is not a key of the peptide map, so it is never among `cands`: an entry reporting one
        #  fails the membership test above — except the coincidence, excluded by the theorem's hypothesis too, of a
        #  decoy sequence of a target-only run that equals a shared target peptide and was paired by match_decoy)
    for key in cands:
        if key not in seen:
            return "a pair with a retained unique peptide has no entry"
    return None


def py_pairing_spec(P, rows, dm):
    """target-only FASTA — the documented contract of the pairing, re-stated on the generator's ground truth
    (independent of the Lean model and of the draw): every decoy sequence of the table is paired with "a unique
    target peptide that has the same amino acid composition", and stays unpaired only when none is left.
    `dm`: {decoy sequence: target peptide}.  None if met, else the violated clause."""
    keys = list(P["peptide_map"].keys())
    decs = list(dict.fromkeys(r["seq"] for r in rows if not r["target"]))
    for d, t in dm.items():
        if d not in decs:
            return "pairing: a sequence that is not a decoy sequence of the table was paired"
        if t not in keys:
            return "pairing: partner is not a unique target peptide of the FASTA"
        if sorted(d) != sorted(t):
            return "pairing: decoy peptide paired with a target peptide of a different composition"
    if len(set(dm.values())) != len(dm):
        return "pairing: one target peptide given to two decoy sequences"
    used = set(dm.values())
    for d in decs:
        if d not in dm and any(sorted(t) == sorted(d) and t not in used for t in keys):
            return "pairing: decoy sequence left unpaired although a target peptide of its composition is unused"
    return None


def top_tie_keys(P, rows, dm, first=None):
    """pair keys whose best score is reached by two different candidate rows (result under-determined)"""
    out = set()
    for key, lst in py_candidates(P, rows, dm, first=first).items():
        best = max(Fraction(rows[i]["score"]) for i, _ in lst)
        tops = {(g, rows[i]["peptide"], rows[i]["target"]) for i, g in lst if Fraction(rows[i]["score"]) == best}
        if len(tops) > 1:
            out.add(key)
    return out


def tie_free_entry(P, rows, dm):
    """predicate on group names: the entry of this group is determined (its pair has a single best candidate row)"""
    t1 = top_tie_keys(P, rows, dm)

    def keep(g):
        return key_of(P, g) not in t1

    return keep, bool(t1)


def rounded(q: Fraction) -> float:
    out = np.ones(1, dtype=np.float32)
    np.divide(np.array([q.numerator]), np.array([q.denominator]), out=out)
    return float(out[0])


# ----------------------------------------------------------------------------
# wire helpers
# ----------------------------------------------------------------------------
def wire_P(P):
    return [P["has_decoys"], P["prefix"], [[k, v] for k, v in P["peptide_map"].items()], list(P["shared"]),
            [[k, v] for k, v in P["protein_map"].items()]]


def wire_rows(rows):
    return [[bool(r["target"]), r["peptide"], Fraction(r["score"])] for r in rows]


def wire_entries(entries):
    return [[e[0], e[1], e[2], e[3], bool(e[4])] for e in entries]


def parse_entries(v):
    if isinstance(v, str):
        return v
    return [(a_str(e[0]), a_str(e[1]), a_str(e[2]), a_rat(e[3]), a_bool(e[4])) for e in v]


def ascii_ok(case):
    P = case["P"]
    strs = [P["prefix"], *P["peptide_map"].keys(), *P["peptide_map"].values(), *P["shared"],
            *P["protein_map"].keys(), *P["protein_map"].values(), *[r["peptide"] for r in case["rows"]]]
    return all(s.isascii() and "\n" not in s and "\r" not in s for s in strs)


def key_of(P, g):
    first = first_of(P, g)
    return P["protein_map"].get(first, first)


def jsonable(case):
    return json.loads(json.dumps(case, default=str))


# ----------------------------------------------------------------------------
# evaluation
# ----------------------------------------------------------------------------
def nontrivial_key(case, stripped):
    P = case["P"]
    rows = case["rows"]
    multi = any(len(v) >= 2 for v in py_candidates(P, rows, case.get("dm", {})).values())
    odd = any(r.get("kind") in ("sh", "revsh", "junkt", "junkd") for r in rows)
    if not (multi or odd):
        return None
    ranks = sorted(set(Fraction(r["score"]) for r in rows))
    return (tuple(sorted(P["peptide_map"].items())), tuple(P["shared"]), P["has_decoys"],
            tuple((s, ranks.index(Fraction(r["score"])), r["target"]) for s, r in zip(stripped, rows)))


def dup_labels_only(c):
    """is the violation on this table (row labels repeated) gone when the same rows carry a range index?  Only then it is
    the repaired defect 'duplicate row labels' coming back; any other defect keeps its own signature."""
    try:
        c2 = {k_: v_ for k_, v_ in c.items() if k_ != "warm"}
        c2["index"] = "range"
        st2, ents2 = impl_direct(c2)
        return st2 == "ok" and all(e[0] is not None for e in ents2) and py_spec(c["P"], c["rows"], c["dm"], ents2) is None
    except Exception:  # noqa: BLE001
        return False


def eval_direct(chk, cases):
    """picked_protein: impl vs model vs spec"""
    cases = [c for c in cases if ascii_ok(c)]
    impl = [impl_direct(c) for c in cases]
    sresp = common.driver_batch([req("strip", [r["peptide"] for r in c["rows"]]) for c in cases])
    lines = []
    for c, (st, ents), sr in zip(cases, impl, sresp):
        v = dec(sr)
        stripped = [a_str(x) for x in v] if isinstance(v, list) else []
        c["_stripped"] = stripped
        c["dm"] = replicate_pairing(c, stripped) if len(stripped) == len(c["rows"]) else {}
        args = [*wire_P(c["P"]), [[k, v] for k, v in c["dm"].items()], wire_rows(c["rows"])]
        lines.append(req("picked", *args))
        if st == "ok" and all(e[0] is not None for e in ents):
            lines.append(req("spec-C15", *args, wire_entries(ents)))
        else:
            lines.append(req("pairkey", [], "x"))  # placeholder keeps the batch aligned
        # the same table with the pairing *computed by the model* of match_decoy from the independently drawn shuffle
        lines.append(req("pickedfull", *wire_P(c["P"]), shuffle_perm(len(c["P"]["peptide_map"]), c), wire_rows(c["rows"])))
    resp = common.driver_batch(lines)
    for k, (c, (st, ents)) in enumerate(zip(cases, impl)):
        P, rows, dm = c["P"], c["rows"], c["dm"]
        model = parse_entries(dec(resp[3 * k]))
        lean_spec = resp[3 * k + 1].strip()
        fv = dec(resp[3 * k + 2])
        dm_model, full_model = None, None
        if isinstance(fv, list) and len(fv) == 2:
            dm_model = {a_str(x[0]): a_str(x[1]) for x in fv[0]}
            full_model = parse_entries(fv[1])
        stripped = c["_stripped"]
        chk.case(None, nontrivial_key(c, stripped),
                 sample=dict(peptide_map=P["peptide_map"], shared=P["shared"], has_decoys=P["has_decoys"],
                             rows=[(r["target"], r["peptide"], r["score"]) for r in rows[:8]],
                             impl=str(ents)[:400] if ents is not None else st, model=str(model)[:400]))
        chk.count("entry", c["entry"])
        chk.count("style", c["style"])
        chk.count("scores", c["smode"])
        chk.count("has_decoys", P["has_decoys"])
        chk.count("proteins_object", "reused-after-another-table" if c.get("warm") else "fresh")
        chk.count("n_rows", len(rows) if len(rows) < 10 else (len(rows) // 10) * 10)
        chk.count("n_groups", min(len(set(P["peptide_map"].values())), 10))
        chk.count("shared_in_db", bool(P["shared"]))
        chk.count("outcome", st if not st.startswith("other") else "other")
        chk.count("rng", c.get("rng_kind", "int"))
        chk.count("row_labels", c["index"])
        chk.count("table_shape", c.get("shape", "random"))
        chk.count("score_magnitude", c.get("smag", "small"))
        chk.count("names_with_comma", any("," in n_ for n_ in known_names(P)))
        # outside the hypothesis of the pairing theorems (no identifier of read_fasta can hold a blank): tallied
        chk.count("names_holding_the_separator", any(", " in n_ for n_ in known_names(P)))
        for k_, v_ in rule_margins(P, rows, dm).items():
            chk.count(k_, v_)
        if c.get("_mm"):
            chk.count("pair_member_order_mismatch_in_db", True)
        cj = dict(case=jsonable({k_: v for k_, v in c.items() if not k_.startswith("_")}))
        if c["style"] in NESTED_STYLES and rows:
            # annotations holding brackets / terminal separators: the clause "modifications ... are ignored when
            # mapping" judged where it is decided — the stripped sequences the real code maps with, against the
            # generator's ground truth.  Everything downstream (unmapped peptides, missing entries, the 10 % rule)
            # follows from it, so such a table is reported once, under one signature.
            real = real_strip([r["peptide"] for r in rows], c["pdtype"])
            truth = [r["seq"] for r in rows]
            chk.count("nested_notation_stripped_by_code", real == truth)
            if real != truth:
                k_ = next(i_ for i_ in range(len(rows)) if real[i_] != truth[i_])
                chk.spec_violation(NESTED_SIG, dict(**cj, impl=real, expected=truth, first_row=[rows[k_]["peptide"], real[k_], truth[k_]],
                                                    picked_protein=st if st != "ok" else [str(e) for e in ents],
                                                    clause="modifications and flanking residues are ignored when mapping peptides "
                                                           "to proteins: the stripped sequence is not the residue sequence"))
                continue
        # target-only FASTA: the pairing drawn by the real match_decoy (replicated call) against its contract and
        # against the model's pairing computed from the independently drawn shuffle
        if not P["has_decoys"] and len(stripped) == len(rows) and all(s_ == r.get("seq") for s_, r in zip(stripped, rows)):
            ndec = len(set(r["seq"] for r in rows if not r["target"]))
            chk.count("pairing_decoy_seqs", min(ndec, 8))
            chk.count("pairing_paired", min(len(dm), 8))
            rec = c.get("_rec") or []
            used = dict(map(tuple, rec[0]["result"])) if len(rec) == 1 else None   # the pairing the code really used
            pclause = py_pairing_spec(P, rows, dm) or (py_pairing_spec(P, rows, used) if used is not None else None)
            if pclause is None and len(rec) > 1:
                pclause = "pairing: drawn more than once for one table"
            if pclause:
                chk.spec_violation("spec:" + pclause, dict(**cj, impl=[list(x) for x in (used if used is not None else dm).items()],
                                                           expected=[list(x) for x in (dm_model or {}).items()], clause=pclause))
                continue
            if dm_model is None or list(dm_model.items()) != list(dm.items()):
                chk.corr_break("matchdecoy", dict(**cj, impl=[list(x) for x in dm.items()],
                                                  model=None if dm_model is None else [list(x) for x in dm_model.items()]))
                continue
            if used is not None and (list(used.items()) != list(dm_model.items())
                                     or rec[0]["targets"] != sorted(P["peptide_map"].keys())
                                     or rec[0]["decoys"] != list(dict.fromkeys(s_ for s_, r in zip(stripped, rows) if not r["target"]))):
                # a valid pairing, but not the one the model of group_without_decoys computes from the same draw
                # (other arguments handed to match_decoy: unsorted keys, repeated decoy sequences, ...)
                chk.corr_break("pairing-args", dict(**cj, impl=rec[0], model=[list(x) for x in dm_model.items()]))
                continue
        if full_model is None or (isinstance(full_model, str) != isinstance(model, str)) or \
                (isinstance(model, str) and full_model != model) or \
                (not isinstance(model, str) and sorted(full_model) != sorted(model)):
            # with equal pairings the two model entry points must agree (picked with the given pairing, pickedFull
            # with the computed one)
            chk.corr_break("pickedfull", dict(**cj, model_given_pairing=str(model)[:600], model_computed_pairing=str(full_model)[:600]))
            continue
        # ground truth of the notation: the model's stripping must be the residue sequence (wf notations)
        if c["style"] in STYLES + NESTED_STYLES and len(stripped) == len(rows) and any(s != r["seq"] for s, r in zip(stripped, rows)):
            chk.corr_break("strip-groundtruth", dict(**cj, model_stripped=stripped))
        if st.startswith("other"):
            chk.spec_violation("unexpected-exception:" + st.split(":")[1], dict(**cj, error=st, clause="picked_protein raised an unexpected exception"))
            continue
        if st != "ok":
            chk.reject(st)
            if py_outcome(P, rows, dm) == "ok":
                clause = "picked_protein raised (" + st + ") although every rule on mapped/shared peptides is met"
                chk.spec_violation("spec:raised-although-mappable", dict(**cj, impl=st, expected=str(model)[:600], clause=clause))
            elif not (isinstance(model, str) and model == st):
                chk.corr_break("picked-raises", dict(**cj, impl=st, model=str(model)))
            continue
        if isinstance(model, str):
            # the implementation returned entries where the model predicts an exception
            clause = py_spec(P, rows, dm, ents)
            if clause:
                chk.spec_violation(comma_sig(P, rows, dm, ents, "spec:" + clause), dict(**cj, impl=[str(e) for e in ents], clause=clause))
            else:
                chk.corr_break("picked-raises", dict(**cj, impl="ok", model=model))
            continue
        clause = py_spec(P, rows, dm, ents)
        if clause is None and lean_spec != "ok":
            clause = "lean spec-C15: " + lean_spec
        if clause is None and not P["has_decoys"]:
            clause = mirrored_clause(P, ents)
        if clause:
            sig = "spec:" + clause.split(":")[0]
            if comma_sig(P, rows, dm, ents, sig) == COMMA_SIG:
                sig = COMMA_SIG
                clause = "protein identifiers holding a comma (pairs formed by the text up to the first comma): " + clause
            elif c["index"] == "dup" and dup_labels_only(c):
                sig = "spec:duplicate row labels"
                clause = "table with repeated row labels: " + clause
            chk.spec_violation(sig, dict(**cj, impl=[str(e) for e in ents], expected=[str(e) for e in model], clause=clause))
            continue
        keep, ties = tie_free_entry(P, rows, dm)
        if ties:
            chk.count("top_tie_case", True)
        a = sorted(e for e in ents if keep(e[0]))
        b = sorted(e for e in model if keep(e[0]))
        if a != b:
            chk.corr_break("picked", dict(**cj, impl=[str(e) for e in ents], model=[str(e) for e in model]))


def mirrored_clause(P, ents):
    """target-only FASTA, relational and independent of the replicated draw: a group that is not in the
    peptide map must be the prefixed group of a unique target peptide with the same residue composition"""
    pm, pre = P["peptide_map"], P["prefix"]
    for g, pep, st, sc, tg in ents:
        if pm.get(st) == g:
            continue
        ok = any(sorted(t) == sorted(st) and ", ".join(pre + m for m in gt.split(", ")) == g for t, gt in pm.items())
        if not ok:
            return "mirrored decoy group does not come from a unique target peptide of the same composition"
    return None


def py_entries(P, rows, dm, first=None):
    """the entries the property demands when no two candidate rows of a pair tie (ground truth, no stripping)"""
    out = []
    for key, lst in py_candidates(P, rows, dm, first=first).items():
        i, g = max(lst, key=lambda ig: Fraction(rows[ig[0]]["score"]))
        r = rows[i]
        out.append((g, r["peptide"], r["seq"], Fraction(r["score"]), bool(r["target"])))
    return out


def expected_peptide_level(rows, desc):
    """the peptide level the protein level is computed from, independently of the code: every row is its own
    spectrum, so each distinct peptide string keeps its best row (higher is better after the orientation);
    scores as reported (negated when lower is better); meaningful when no two rows tie"""
    sign = 1 if desc else -1
    best = {}
    for r in rows:
        o = sign * Fraction(r["score"])
        if r["peptide"] not in best or o > best[r["peptide"]][0]:
            best[r["peptide"]] = (o, r)
    out = [dict(r, score=str(o)) for o, r in best.values()]
    out.sort(key=lambda r: -Fraction(r["score"]))
    return out


def eval_e2e(chk, cases):
    cases = [c for c in cases if ascii_ok(c)]
    for c in cases:
        P = c["P"]
        opts = e2e_opts(c)
        sign = 1 if opts["desc"] else -1
        tiefree = c["smode"] == "tiefree"
        st, pep_rows, ents = impl_e2e(c)
        cj = dict(case=jsonable({k_: v for k_, v in c.items() if not k_.startswith("_")}))
        chk.count("entry", "e2e")
        chk.count("style", c["style"])
        chk.count("has_decoys", P["has_decoys"])
        chk.count("proteins_object", "reused-after-another-table" if c.get("warm") else "fresh")
        chk.count("outcome", st if not st.startswith("other") else "other")
        chk.count("e2e_format", opts["fmt"])
        chk.count("e2e_extra_rollup_level", "PeptideGroup" if opts.get("groups") else "none")
        chk.count("e2e_chunk_size", opts.get("chunk") or "default")
        chk.count("e2e_score_magnitude", c.get("smag", "small"))
        chk.count("e2e_decoy_files", opts["decoys"])
        chk.count("e2e_higher_is_better", opts["desc"])
        chk.count("e2e_scores", c["smode"])
        chk.count("e2e_rng", c.get("rng_kind", "int"))
        if st == "ok":
            chk.count("e2e_protein_entries", min(len(ents), 12) if len(ents) < 12 else 12)
            chk.count("e2e_q_below_1", any(e[5] < 1 for e in ents))
        if st.startswith("other"):
            chk.case(None, None)
            chk.spec_violation("unexpected-exception:" + st.split(":")[1], dict(**cj, error=st, clause="assign_confidence(proteins=...) raised an unexpected exception"))
            continue
        seq_of = {r["peptide"]: r["seq"] for r in c["rows"]}
        kind_of = {r["peptide"]: r.get("kind") for r in c["rows"]}
        expected = expected_peptide_level(c["rows"], opts["desc"])
        pep_mismatch = None
        if st == "ok" and opts["decoys"] and not tiefree:
            # tied scores: which of two tied rows of a peptide survives is left to the code; the observed table is used
            trows = [dict(r, seq=seq_of.get(r["peptide"], "?"), kind=kind_of.get(r["peptide"])) for r in pep_rows]
        else:
            # tie-free (or aborted run, where nothing is observable): the independently computed peptide level
            trows = expected
            if st == "ok" and opts["decoys"]:
                obs = sorted((r["target"], r["peptide"], Fraction(r["score"])) for r in pep_rows)
                exp = sorted((bool(r["target"]), r["peptide"], Fraction(r["score"])) for r in expected)
                if obs != exp:
                    # the protein level is judged against the expected peptide level below; if it still meets the
                    # property, the difference is reported as a correspondence break of the peptide level
                    pep_mismatch = dict(**cj, impl=[str(x) for x in obs], model=[str(x) for x in exp])
        tcase = dict(c, rows=trows)
        sresp = common.driver_batch([req("strip", [r["peptide"] for r in trows])])[0]
        v = dec(sresp)
        stripped = [a_str(x) for x in v] if isinstance(v, list) else []
        dm = replicate_pairing(tcase, stripped) if len(stripped) == len(trows) else {}
        tcase["dm"] = dm
        rec = c.get("_rec") or []
        if not P["has_decoys"] and len(rec) == 1 and len(stripped) == len(trows) and (tiefree or st == "ok"):
            # the pairing the run really used against the replica on the (expected or observed) peptide level
            used = dict(map(tuple, rec[0]["result"]))
            if list(used.items()) != list(dm.items()):
                chk.case(None, None)
                pclause = py_pairing_spec(P, trows, used) if all(s_ == r.get("seq") for s_, r in zip(stripped, trows)) else None
                if pclause:
                    chk.spec_violation("spec:" + pclause, dict(**cj, impl=rec[0], expected=[list(x) for x in dm.items()], clause=pclause))
                else:
                    chk.corr_break("pairing-args", dict(**cj, impl=rec[0], model=[list(x) for x in dm.items()]))
                continue
        wdm = [[k, v] for k, v in dm.items()]
        args = [*wire_P(P), wdm, wire_rows(trows)]
        raw_rows = [dict(r, score=str(sign * Fraction(r["score"]))) for r in trows]  # as given to assign_confidence
        full = st == "ok" and opts["decoys"]
        exp_ents = py_entries(P, trows, dm) if (st == "ok" and not opts["decoys"]) else None
        lines = [req("pickedq", *args),
                 req("pickedfiles", *wire_P(P), wdm, wire_rows(raw_rows), opts["decoys"], opts["desc"])]
        if full and all(e[0] is not None for e in ents):
            lines.append(req("spec-C15", *args, wire_entries(ents)))
            lines.append(req("qspec", True, [[e[3], bool(e[4])] for e in ents]))
        elif exp_ents is not None:
            lines.append(req("qspec", True, [[e[3], bool(e[4])] for e in exp_ents]))
        resp = common.driver_batch(lines)
        mv = dec(resp[0])
        fv = dec(resp[1])
        chk.case(None, nontrivial_key(tcase, stripped),
                 sample=dict(entry="assign_confidence", opts=opts, peptide_map=P["peptide_map"], rows=[(r["target"], r["peptide"], r["score"]) for r in trows[:8]],
                             impl=str(ents)[:400] if ents is not None else st))
        if st != "ok":
            chk.reject(st)
            if py_outcome(P, trows, dm) == "ok":
                clause = "assign_confidence raised (" + st + ") although every rule on mapped/shared peptides is met"
                chk.spec_violation("spec:raised-although-mappable", dict(**cj, impl=st, expected=str(mv)[:600], clause=clause))
            elif not (isinstance(mv, str) and mv == st) or not (isinstance(fv, str) and fv == st):
                chk.corr_break("e2e-raises", dict(**cj, impl=st, model=str(mv)[:300], model_files=str(fv)[:300]))
            continue
        if isinstance(mv, str) or isinstance(fv, str):
            clause = py_spec(P, trows, dm, ents) if full else "targets.proteins written although the model predicts " + str(mv)[:40]
            if clause:
                chk.spec_violation(comma_sig(P, trows, dm, [e[:5] for e in ents], "spec:" + clause) if full else "spec:" + clause,
                                   dict(**cj, impl=[str(e) for e in ents], clause=clause))
            else:
                chk.corr_break("e2e-raises", dict(**cj, impl="ok", model=str(mv)[:300], model_files=str(fv)[:300]))
            continue
        model = [(a_str(e[0][0]), a_str(e[0][1]), a_str(e[0][2]), a_rat(e[0][3]), a_bool(e[0][4]), a_rat(e[1])) for e in mv]

        def file_rows(x):
            return [(a_str(e[0][0]), a_str(e[0][1]), a_str(e[0][2]), a_rat(e[0][3]), a_bool(e[0][4]),
                     float(np.float32(rounded(a_rat(e[1]))))) for e in x]

        mfiles = [file_rows(fv[0]), None if fv[1] == "none" else file_rows(fv[1][0])]
        ifiles = [[(e[0], e[1], e[2], e[3], e[4], float(np.float32(e[5]))) for e in ents if e[4]],
                  [(e[0], e[1], e[2], e[3], e[4], float(np.float32(e[5]))) for e in ents if not e[4]] if opts["decoys"] else None]
        clause = None
        if full:
            clause = py_spec(P, trows, dm, ents)
            if clause is None and resp[2].strip() != "ok":
                clause = "lean spec-C15: " + resp[2].strip()
            if clause is None and not P["has_decoys"]:
                clause = mirrored_clause(P, [e[:5] for e in ents])
            if clause is None:
                qv = dec(resp[3])
                qs = [a_rat(x) for x in qv] if isinstance(qv, list) else []
                if len(qs) != len(ents) or any(np.float32(e[5]) != np.float32(rounded(q)) for e, q in zip(ents, qs)):
                    clause = "protein q-values differ from the C01 formula over the entries"
        else:
            # decoys=False: only targets.proteins exists; it must hold exactly the target entries the property demands
            # (tie-free scores: they are unique), with the q-values of the C01 formula over *all* entries
            exp_t = sorted(e for e in exp_ents if e[4])
            got_t = sorted(e[:5] for e in ents)
            if any(e[0] is None for e in ents):
                clause = "entry without a protein group"
            elif got_t != exp_t:
                clause = py_spec(P, trows, dm, [e[:5] for e in ents] + [e for e in exp_ents if not e[4]]) or \
                    "targets.proteins is not the target part of the picked-protein result"
            if clause is None and not P["has_decoys"]:
                clause = mirrored_clause(P, [e[:5] for e in ents])
            if clause is None:
                qv = dec(resp[2])
                qs = [a_rat(x) for x in qv] if isinstance(qv, list) else []
                qof = {e: q for e, q in zip(exp_ents, qs)}
                if len(qs) != len(exp_ents) or any(np.float32(e[5]) != np.float32(rounded(qof[e[:5]])) for e in ents):
                    clause = "protein q-values differ from the C01 formula over all entries (decoys=False)"
        if clause:
            sig = "spec:" + clause.split(":")[0]
            if full:
                sig = comma_sig(P, trows, dm, [e[:5] for e in ents], sig)
            elif any("," in n for n in known_names(P)) and \
                    sorted(e[:5] for e in ents) == sorted(e for e in py_entries(P, trows, dm, first=first_by_comma) if e[4]):
                sig = COMMA_SIG
            chk.spec_violation(sig, dict(**cj, impl=[str(e) for e in ents], expected=[str(e) for e in model], clause=clause))
            continue
        if pep_mismatch:
            chk.corr_break("e2e-peptide-level", pep_mismatch)
            continue
        keep, ties = tie_free_entry(P, trows, dm)
        if ties:
            chk.count("top_tie_case", True)
        if full and not ties:
            a = sorted((e[0], e[1], e[2], e[3], e[4], float(np.float32(e[5]))) for e in ents)
            b = sorted((e[0], e[1], e[2], e[3], e[4], float(np.float32(rounded(e[5])))) for e in model)
            if a != b:
                chk.corr_break("pickedq", dict(**cj, impl=[str(e) for e in a], model=[str(e) for e in b]))
                continue
        if full and ties:
            a = sorted(e[:5] for e in ents if keep(e[0]))
            b = sorted(e[:5] for e in model if keep(e[0]))
            if a != b:
                chk.corr_break("pickedq", dict(**cj, impl=[str(e) for e in a], model=[str(e) for e in b]))
            continue
        # the two result files: same rows in the same order as the model's files when no two entries share a score
        # (the level table is sorted by score), the same rows in any order otherwise
        for name, fi, fm in zip(("targets.proteins", "decoys.proteins"), ifiles, mfiles):
            if (fi is None) != (fm is None):
                chk.corr_break("pickedfiles", dict(**cj, file=name, impl=str(fi)[:300], model=str(fm)[:300]))
                break
            if fi is None:
                continue
            distinct = len(set(e[3] for e in fm)) == len(fm)
            if (fi != fm) if distinct else (sorted(fi) != sorted(fm)):
                chk.corr_break("pickedfiles", dict(**cj, file=name, impl=[str(e) for e in fi], model=[str(e) for e in fm]))
                break



# ----------------------------------------------------------------------------
# several collections in one assign_confidence call (and a second, appending call on the same directory)
# ----------------------------------------------------------------------------
PREFIX_PATTERNS = {2: [[None, None], [None, None], ["a", "b"], [None, "b"], ["a", None], ["a", "a"], ["", None]],
                   3: [[None, "b", None], ["a", "b", "a"], [None, None, None], ["a", None, "b"]]}


def gen_run(rng, db, P):
    """2-3 peptide tables of one database analysed by ONE call (one Proteins object, one rng argument, shared level
    files), prefixes absent / distinct / mixed / repeated; tie-free scores; sometimes a second call with
    append_to_output_file=True on the same directory"""
    ncoll = rng.choice([2, 2, 2, 3])
    tables = []
    keep_any = rng.random() < 0.2          # a fifth of the runs keeps tables on which picked_protein raises
    for _ in range(ncoll):
        for _try in range(6):
            t = gen_table(rng, db, P, e2e=True, tiefree=True)
            if keep_any or py_outcome(P, expected_peptide_level(t["rows"], t["opts"]["desc"]), {}) == "ok":
                break
        tables.append(t)
    o = tables[0]["opts"]
    prefixes = list(rng.choice(PREFIX_PATTERNS[ncoll]))
    calls = [dict(app=False, idx=list(range(ncoll)), prefixes=prefixes)]
    if rng.random() < 0.35:
        j = rng.randrange(ncoll)
        calls.append(dict(app=True, idx=[j], prefixes=[prefixes[j]]))
    return dict(entry="run", P=P, fasta=db["fasta"], dbmode=db.get("mode"),
                tables=[dict(rows=t["rows"], desc=t["opts"]["desc"], style=t["style"], smag=t["smag"]) for t in tables],
                calls=calls, seed=tables[0]["seed"], rng_kind=tables[0]["rng_kind"],
                opts=dict(fmt=o["fmt"], decoys=o["decoys"], groups=o["groups"], chunk=o["chunk"]))


def run_file_name(prefix, decoy):
    return (f"{prefix}." if prefix else "") + ("decoys" if decoy else "targets") + ".proteins"


def impl_run(case):
    """the calls of `case` on one directory; returns (status, {file name: [(group, peptide, stripped, score, q)]})"""
    import mokapot

    opts = case["opts"]
    d = Path(tempfile.mkdtemp(prefix="run-", dir=tmpdir()))
    try:
        pins, scs = [], []
        for j, t in enumerate(case["tables"]):
            rows = t["rows"]
            sc = np.array([float(Fraction(r["score"])) for r in rows], dtype=float)
            df = pd.DataFrame({
                "SpecId": [f"t{j}psm{i}" for i in range(len(rows))],
                "Label": [1 if r["target"] else -1 for r in rows],
                "ScanNr": np.arange(len(rows)) + 1,
                "ExpMass": np.arange(len(rows)) + 500,
                "feat0": sc,
                "feat1": np.arange(len(rows)) % 3,
                "Peptide": [r["peptide"] for r in rows],
                "Proteins": ["prot"] * len(rows),
            })
            if opts.get("groups"):
                ng = int(opts["groups"])
                df.insert(len(df.columns) - 1, "PeptideGroup", [f"G{(7 * i + 3) % ng}" for i in range(len(rows))])
            if opts["fmt"] == "parquet":
                pin = d / f"t{j}.parquet"
                df.to_parquet(pin, index=False)
            else:
                pin = d / f"t{j}.pin"
                df.to_csv(pin, sep="\t", index=False)
            pins.append(pin)
            scs.append(sc)
        out = d / "out"
        out.mkdir()
        proteins = mk_proteins(case["P"])
        case["_rec"] = []
        for call in case["calls"]:
            try:
                with quiet(), pep_stub(), confidence_chunk(opts.get("chunk")), record_pairing(case["_rec"]):
                    dss = mokapot.read_pin([pins[j] for j in call["idx"]], max_workers=1)
                    mokapot.assign_confidence(dss, max_workers=1, scores=[scs[j] for j in call["idx"]],
                                              descs=[case["tables"][j]["desc"] for j in call["idx"]], dest_dir=out,
                                              proteins=proteins, prefixes=list(call["prefixes"]), decoys=opts["decoys"],
                                              rng=rng_arg(case), append_to_output_file=call["app"])
            except Exception as e:  # noqa: BLE001
                return classify_exc(e), None
        files = {}
        for f in sorted(out.iterdir()):
            if f.name.endswith(".proteins"):
                t = read_tsv(f)
                files[f.name] = [((rec["mokapot protein group"] or None), rec["best peptide"], rec["stripped sequence"],
                                  Fraction(float(rec["score"])), float(np.float32(float(rec["q-value"]))))
                                 for rec in t.to_dict("records")]
        left = [f.name for f in out.iterdir() if not (f.name.endswith(".proteins") or f.name.endswith(".peptides")
                                                      or f.name.endswith(".psms") or f.name.endswith("s"))]
        if left:
            return "other:leftover-" + left[0], None
        return "ok", files
    finally:
        shutil.rmtree(d, ignore_errors=True)


def run_expected_files(case, sections):
    """the declarative rule, re-stated: a file belongs to the collections carrying its prefix; with
    append_to_output_file all of them append to what was there; otherwise prefix-less collections share their file
    (sections in call order) and a file with a prefix of its own holds the section of the last collection carrying
    that prefix.  `sections[j][decoy]` = lines of table j."""
    files = {}
    for call in case["calls"]:
        owners = {}
        for j, pre in zip(call["idx"], call["prefixes"]):
            owners.setdefault(pre or "", []).append(j)
        for pre, js in owners.items():
            for decoy in ([False, True] if case["opts"]["decoys"] else [False]):
                name = run_file_name(pre, decoy)
                if call["app"]:
                    files[name] = files.get(name, []) + [l for j in js for l in sections[j][decoy]]
                elif not pre:
                    files[name] = [l for j in js for l in sections[j][decoy]]
                else:
                    files[name] = list(sections[js[-1]][decoy])
    return files


def eval_run(chk, cases):
    for c in cases:
        P, opts = c["P"], c["opts"]
        strs = [P["prefix"], *P["peptide_map"].keys(), *P["peptide_map"].values(), *P["shared"], *P["protein_map"].keys(),
                *P["protein_map"].values(), *[r["peptide"] for t in c["tables"] for r in t["rows"]]]
        if not all(x.isascii() and "\n" not in x and "\r" not in x for x in strs):
            continue
        st, files = impl_run(c)
        cj = dict(case=jsonable({k_: v for k_, v in c.items() if not k_.startswith("_")}))
        pat = ",".join("-" if not p_ else p_ for p_ in c["calls"][0]["prefixes"])
        chk.count("entry", "run")
        chk.count("run_collections", len(c["tables"]))
        chk.count("run_prefixes", pat)
        chk.count("run_appending_second_call", len(c["calls"]) > 1)
        chk.count("run_chunk_size", opts.get("chunk") or "default")
        chk.count("run_format", opts["fmt"])
        chk.count("run_decoy_files", opts["decoys"])
        chk.count("run_rng", c.get("rng_kind", "int"))
        chk.count("has_decoys", P["has_decoys"])
        chk.count("outcome", st if not st.startswith("other") else "other")
        chk.case(None, ("run", pat, len(c["calls"]), opts.get("chunk"), opts["decoys"], P["has_decoys"],
                        tuple(tuple((r["target"], r["peptide"], r["score"]) for r in t["rows"]) for t in c["tables"])),
                 sample=dict(entry="assign_confidence, several collections", prefixes=c["calls"][0]["prefixes"], opts=opts,
                             impl={k_: len(v_) for k_, v_ in (files or {}).items()} if files is not None else st))
        if st.startswith("other"):
            chk.spec_violation("unexpected-exception:" + st.split(":")[1], dict(**cj, error=st, clause="assign_confidence(psms=[...], proteins=...) raised an unexpected exception"))
            continue
        # per table: expected peptide level, pairing (the one the run used, checked against its contract), entries
        order = [j for call in c["calls"] for j in call["idx"]]          # collections in the order they are analysed
        rec = c.get("_rec") or []
        per, bad, broke = {}, None, False
        sresp = common.driver_batch([req("strip", [r["peptide"] for r in expected_peptide_level(t["rows"], t["desc"])])
                                     for t in c["tables"]])
        for pos, j in enumerate(order):
            t = c["tables"][j]
            trows = expected_peptide_level(t["rows"], t["desc"])
            v = dec(sresp[j])
            stripped = [a_str(x) for x in v] if isinstance(v, list) else []
            dm = {}
            if not P["has_decoys"] and pos < len(rec):
                dm = dict(map(tuple, rec[pos]["result"]))
                if len(stripped) == len(trows) and all(s_ == r.get("seq") for s_, r in zip(stripped, trows)):
                    pclause = py_pairing_spec(P, trows, dm)
                    if pclause:
                        chk.spec_violation("spec:" + pclause, dict(**cj, collection=j, impl=rec[pos], clause=pclause))
                        broke = True
                        break
                    if c.get("rng_kind", "int") == "int":
                        rep = replicate_pairing(dict(c, rows=trows), stripped)
                        if list(rep.items()) != list(dm.items()):
                            # the same integer seed must draw the same pairing for every collection and every call
                            chk.corr_break("pairing-args", dict(**cj, collection=j, impl=rec[pos], model=[list(x) for x in rep.items()]))
                            broke = True
                            break
            oc = py_outcome(P, trows, dm)
            if oc != "ok" and bad is None:
                bad = oc
                break                                                      # the run stops at this collection
            per[j] = dict(trows=trows, dm=dm, sign=1 if t["desc"] else -1)
        if broke:
            continue
        tabs = [c["tables"][j] for j in range(len(c["tables"]))]
        calls_wire = []
        for call in c["calls"]:
            ids = {}
            colls = []
            for j, pre in zip(call["idx"], call["prefixes"]):
                pid = 0 if not pre else 1 + sorted(set(p_ for cl in c["calls"] for p_ in cl["prefixes"] if p_)).index(pre)
                info = per.get(j) or dict(trows=expected_peptide_level(tabs[j]["rows"], tabs[j]["desc"]), dm={}, sign=1 if tabs[j]["desc"] else -1)
                raw_rows = [dict(r, score=str(info["sign"] * Fraction(r["score"]))) for r in info["trows"]]
                colls.append([pid, [[k_, v_] for k_, v_ in info["dm"].items()], wire_rows(raw_rows), bool(tabs[j]["desc"])])
            calls_wire.append([bool(call["app"]), colls])
        mv = dec(common.driver_batch([req("pickedrun", *wire_P(P), int(opts.get("chunk") or 1000000), bool(opts["decoys"]), calls_wire)])[0])
        if bad is not None or st != "ok":
            if st != "ok":
                chk.reject(st)
            if bad is None:
                clause = "assign_confidence raised (" + st + ") although every rule on mapped/shared peptides is met by every collection"
                chk.spec_violation("spec:raised-although-mappable", dict(**cj, impl=st, expected=str(mv)[:400], clause=clause))
            elif st != bad or not (isinstance(mv, str) and mv == st):
                chk.corr_break("run-raises", dict(**cj, impl=st, expected=bad, model=str(mv)[:300]))
            continue
        if isinstance(mv, str):
            chk.corr_break("run-raises", dict(**cj, impl="ok", model=mv))
            continue
        # the sections the property demands (tie-free: unique), under the true first-member pairing and — to attribute
        # the recorded comma defect — under the pairing by the text up to the first comma
        def sections_for(first):
            lines, secs = [], {}
            for j, info in per.items():
                ents = py_entries(P, info["trows"], info["dm"], first=first)
                secs[j] = ents
                lines.append(req("qspec", True, [[e[3], bool(e[4])] for e in ents]))
            resp = common.driver_batch(lines) if lines else []
            out = {}
            for (j, ents), r in zip(secs.items(), resp):
                qv = dec(r)
                qs = [a_rat(x) for x in qv] if isinstance(qv, list) else [None] * len(ents)
                full = sorted(((e, q) for e, q in zip(ents, qs)), key=lambda x: -x[0][3])
                out[j] = {dcy: [(e[0], e[1], e[2], e[3], float(np.float32(rounded(q)))) for e, q in full if e[4] != dcy]
                          for dcy in (False, True)}
            return out
        expected = run_expected_files(c, sections_for(None))
        model_files = {}
        pres = sorted(set(p_ for cl in c["calls"] for p_ in cl["prefixes"] if p_))
        for item in mv:
            pid, dcy, ls = int(a_rat(item[0])), a_bool(item[1]), item[2]
            if ls == "none":
                continue
            name = run_file_name(pres[pid - 1] if pid else None, dcy)
            model_files[name] = [(a_str(e[0][0]), a_str(e[0][1]), a_str(e[0][2]), a_rat(e[0][3]), float(np.float32(rounded(a_rat(e[1])))))
                                 for e in ls[0]]
        if files != expected:
            sig, clause = "spec:several collections", None
            if set(files) != set(expected):
                clause = "several collections: the set of protein result files is not the one the prefixes demand"
            else:
                name = next(n_ for n_ in expected if files[n_] != expected[n_])
                # (a result file may hold entries without a group — NaN read back as None: compared as text)
                if sorted((repr(l[:4]) for l in files[name])) != sorted((repr(l[:4]) for l in expected[name])):
                    clause = f"several collections: {name} does not hold exactly the entries of its own collections"
                elif [l[:4] for l in files[name]] != [l[:4] for l in expected[name]]:
                    clause = f"several collections: the sections of {name} are not in call order / score order"
                else:
                    clause = f"several collections: q-values in {name} are not the C01 formula over the entries of the own collection"
            if any("," in n_ for n_ in known_names(P)) and files == run_expected_files(c, sections_for(first_by_comma)):
                sig = COMMA_SIG
            chk.spec_violation(sig, dict(**cj, impl={k_: [str(l) for l in v_] for k_, v_ in files.items()},
                                         expected={k_: [str(l) for l in v_] for k_, v_ in expected.items()}, clause=clause))
            continue
        if files != model_files:
            chk.corr_break("pickedrun", dict(**cj, impl={k_: [str(l) for l in v_] for k_, v_ in files.items()},
                                             model={k_: [str(l) for l in v_] for k_, v_ in model_files.items()}))


def random_runs(rng, n):
    out = []
    for _ in range(n):
        wide = rng.random() < 0.5
        for _ in range(20):
            db = gen_db(rng, False, wide=wide)
            try:
                P = load_proteins(db)
                break
            except ValueError:
                continue
        out.append(gen_run(rng, db, P))
    return out


def eval_groups(chk, cases):
    """group names of the real read_fasta against the model's `joinGroup` / `firstMember`: every group name is the
    ", "-join of member names of the database, and the first member the code reads back (text up to the first
    ", ") is the first joined name whenever that name does not hold ", " itself"""
    seen, todo = set(), []
    for c in cases:
        P = c["P"]
        for g in set(P["peptide_map"].values()):
            key = (g, tuple(sorted(P["protein_map"].items())))
            if key in seen:
                continue
            seen.add(key)
            mem = members_of(P, g)
            if mem is None or not all(x.isascii() and "\n" not in x for x in mem):
                continue                      # hand-made maps (corpus / mirrored names not in the name map)
            todo.append((g, mem))
    resp = common.driver_batch([req("joingroup", mem) for _, mem in todo])
    for (g, mem), r in zip(todo, resp):
        v = dec(r)
        joined, first = (a_str(v[0]), a_str(v[1])) if isinstance(v, list) and len(v) == 2 else (None, None)
        chk.case(None, ("group", g))
        chk.count("group_members", min(len(mem), 5))
        chk.count("group_first_member_has_comma", "," in mem[0])
        if joined != g or first != g.split(", ")[0] or ((", " not in mem[0]) and first != mem[0]):
            chk.corr_break("joingroup", dict(group=g, members=mem, model=[joined, first]))


def eval_strip(chk, rng, n):
    """strip_peptides on exotic and well-formed columns: impl vs model (and vs ground truth where defined)"""
    from mokapot.picked_protein import strip_peptides

    cols = []
    for _ in range(n):
        mode = rng.choice(["exotic", "wf", "wf", "lower", "mixedcase", "random", "random", "nested", "nested", "random2"])
        k = rng.randint(0, 6)
        if mode == "nested":
            # annotations holding brackets, terminal modifications with the `-` separator (ground truth known)
            col = []
            for _ in range(max(1, k)):
                s = "".join(rng.choice(AA) for _ in range(rng.randint(1, 6))) + "K"
                col.append((render(rng, s, rng.choice(NESTED_STYLES)), s))
        elif mode == "random2":
            # deeper nestings and dashes: the repaired expressions against their model
            alpha = rng.choice(["[]A-", "[]()A", "[[]]((.-AK", "()A-.", "[]()-.Aa"])
            col = [("".join(rng.choice(alpha) for _ in range(rng.randint(0, 12))), None) for _ in range(max(1, k))]
        elif mode == "exotic":
            col = [(rng.choice(EXOTIC), None) for _ in range(k)]
        elif mode == "random":
            # arbitrary nestings of brackets, dots and letter cases: no ground truth, the regular expressions of the
            # code against the character scans of the model
            alpha = rng.choice(["[]().AaK", "[(.)]Ak", "[].Aa1-+", "().aK.", "[]()..AKan"])
            col = [("".join(rng.choice(alpha) for _ in range(rng.randint(0, 9))), None) for _ in range(max(1, k))]
        elif mode == "lower":
            st = rng.choice(["lower_all", "lower_all_flank"])
            col = []
            for _ in range(k):
                s = "".join(rng.choice(AA) for _ in range(rng.randint(1, 6))) + "K"
                col.append((render(rng, s, st), s))
        else:
            col = []
            for _ in range(k):
                s = "".join(rng.choice(AA) for _ in range(rng.randint(1, 6))) + "K"
                col.append((render(rng, s, rng.choice(STYLES[:7])), s))
            if mode == "mixedcase" and col:
                col.append(("abck", None))
        cols.append((mode, col))
    cols = [(m, c) for m, c in cols if all(p.isascii() for p, _ in c)]
    modes = [m for m, _ in cols]
    cols = [c for _, c in cols]
    resp = common.driver_batch([req("strip", [p for p, _ in c]) for c in cols])
    respn = common.driver_batch([req("stripn", [p for p, _ in c]) for c in cols])
    # the two new expressions alone, string by string, against Python's `re`
    import re as _re
    singles = sorted({p for c in cols for p, _ in c})
    r1 = common.driver_batch([req("stripmodsn", p) for p in singles])
    r2 = common.driver_batch([req("dropdash", p) for p in singles])
    mod_re = r"\[(?:[^\[\]]|\[[^\[\]]*\])*\]|\((?:[^()]|\([^()]*\))*\)"
    for p_, a_, b_ in zip(singles, r1, r2):
        chk.count("repaired_expression_single_strings")
        if a_str(dec(a_)) != _re.sub(mod_re, "", p_):
            chk.corr_break("stripmodsn", dict(string=p_, impl=_re.sub(mod_re, "", p_), model=a_str(dec(a_))))
        if a_str(dec(b_)) != _re.sub(r"^-|-$", "", p_):
            chk.corr_break("dropdash", dict(string=p_, impl=_re.sub(r"^-|-$", "", p_), model=a_str(dec(b_))))
    for col, r, rn, mode in zip(cols, resp, respn, modes):
        v = dec(r)
        model = [a_str(x) for x in v] if isinstance(v, list) else [v]
        vn = dec(rn)
        modeln = [a_str(x) for x in vn] if isinstance(vn, list) else [vn]
        is_nested = mode == "nested"
        for dt in ("str", "object"):
            ser = pd.Series([p for p, _ in col], dtype=(object if dt == "object" else "str"))
            # the repaired strip_peptides (FINDING-C15.md) written with the same pandas primitives, against its model;
            # on the nested notation both against the ground truth
            if len(col):
                fixed = [str(x) for x in strip_fixed(ser).tolist()]
                chk.count("repaired_strip_columns", dt)
                if fixed != modeln:
                    chk.corr_break("stripn", dict(column=[p for p, _ in col], impl=fixed, model=modeln))
                elif is_nested and modeln != [s_ for _, s_ in col]:
                    chk.corr_break("stripn-groundtruth", dict(column=[p for p, _ in col], model=modeln, expected=[s_ for _, s_ in col]))
            try:
                impl = [str(x) for x in strip_peptides(ser).tolist()]
            except Exception as e:  # noqa: BLE001
                if len(col) == 0:
                    chk.reject("strip-empty-column:" + type(e).__name__)
                    continue
                chk.spec_violation("strip-exception", dict(column=[p for p, _ in col], error=repr(e), clause="strip_peptides raised"))
                continue
            chk.case(None, ("strip", tuple(p for p, _ in col)))
            chk.count("strip_dtype", dt)
            chk.count("strip_mode", "nested/terminal" if is_nested else "random" if all(s_ is None for _, s_ in col) and not all(p in EXOTIC for p, _ in col) else "listed/well-formed")
            bad = [(p, i_, s) for (p, s), i_ in zip(col, impl) if s is not None and i_ != s]
            if bad and is_nested:
                chk.count("nested_notation_stripped_by_code", False)
                chk.spec_violation(NESTED_SIG, dict(column=[p for p, _ in col], impl=impl, expected=[s for _, s in col],
                                                    first_row=list(bad[0]),
                                                    clause="modifications and flanking residues are ignored when mapping peptides "
                                                           "to proteins: the stripped sequence is not the residue sequence"))
                if impl != model:       # the model is the code as it is: it must reproduce the defect
                    chk.corr_break("strip", dict(column=[p for p, _ in col], impl=impl, model=model))
            elif bad:
                chk.spec_violation("strip-spec", dict(column=[p for p, _ in col], impl=impl, expected=[s for _, s in col],
                                                      clause="stripped sequence is not the residue sequence"))
            elif impl != model:
                chk.corr_break("strip", dict(column=[p for p, _ in col], impl=impl, model=model))


def eval_matchdecoy(chk, rng, n, given=None):
    """mokapot.peptides.match_decoy (the pairing step of group_without_decoys) on random target / decoy lists:
    the real function against its contract (upper-case, distinct inputs) and against the model `matchdecoy`, the
    seeded shuffle being drawn independently with the pandas primitive"""
    from mokapot.peptides import match_decoy

    cases = list(given or [])
    for _ in range(0 if given else n):
        alpha = rng.choice(["AC", "ACD", "ACDK", "ACK1", "AB-+1*", "AcK"])
        targets = list(dict.fromkeys("".join(rng.choice(alpha) for _ in range(rng.randint(1, 4)))
                                     for _ in range(rng.randint(0, 8))))
        decoys = ["".join(rng.choice(alpha) for _ in range(rng.randint(0, 4))) for _ in range(rng.randint(0, 8))]
        uniq = rng.random() < 0.6
        if uniq:
            decoys = list(dict.fromkeys(decoys))
        cases.append(dict(targets=targets, decoys=decoys, seed=rng.choice([0, 1, 2, 7, 42, 12345]),
                          rng_kind=rng.choice(["int", "int", "generator"]), alpha=alpha, uniq=uniq))
    lines, impls = [], []
    for c in cases:
        perm = shuffle_perm(len(c["targets"]), c)
        lines.append(req("matchdecoy", [c["targets"][i] for i in perm], c["decoys"]))
        try:
            with quiet():
                r = match_decoy(pd.Series(c["decoys"], dtype="str"), pd.Series(c["targets"], dtype="str"), rng=rng_arg(c))
            impls.append([list(x) for x in r.items()])
        except Exception as e:  # noqa: BLE001
            impls.append("other:" + type(e).__name__ + ":" + str(e)[:80])
    resp = common.driver_batch(lines)
    for c, impl, r in zip(cases, impls, resp):
        v = dec(r)
        model = [[a_str(x[0]), a_str(x[1])] for x in v] if isinstance(v, list) else v
        chk.case(None, ("matchdecoy", tuple(c["targets"]), tuple(c["decoys"]), c["seed"], c["rng_kind"]))
        chk.count("matchdecoy_alphabet", c["alpha"])
        chk.count("matchdecoy_decoys", "distinct" if len(set(c["decoys"])) == len(c["decoys"]) else "repeated")
        if isinstance(impl, str):
            chk.spec_violation("unexpected-exception:" + impl.split(":")[1], dict(matchdecoy=c, error=impl, clause="match_decoy raised"))
            continue
        plain = all(ch.isupper() for w in c["targets"] + c["decoys"] for ch in w) and len(set(c["decoys"])) == len(c["decoys"])
        if plain:
            fake_rows = [dict(target=False, seq=d) for d in c["decoys"]]
            clause = py_pairing_spec(dict(peptide_map={t: "x" for t in c["targets"]}), fake_rows, dict(map(tuple, impl)))
            if clause:
                chk.spec_violation("spec:" + clause, dict(matchdecoy=c, impl=impl, expected=model, clause=clause))
                continue
        if impl != model:
            chk.corr_break("matchdecoy", dict(matchdecoy=c, impl=impl, model=model))


# ----------------------------------------------------------------------------
# exhaustive small scope
# ----------------------------------------------------------------------------
EX_TARGETS = ">P1\nACKDFKEEK\n>P2\nGHKEEK\n"
EX_DECOYS = ">decoy_P1\nCAKFDKEEK\n>decoy_P2\nHGKEEK\n"
# peptide kinds of the sweep: two unique peptides of P1, the decoy counterpart of the first, the unique peptide of
# P2 and its decoy counterpart, the peptide EEK shared by everything, and a seventh kind that cannot be mapped
EX_KINDS_TD = [("ACK", True), ("DFK", True), ("CAK", False), ("GHK", True), ("HGK", False), ("EEK", True), ("WWK", True)]
EX_KINDS_T = [("ACK", True), ("DFK", True), ("CAK", False), ("GHK", True), ("HGK", False), ("EEK", True), ("KEE", False)]


def exhaustive_dbs():
    """P1 {ACK, DFK, EEK}, P2 {GHK, EEK} (EEK shared), once with reversed decoy entries and once target-only"""
    return [load_proteins(dict(fasta=f, params=dict(missed_cleavages=0, min_length=2)))
            for f in (EX_TARGETS + EX_DECOYS, EX_TARGETS)]


def exhaustive(chk, full=True, stride=1):
    dbs = exhaustive_dbs()
    total = 0
    for P in dbs:
        kinds = EX_KINDS_TD if P["has_decoys"] else EX_KINDS_T
        plans = [(3, kinds, (1, 2, 3))] if full else [(2, kinds, (1, 2))]
        if full:
            plans.append((4, kinds[:4], (1, 2)))
        cases = []
        for nmax, ks, vals in plans:
            for n in ([4] if nmax == 4 else range(1, nmax + 1)):
                for combo in itertools.product(range(len(ks)), repeat=n):
                    for sc in itertools.product(vals, repeat=n):
                        total += 1
                        if total % stride:
                            continue
                        rows = [dict(target=ks[i][1], seq=ks[i][0], peptide=ks[i][0], score=str(s), kind="ex")
                                for i, s in zip(combo, sc)]
                        cases.append(dict(P=P, rows=rows, style="plain", smode="exhaustive", seed=0, index="range",
                                          sdtype="float64", pdtype="str", cols=("t", "p", "s"), entry="direct"))
        for i in range(0, len(cases), 2000):
            eval_direct(chk, cases[i:i + 2000])
    chk.extra["exhaustive_sweep"] = (
        f"all tables of <=3 rows over 7 peptide kinds x 3 score values and all 4-row tables over 4 kinds x 2 "
        f"values, on a database with decoys and on the target-only one: {total // stride} cases" if full else
        f"all tables of <=2 rows over 7 peptide kinds x 2 score values on both databases: {total // stride} cases")


# ----------------------------------------------------------------------------
# corpus, search, minimise, main
# ----------------------------------------------------------------------------
def corpus_cases():
    p = common.VERIF / "harness" / "corpus" / "C15.json"
    if p.exists():
        return json.loads(p.read_text())
    return []


def random_cases(rng, n, big=False, e2e=False):
    out = []
    db = P = None
    for i in range(n):
        if db is None or i % 3 == 0:
            wide = e2e and rng.random() < 0.6
            for _ in range(20):
                db = gen_db(rng, big, wide=wide)
                try:
                    P = load_proteins(db)
                    break
                except ValueError:
                    continue  # "Only decoy proteins were found": not a database of the property's quantifier
            mm = pair_order_mismatches(P)
        c = gen_table(rng, db, P, big=big, e2e=e2e)
        c["fasta"] = db["fasta"]
        c["_mm"] = mm
        if i % 3 != 0 and rng.random() < 0.6:
            c["warm"] = {k: out[-1][k] for k in ("rows", "cols", "seed", "sdtype", "pdtype", "index")}
        out.append(c)
    return out


def unknown_violations(chk):
    known = {f.get("signature") for f in common.known_findings(chk.prop)}
    return [(i, s) for i, (s, _) in enumerate(chk.spec_violations) if s not in known]


def search(chk):
    rng = chk.rng
    eval_direct(chk, random_cases(rng, 1500 * max(1, chk.budget_mult // 2), big=True))
    if not unknown_violations(chk):
        eval_matchdecoy(chk, rng, 2000)
    if not unknown_violations(chk):
        eval_e2e(chk, random_cases(rng, 60, e2e=True))
    if not unknown_violations(chk):
        eval_run(chk, random_runs(rng, 40))
    if not unknown_violations(chk):
        exhaustive(chk, full=True, stride=3)


def minimise(chk):
    unknown = unknown_violations(chk)
    if not chk.spec_violations or not unknown:
        return                                # nothing to report, or recorded known findings only
    first = unknown[0][0]                     # shrink the first violation that is not a recorded known finding
    sig, info = chk.spec_violations[first]
    if "case" not in info or not sig.startswith("spec:") or info["case"].get("entry") != "direct" \
            or sig == "spec:raised-although-mappable":
        return
    c0 = info["case"]

    def fails(rs):
        sub = common.Check(chk.prop, chk.tier, chk.seed)
        try:
            eval_direct(sub, [dict(c0, rows=rs)])
        except Exception:  # noqa: BLE001
            return False
        return any(s == sig for s, _ in sub.spec_violations)

    small = common.shrink_list(c0["rows"], fails)
    sub = common.Check(chk.prop, chk.tier, chk.seed)
    eval_direct(sub, [dict(c0, rows=small)])
    for s, i in sub.spec_violations:
        if s == sig:
            chk.spec_violations[first] = (s, dict(i, shrunk_from_rows=len(c0["rows"])))
            break


def main(chk, args):
    build = common.build_and_audit("C15")
    if not build.driver_ok:
        chk.finish(build, RULE)
    rng = chk.rng
    quick = chk.tier == "quick"
    try:
        cc = corpus_cases()
        eval_direct(chk, [c for c in cc if c.get("entry") == "direct"])
        eval_e2e(chk, [c for c in cc if c.get("entry") == "e2e"])
        rc = random_cases(rng, 1000 if quick else 8000, big=not quick)
        eval_direct(chk, rc)
        eval_groups(chk, rc)
        eval_strip(chk, rng, 150 if quick else 2000)
        eval_matchdecoy(chk, rng, 150 if quick else 3000)
        eval_e2e(chk, random_cases(rng, 40 if quick else 400, e2e=True))
        eval_run(chk, random_runs(rng, 8 if quick else 120))
        exhaustive(chk, full=not quick)
        minimise(chk)
    finally:
        cleanup()
    lc = common.leanchecker("C15") if chk.tier == "thorough" else None
    chk.assumptions += [
        "the Proteins maps (peptide_map, shared_peptides, protein_map, has_decoys, decoy_prefix) are inputs of the "
        "model, produced here by the real read_fasta; how they are built is C16",
        "strings are ASCII without line breaks (regular-expression '.', str.islower/upper and the RE2/re engines "
        "are only modelled on that domain); the driver answers 'unsupported' otherwise and such cases are not generated",
        "target-only FASTA: the seeded shuffle of match_decoy (`Series.sample(frac=1, random_state=rng)`) is the "
        "parameter of the model; the harness draws it with the pandas primitive itself on 0..n-1 and the model computes "
        "the pairing from it (sorted keys, distinct decoy sequences in table order, pop of the last target of the "
        "composition); the pairing recorded at the call made by group_without_decoys, the one of a replicated call and "
        "the model's must coincide, and the recorded one must meet the contract (same composition, unique target, "
        "unpaired only when none is left) re-stated on the generator's ground truth; entries are additionally checked "
        "relationally (composition + mirrored group)",
        "ties at the top of a pair leave the winner to the seeded shuffle: such pairs are checked against the spec "
        "only (any maximal row), all other pairs must equal the model exactly",
        "assign_confidence runs with the PEP kernel replaced by zeros (tiny tables make triqler/NNLS degenerate; "
        "PEPs are C06); every PSM is its own spectrum, so with tie-free scores the peptide-level table fed to "
        "picked_protein is computed independently (best row per peptide string after the orientation of descs) and "
        "compared with targets/decoys.peptides; with tied scores (and only then) the observed table is used",
        "decoys=False hides the decoy entries: such runs are generated tie-free, targets.proteins must equal the target "
        "part of the (then unique) expected entries with the C01 q-values over all expected entries",
        "duplicate row labels of the table given to picked_protein are part of the generated input forms (defect repaired "
        "in /repo; a violation is labelled 'spec:duplicate row labels' only when it disappears with a range index)",
        "annotations that themselves hold brackets and ProForma terminal modifications are generated with their ground truth; "
        "the real strip_peptides is judged against it (open finding: signature '" + NESTED_SIG + "'); the Lean model of "
        "strip_peptides is the code as it is and must reproduce the real output; the model of the proposed repair (stripn) "
        "is compared with Python's re and with the patched function written with pandas' str.replace, not with /repo",
        "scores are integers or dyadic rationals, exact in float64 and in the text round trip (at most 14 significant "
        "decimal digits); a quarter of the tables uses values of 25 significant bits, which float32 cannot hold; protein "
        "q-values are compared after the same float32 rounding primitive as in C01",
        "pairs are formed by the NAME of a group's first member (recovered from the group name with the identifiers of "
        "the database, not by splitting the text) mapped through the target->decoy name map; identifiers holding a comma "
        "are generated and must be handled like any other (defect repaired by /repo commit bfdfdaf); identifiers "
        "holding the separator ', ' itself cannot come out of read_fasta, are outside the hypothesis `commaFree` of the "
        "pairing theorems and are only tallied (histogram names_holding_the_separator)",
        "several collections in one call: tie-free scores; every collection's peptide level is computed independently, "
        "its pairing (target-only FASTA) is the one recorded at its own call of match_decoy, checked against the "
        "contract and, for integer seeds, against a replicated call; the expected files follow the declarative rule "
        "(prefix-less collections share a file in call order, a prefix of its own holds the last collection carrying "
        "it, append_to_output_file appends) and the C01 q-values over the entries of the own collection; sqlite output "
        "is not driven",
    ]
    chk.finish(build, RULE, search=search, lc=lc,
               trusted_extra=["pandas str.replace/str.split/map/sample/sort_values/drop_duplicates/to_csv/read_csv, "
                              "to_parquet, numpy (RandomState / Generator.choice behind Series.sample); mokapot.read_fasta "
                              "(C16) as input producer"])


def replay(chk, path):
    info = json.loads(open(path).read())
    if "matchdecoy" in info:
        common.build_and_audit("C15")
        eval_matchdecoy(chk, chk.rng, 0, given=[info["matchdecoy"]])
        for sig, i in chk.spec_violations:
            print("REPRODUCED", sig, json.dumps(i, default=str)[:1500])
        for op, i in chk.corr_breaks:
            print("CORRESPONDENCE-BREAK", op, json.dumps(i, default=str)[:1500])
        return 1 if (chk.spec_violations or chk.corr_breaks) else 0
    if "case" not in info:
        print(json.dumps(info, indent=1)[:3000])
        return 0
    common.build_and_audit("C15")
    c = info["case"]
    try:
        if c.get("entry") == "e2e":
            eval_e2e(chk, [c])
        elif c.get("entry") == "run":
            eval_run(chk, [c])
        else:
            eval_direct(chk, [c])
    finally:
        cleanup()
    for sig, i in chk.spec_violations:
        print("REPRODUCED", sig, json.dumps(i, default=str)[:1500])
    for op, i in chk.corr_breaks:
        print("CORRESPONDENCE-BREAK", op, json.dumps(i, default=str)[:1500])
    return 1 if (chk.spec_violations or chk.corr_breaks) else 0
