"""Helpers shared by the pipeline-level harnesses (C02–C05, C07–C09): running the real
`brew` / `assign_confidence` with chosen streaming constants and reading back result files."""
from __future__ import annotations

import contextlib
import importlib
import io
import logging
import os
import shutil
import tempfile
from fractions import Fraction
from pathlib import Path

import numpy as np
import pandas as pd

import mkdata

logging.disable(logging.CRITICAL)

CHUNK_ATTRS = {
    "confidence": [("mokapot.confidence", "CONFIDENCE_CHUNK_SIZE")],
    "merge": [("mokapot.utils", "MERGE_SORT_CHUNK_SIZE")],
    "predict": [("mokapot.brew", "CHUNK_SIZE_ROWS_PREDICTION")],
    "read_all": [("mokapot.brew", "CHUNK_SIZE_READ_ALL_DATA")],
    "drop_cols": [("mokapot.parsers.pin", "CHUNK_SIZE_COLUMNS_FOR_DROP_COLUMNS")],
    "drop_rows": [("mokapot.parsers.pin", "CHUNK_SIZE_ROWS_FOR_DROP_COLUMNS")],
}


def mod(name):
    """the module object (NOT `import a.b as c`, which may pick up a same-named function)"""
    return importlib.import_module(name)


@contextlib.contextmanager
def chunk_sizes(**kw):
    """temporarily set streaming constants, e.g. chunk_sizes(confidence=7, merge=3)"""
    saved = []
    try:
        for k, v in kw.items():
            if v is None:
                continue
            for m, attr in CHUNK_ATTRS[k]:
                mo = mod(m)
                saved.append((mo, attr, getattr(mo, attr)))
                setattr(mo, attr, int(v))
        yield
    finally:
        for mo, attr, old in reversed(saved):
            setattr(mo, attr, old)


@contextlib.contextmanager
def workdir(prefix="mkv"):
    base = os.environ.get("VERIF_TMP", None)
    d = Path(tempfile.mkdtemp(prefix=prefix, dir=base))
    try:
        yield d
    finally:
        shutil.rmtree(d, ignore_errors=True)


LEVEL_FILE = {  # level column (lower-cased) + "s"
    "Peptide": "peptides",
    "ModifiedPeptide": "modifiedpeptides",
    "Precursor": "precursors",
    "PeptideGroup": "peptidegroups",
}


def read_result(path: Path):
    """result file -> DataFrame (None when absent)"""
    path = Path(path)
    if not path.exists():
        return None
    if path.suffix == ".parquet":
        return pd.read_parquet(path)
    return pd.read_csv(path, sep="\t", float_precision="round_trip")


def run_assign_confidence(datasets, scores, dest, **kw):
    import mokapot

    with contextlib.redirect_stdout(io.StringIO()), contextlib.redirect_stderr(io.StringIO()):
        mokapot.assign_confidence(datasets, max_workers=kw.pop("max_workers", 1), scores=scores, dest_dir=dest, **kw)


def table_rows(df: pd.DataFrame, spectrum_cols, level_cols, score):
    """abstract rows of the Lean model for a PSM table: [id spec [keys] target score]"""
    spec_ids, key_ids = {}, [dict() for _ in level_cols]
    rows = []
    lab = df["Label"]
    targets = (lab == 1) | (lab == True)  # noqa: E712
    for i in range(len(df)):
        sk = tuple(df[c].iloc[i] for c in spectrum_cols)
        s = spec_ids.setdefault(sk, len(spec_ids))
        ks = []
        for j, c in enumerate(level_cols):
            ks.append(key_ids[j].setdefault(df[c].iloc[i], len(key_ids[j])))
        sc = score[i]
        assert float(sc) == int(sc), "model scores must be integer valued"
        rows.append([i, s, ks, bool(targets.iloc[i]), int(sc)])
    return rows


@contextlib.contextmanager
def pep_kernel(stub: bool):
    """C03/C05/C09 are not about the PEP numerics (C06 is): on small tables, where triqler's spline and
    the NNLS estimators are degenerate, the PEP kernel called by confidence.py is replaced by zeros.
    With stub=False the real estimator runs."""
    if not stub:
        yield
        return
    mods = [mod("mokapot.confidence"), mod("mokapot.brew_rollup")]
    olds = [m.peps_from_scores for m in mods]
    for m in mods:
        m.peps_from_scores = lambda scores, targets, alg="qvality": np.zeros(len(scores))
    try:
        yield
    finally:
        for m, o in zip(mods, olds):
            m.peps_from_scores = o


def raised_in_pep_kernel(exc) -> bool:
    import traceback

    for fr in traceback.extract_tb(exc.__traceback__):
        if fr.filename.endswith("mokapot/peps.py") or "triqler" in fr.filename:
            return True
    return False
