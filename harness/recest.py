"""Recording estimators passed through the public `mokapot.Model` API.

The estimator never learns anything from the data: its output is a fixed function of the
features, tagged with a per-instance number, so that from a returned score one can read off
*which* model instance scored *which* row; every call is logged in the module-level LOG
(a global, because `brew` deep-copies the model for every fold)."""
from __future__ import annotations

import threading

import numpy as np
from sklearn.base import BaseEstimator

RUNS = {}         # run id -> {"log": [(kind, tag, row ids, y)], "next": int}
_lock = threading.Lock()
TAGMOD = 16


def new_run():
    """a fresh log; the id travels as an estimator parameter, so that worker threads left over from an
    earlier (failed) brew call cannot write into this run's log"""
    rid = len(RUNS)
    RUNS[rid] = {"log": [], "next": 0}
    return rid


def log(run):
    return RUNS[run]["log"]


class TagProba(BaseEstimator):
    """predict_proba-only estimator (no calibration in brew): score = feat * 16 + tag.

    column 0 of X must be the row id, column 1 the informative integer feature."""

    def __init__(self, sign=1, run=0, tagged=True, order=False):
        self.sign = sign
        self.run = run
        self.tagged = tagged   # tags are numbered in order of first fit, i.e. they depend on thread scheduling
        self.order = order     # make the output depend on the ORDER of the rows handed to fit (a sharp probe
                               # for anything that changes the training row order)

    def fit(self, X, y):
        with _lock:
            if not hasattr(self, "tag_"):
                self.tag_ = RUNS[self.run]["next"]
                RUNS[self.run]["next"] += 1
                self.n_fit_ = 0
            self.n_fit_ += 1
            if self.order:
                import zlib
                self.h_ = zlib.crc32(np.ascontiguousarray(X[:, 0].astype(np.int64)).tobytes()) % 8
            RUNS[self.run]["log"].append(("fit", self.tag_, X[:, 0].astype(np.int64).tolist(), np.asarray(y).tolist()))
        return self

    def _score(self, X):
        with _lock:
            RUNS[self.run]["log"].append(("score", self.tag_, X[:, 0].astype(np.int64).tolist(), None))
        return self.sign * X[:, 1] * TAGMOD + (self.tag_ if self.tagged else 0) + (getattr(self, 'h_', 0) if self.order else 0)

    def predict_proba(self, X):
        return self._score(X)


class TagDecision(TagProba):
    """same, exposing decision_function (so brew calibrates per fold)"""

    def decision_function(self, X):
        return self._score(X)

    predict_proba = None


def training_rows(run, tag):
    """row ids handed to Model.fit for the instance `tag`: the first scoring call (the training loop scores
    all training rows right after the first estimator.fit)"""
    for kind, t, ids, _ in RUNS[run]["log"]:
        if kind == "score" and t == tag:
            return ids
    return None
