"""C14 — k-way merge returns every row once, globally sorted by score (correspondence harness).

Real code under test (called in-process, `observe_at` of the property):
  * mokapot.utils.merge_sort                       (row-dict merge over text / Parquet files)
  * mokapot.streaming.MergedTabularDataReader      (.read, .get_chunked_data_iterator,
    .get_row_iterator for every TableType) and mokapot.streaming.merge_readers
Lean side: driver ops `mergefiles`, `mergechecked`, `mergerechunk`, `mergecols` (model) and `spec-C14-merge`,
`spec-C14-checked` (the executable spec whose meaning is proved in C14_spec_*_iff), `stablesort` (the declarative
tie rule of C14_kmerge_eq_stable_sort / C14_checked_eq_stable_sort, cross-checked here against Python's stable sort).
"""
from __future__ import annotations

import atexit
import itertools
import json
import os
import shutil
import tempfile
from concurrent.futures import ProcessPoolExecutor
from fractions import Fraction
from pathlib import Path

import common
from common import a_bool, a_int, a_rat, dec, req

RULE = (
    "case = (1..8 inputs of 1..N rows with tie-rich integer or dyadic scores and unique row ids, direction, "
    "reader chunk size 1..N+1, storage format text/Parquet/DataFrame, entry point, sorted-as-declared or "
    "perturbed); distinct = distinct (entry, format, direction, chunk, per-input score-rank sequences); "
    "non-trivial = at least two inputs or a tie or an unsorted input; thorough adds the exhaustive sweep over "
    "all families of <=3 inputs over 3 score values (see exhaustive_sweep); further dimensions: score class "
    "(plain / differences of 2^-40 / integers next to 2^24, 2^31, 2^53), -0.0, name and position of the score "
    "column, exact duplicate rows, constructor defaults, column selection `columns=` (with the score column in any "
    "position, or without it); second pass: scores that are +inf / -inf, text files with any suffix (equal or mixed, "
    "known to from_path or not), merge_sort path lists mixing text and Parquet files, Parquet files written in "
    "several row groups, DataFrame inputs with a non-default index, ids next to 2^62, the same merger object / path "
    "list used twice (sequentially, interleaved, after an abandoned iteration) and one reader / path listed twice, "
    "inputs longer than the default chunk constants (1000 / 20000, left to their defaults), 9..40 inputs, no input, "
    "a further float column with missing cells, an empty column selection, mergers whose inputs are mergers"
)

MERGER_ENTRIES = ["read", "chunked", "rows-df", "rows-dicts", "rows-records", "merge_readers"]
EXACT_ENTRIES = ("rows-df", "rows-dicts", "rows-records", "merge_readers")

_TMP = None


def tmpdir() -> Path:
    global _TMP
    if _TMP is None or _TMP[0] != os.getpid():
        d = Path(tempfile.mkdtemp(prefix=f"c14-{os.getpid()}-"))
        _TMP = (os.getpid(), d)
        atexit.register(shutil.rmtree, str(d), True)
    return _TMP[1]


# ----------------------------------------------------------------------------
# the real code
# ----------------------------------------------------------------------------
INF = Fraction(10) ** 30   # stands for +inf in a case (and on the wire: the model only uses the order); -INF for -inf
TEXT_SUFFIXES = [".csv", ".pin", ".tab", ".psms", ".peptides", ".tsv", ".txt", ""]   # the last three: unknown to from_path


def to_float(s: Fraction, negzero: bool = False) -> float:
    if abs(s) >= INF:
        return float("inf") if s > 0 else float("-inf")
    f = float(s)
    return -0.0 if (negzero and f == 0.0) else f


def fmt_score(s: Fraction, floaty: bool, negzero: bool = False, wholetext: bool = False) -> str:
    if not floaty or (wholetext and s.denominator == 1 and abs(s) < INF):
        return str(int(s))
    return repr(to_float(s, negzero))


def score_col(case) -> str:
    return case.get("scol", "score")


def file_columns(case):
    """column order of every input: the score column first or last"""
    sc = score_col(case)
    x = ["x"] if case.get("xcol") else []   # a further float column, with missing values (NaN)
    if case.get("nopay"):      # all-numeric table: no string column
        return [sc, "id"] + x if case.get("spos", "first") == "first" else ["id"] + x + [sc]
    return [sc, "id"] + x + ["p"] if case.get("spos", "first") == "first" else ["id"] + x + ["p", sc]


def xval(rid: int):
    """the cell of column `x` in the row with this id: missing (NaN) for every third id, else a dyadic number"""
    return None if rid % 3 == 0 else Fraction(rid % 1000, 8) - 20


def expected_pay(case, rid: int, with_p=True, with_x=True):
    """canonical payload of the row `rid`: the string column, then (behind a bar) the x cell, where present"""
    p = f"r{rid}" if (with_p and not case.get("nopay")) else None
    if not (case.get("xcol") and with_x):
        return p
    v = xval(rid)
    return (p or "") + "|" + ("nan" if v is None else str(v))


def selected_columns(case):
    """`columns=` argument in real column names (None = no selection)"""
    if case.get("cols") is None:
        return None
    return [score_col(case) if c == "score" else c for c in case["cols"]]


def input_fmt(case, i):
    """storage format of input `i` (merge_sort path lists may mix text and Parquet files)"""
    return case["fmts"][i] if case.get("fmts") else case["fmt"]


def input_suffix(case, i):
    if input_fmt(case, i) == "parquet":
        return ".parquet"
    return case["sfx"][i] if case.get("sfx") else ".csv"


def write_input(i: int, rows, case):
    """materialise one input as a text file, a Parquet file or a DataFrame reader"""
    import pandas as pd
    from mokapot.tabular_data import CSVFileReader, DataFrameReader, ParquetFileReader

    fmt, floaty, negzero = input_fmt(case, i), case["floaty"], case.get("negzero", False)
    sc = score_col(case)
    order = file_columns(case)
    scores = [to_float(s, negzero) if floaty else int(s) for s, _ in rows]
    ids = [int(r) for _, r in rows]
    pay = [f"r{r}" for r in ids]
    xs = [float("nan") if xval(r) is None else float(xval(r)) for r in ids]
    if fmt == "csv":
        p = tmpdir() / f"in{i}{input_suffix(case, i)}"
        with open(p, "w") as f:
            f.write("\t".join(order) + "\n")
            for (s, r) in rows:
                cell = {sc: fmt_score(s, floaty, negzero, case.get("wholetext", False)), "id": str(r), "p": f"r{r}",
                        "x": "" if xval(r) is None else repr(float(xval(r)))}
                f.write("\t".join(cell[c] for c in order) + "\n")
        return p, CSVFileReader
    if fmt == "parquet":
        import pyarrow as pa
        import pyarrow.parquet as pq

        p = tmpdir() / f"in{i}.parquet"
        arrs = {
            sc: pa.array(scores, type=pa.float64() if floaty else pa.int64()),
            "id": pa.array(ids, type=pa.int64()),
            "p": pa.array(pay, type=pa.string()),
            "x": pa.array(xs, type=pa.float64()),     # (NaN values, not nulls)
        }
        # (`order` has no "p" for all-numeric tables); `rg`: written in row groups of that many rows, as mokapot's
        # own chunk-wise writers do
        pq.write_table(pa.table({c: arrs[c] for c in order}), p, row_group_size=case.get("rg"))
        return p, ParquetFileReader
    ser = {
        sc: pd.Series(scores, dtype="float64" if floaty else "int64"),
        "id": pd.Series(ids, dtype="int64"),
        "p": pd.Series(pay, dtype=object),
        "x": pd.Series(xs, dtype="float64"),
    }
    df = pd.DataFrame({c: ser[c] for c in order})
    how = case.get("dfindex", "range")   # the index of an input frame is no part of its rows
    n = len(df)
    if how == "shifted":
        df.index = range(7, 7 + n)
    elif how == "reversed":
        df.index = range(n - 1, -1, -1)
    elif how == "dup":
        df.index = [0] * n
    elif how == "str":
        df.index = [f"x{(3 * j) % n}" for j in range(n)]
    return df, DataFrameReader


def canon(score, rid, pay):
    """(score, id, payload) with exact scores; None for a column that was not selected"""
    if hasattr(score, "item"):
        score = score.item()
    if hasattr(rid, "item"):
        rid = rid.item()
    if isinstance(score, float) and score in (float("inf"), float("-inf")):
        score = INF if score > 0 else -INF
    return (None if score is None else Fraction(score), None if rid is None else int(rid),
            None if pay is None else str(pay))


def tag(v) -> str:
    """kind of a cell value: the merge must hand rows on unmodified, so an integer stays an integer"""
    import numpy as np

    if isinstance(v, (bool, np.bool_)):
        return "b"
    if isinstance(v, (int, np.integer)):
        return "i"
    if isinstance(v, (float, np.floating)):
        return "f"
    return type(v).__name__


def new_res():
    return dict(rows=[], err=False, exc=None, frames=None, names=None, names_mixed=False, stypes=set(), itypes=set(),
                xtypes=set())


def entry_steps(case, obj, res):
    """generator driving the entry point of `case` on `obj` (the merger object; the path list for merge_sort): one
    item of the real iterator per step, recorded in `res` (so that two such drives can be interleaved)"""
    import mokapot.streaming as S
    import mokapot.utils as U
    from mokapot.tabular_data import TableType

    out = res["rows"]
    sc = score_col(case)

    def take(names, get):
        names = [str(n) for n in names]
        if res["names"] is None:
            res["names"] = names
        elif res["names"] != names:
            res["names_mixed"] = True
        s = get(sc) if sc in names else None
        rid = get("id") if "id" in names else None
        pay = get("p") if "p" in names else None
        if "x" in names:
            x = get("x")
            res["xtypes"].add(tag(x))
            if hasattr(x, "item"):
                x = x.item()
            pay = ("" if pay is None else str(pay)) + "|" + (
                "nan" if (x is None or x != x) else (str(Fraction(x)) if isinstance(x, (int, float)) else repr(x)))
        if s is not None:
            res["stypes"].add(tag(s))
        if rid is not None:
            res["itypes"].add(tag(rid))
        out.append(canon(s, rid, pay))

    def take_frame(fr):
        names = list(fr.columns)
        data = {c: list(fr[c]) for c in names}
        for k in range(len(fr)):
            take(names, lambda c, k=k: data[c][k])

    entry = case["entry"]
    if case["kind"] == "sort":
        for r in U.merge_sort(list(obj), sc):
            take(r.keys(), r.__getitem__)
            yield
        return
    sel = selected_columns(case)
    kw = {} if sel is None else {"columns": sel}
    if entry == "merge_readers":
        readers, defaults, rcs = obj
        it = (S.merge_readers(readers, sc) if defaults
              else S.merge_readers(readers, sc, case["desc"], reader_chunk_size=rcs))
        for fr in it:
            assert len(fr) == 1, "merge_readers frame with != 1 row"
            take_frame(fr)
            yield
        return
    m = obj
    if entry == "read":
        take_frame(m.read(**kw))
        yield
    elif entry == "chunked":
        frames = []
        res["frames"] = frames
        for fr in m.get_chunked_data_iterator(chunk_size=case["outer"], **kw):
            if list(fr.index) != list(range(len(fr))):
                raise AssertionError("frame index not reset")
            n0 = len(out)
            take_frame(fr)
            frames.append(len(out) - n0)
            yield
    elif entry == "rows-df":
        for r in m.get_row_iterator(row_type=TableType.DataFrame, **kw):
            assert len(r) == 1, "row frame with != 1 row"
            take_frame(r)
            yield
    elif entry == "rows-dicts":
        for r in m.get_row_iterator(row_type=TableType.Dicts, **kw):
            take(r.keys(), r.__getitem__)
            yield
    elif entry == "rows-records":
        for r in m.get_row_iterator(row_type=TableType.Records, **kw):
            take(r.dtype.names, r.__getitem__)
            yield
    else:
        raise AssertionError(entry)


def drive(case, runs):
    """advance the step generators of `runs` = [(generator, res), …] in turn until all have ended; an exception
    ends its own generator only and is recorded in its `res`"""
    live = list(runs)
    while live:
        for g in list(live):
            try:
                next(g[0])
            except StopIteration:
                live.remove(g)
            except ValueError as e:
                if case["kind"] == "merger" and "should be" in str(e):
                    g[1]["err"] = True
                else:
                    g[1]["exc"] = f"ValueError: {e}"[:300]
                live.remove(g)
            except Exception as e:  # noqa: BLE001
                g[1]["exc"] = f"{type(e).__name__}: {e}"[:300]
                live.remove(g)


def run_impl(case):
    """call the real function of `case`; returns dict(rows, err, exc, frames, names, names_mixed, stypes, itypes)
    and, for the object re-use cases, under "second" the same for the second use of the same object / paths"""
    import mokapot.streaming as S
    import mokapot.utils as U

    import warnings

    warnings.simplefilter("ignore")   # `from_path` warns about text suffixes it does not know
    res = new_res()
    sc = score_col(case)
    reuse = case.get("reuse")
    old = U.MERGE_SORT_CHUNK_SIZE
    try:
        srcs = [write_input(i, rows, case) for i, rows in enumerate(case["inputs"])]
        if case.get("samereader"):          # one and the same reader object / path listed twice
            i, j = case["samereader"]
            srcs[j] = srcs[i]
        if case["kind"] == "sort":
            if not case.get("defchunk"):    # `defchunk`: the module constant (20000) is left as it is
                U.MERGE_SORT_CHUNK_SIZE = case["chunk"]
            obj = [p for p, _ in srcs]
        else:
            defaults = case.get("defaults", False)  # descending=True and reader_chunk_size=1000 left to the defaults
            if case.get("samereader"):
                i, j = case["samereader"]
                readers = [cls(o) for o, cls in srcs]
                readers[j] = readers[i]
            else:
                readers = [cls(o) for o, cls in srcs]
            rcs = case["chunk"]
            if case.get("nest"):
                # the inputs of the merger are themselves mergers, over consecutive groups of the readers
                inner, a = [], 0
                for m in case["nest"]:
                    inner.append(S.MergedTabularDataReader(readers[a:a + m], sc, case["desc"],
                                                           reader_chunk_size=case["chunk"]))
                    a += m
                readers, rcs = inner, case["nestc"]
            if case["entry"] == "merge_readers":
                obj = (readers, defaults, rcs)
            else:
                obj = (S.MergedTabularDataReader(readers, sc) if defaults
                       else S.MergedTabularDataReader(readers, sc, case["desc"], reader_chunk_size=rcs))
        if reuse == "abandoned":
            # an earlier, abandoned use of the same object: one item is taken from the entry point, then it is dropped
            g0 = entry_steps(case, obj, new_res())
            try:
                next(g0)
            except Exception:  # noqa: BLE001
                pass
            del g0
        if reuse in ("twice", "interleaved"):
            res2 = new_res()
            res["second"] = res2
            if reuse == "twice":
                drive(case, [(entry_steps(case, obj, res), res)])
                drive(case, [(entry_steps(case, obj, res2), res2)])
            else:
                drive(case, [(entry_steps(case, obj, res), res), (entry_steps(case, obj, res2), res2)])
        else:
            drive(case, [(entry_steps(case, obj, res), res)])
    except ValueError as e:
        res["exc"] = f"ValueError: {e}"[:300]
    except Exception as e:  # noqa: BLE001
        res["exc"] = f"{type(e).__name__}: {e}"[:300]
    finally:
        U.MERGE_SORT_CHUNK_SIZE = old
    return res


# ----------------------------------------------------------------------------
# generators
# ----------------------------------------------------------------------------
def is_sorted(rows, desc):
    s = [x for x, _ in rows]
    return all((a >= b) if desc else (a <= b) for a, b in zip(s, s[1:]))


def with_ids(score_lists, base=0):
    """row id = base + 1000 * input index + position: unique, and it names the row's origin"""
    return [[(Fraction(s), base + 1000 * i + j) for j, s in enumerate(sc)] for i, sc in enumerate(score_lists)]


COLS_WITH_SCORE = [["score", "id", "p"], ["id", "score"], ["score", "id"], ["score"], ["p", "score"],
                   ["p", "id", "score"], ["id", "p", "score"]]
COLS_WITHOUT_SCORE = [["id"], ["id", "p"], ["p"], []]
COLS_ENTRIES = ["read", "chunked", "rows-df", "rows-dicts", "rows-records"]


def gen_vals(rng, floaty, pool, sclass):
    """score values; all exactly representable as float64 (and as int64 when not floaty)"""
    if sclass == "fine":  # differences of 2^-40 around a few quarter values: lost by float32 / rounding
        bases = [Fraction(rng.randint(-8, 8), 4) for _ in range(rng.choice([1, 2, 3]))]
        return [rng.choice(bases) + Fraction(rng.randint(-3, 3), 2 ** 40) for _ in range(pool)]
    if sclass == "big":  # integers next to 2^24 (float32), 2^31 (int32), 2^53 (float64)
        anchors = [2 ** 24, 2 ** 31, 2 ** 53 - 8, -(2 ** 24), -(2 ** 31), -(2 ** 53) + 8]
        near = [rng.choice(anchors) for _ in range(rng.choice([1, 2]))]
        return [Fraction(rng.choice(near) + rng.randint(-7, 7)) for _ in range(pool)]
    if floaty:
        return [Fraction(rng.randint(-200, 200), 4) for _ in range(pool)]
    return [Fraction(rng.randint(-60, 60)) for _ in range(pool)]


def gen_case(rng, nmax=20, force_cols=False):
    k = rng.choice([1, 1, 2, 2, 2, 3, 3, 4, 5, 6, 7, 8])
    n = min(rng.choice([1, 2, 3, 3, 5, 8, 12, 20]), nmax)
    floaty = rng.random() < 0.4
    lens = [1 if rng.random() < 0.2 else rng.randint(1, n) for _ in range(k)]
    total = sum(lens)
    pool = rng.randint(1, max(1, min(total, rng.choice([2, 3, 5, 12, 40]))))
    kind = "merger" if force_cols else ("sort" if rng.random() < 0.4 else "merger")
    desc = True if kind == "sort" else (rng.random() < 0.5)
    if kind == "sort":
        fmt = rng.choice(["csv", "parquet"])
        entry = "merge_sort"
    else:
        fmt = rng.choice(["df", "df", "csv", "parquet"])
        entry = rng.choice(COLS_ENTRIES if force_cols else MERGER_ENTRIES)
    # score class: pandas' default text parser is not exact to the last bit on 17-digit decimals (trusted
    # base, not the merge), so the precision-critical float classes are generated for Parquet/DataFrame only
    sclass = rng.choice(["plain"] * 7 + ["fine"] * 2 + ["big"] * 2)
    if sclass == "fine":
        floaty = True
    if floaty and fmt == "csv":
        sclass = "plain"
    vals = gen_vals(rng, floaty, pool, sclass)
    # scores that are +inf / -inf (float columns only): they sort first / last and tie among themselves
    inf = floaty and sclass == "plain" and rng.random() < 0.15
    if inf:
        vals = vals + [INF] * rng.choice([0, 1, 1, 2]) + [-INF] * rng.choice([0, 1, 1, 2, max(1, pool)])
    lists = [sorted((rng.choice(vals) for _ in range(m)), reverse=desc) for m in lens]
    if inf and rng.random() < 0.5:
        # make sure the boundary is met: an input that ends in (descending) / starts with (ascending) -inf rows
        i = rng.randrange(k)
        lists[i] = sorted(lists[i][: max(0, len(lists[i]) - 2)] + [-INF] * rng.choice([1, 2]), reverse=desc)
    inf = inf and any(abs(x) >= INF for li in lists for x in li)
    shape = "sorted"
    if rng.random() < 0.3:
        # perturb one or two inputs so that they are not sorted as declared
        shape = "perturbed"
        for _ in range(rng.choice([1, 1, 2])):
            i = rng.randrange(k)
            li = lists[i]
            how = rng.choice(["swap", "shuffle", "reverse"] if any(abs(v) >= INF for v in vals)
                             else ["swap", "shuffle", "tail-best", "reverse"])
            if len(li) >= 2:
                if how == "swap":
                    j = rng.randrange(len(li) - 1)
                    li[j], li[j + 1] = li[j + 1], li[j]
                elif how == "shuffle":
                    rng.shuffle(li)
                elif how == "reverse":
                    li.reverse()
                else:
                    li.append(max(vals) + 1 if desc else min(vals) - 1)
    wholetext = False
    if shape == "sorted" and fmt == "csv" and floaty and not inf and rng.random() < 0.5:
        # text files in which whole numbers carry no decimal point ("5", then "4.25"): a reader chunk holding only
        # such values is parsed as integers, later chunks as floats — the merge must compare them as numbers.
        # The two best values of every input are made whole: the merger asserts equal column types, which the
        # text reader infers from the first two rows (int64 for all inputs here), and small reader chunks start
        # with an integer chunk.
        import math

        wholetext = True
        for li in lists:
            for j in range(min(len(li), 2)):
                li[j] = Fraction(math.ceil(li[j]) if desc else math.floor(li[j]))
            li.sort(reverse=desc)
    # ids next to 2^62: not representable as float64 (a detour of the rows through a float array changes them)
    idbase = (2 ** 62 + 2 * rng.randrange(2 ** 20) + 1) if rng.random() < 0.15 else 0
    inputs = with_ids(lists, idbase)
    # exact duplicate rows (same score, id, payload): twice in one input, or in two inputs
    dups = 0
    if rng.random() < 0.12:
        for _ in range(rng.choice([1, 1, 2])):
            i = rng.randrange(k)
            j = rng.randrange(len(inputs[i]))
            row = inputs[i][j]
            i2 = i if rng.random() < 0.5 else rng.randrange(k)
            if i2 == i:
                inputs[i].insert(j + 1, row)
            else:
                tgt = inputs[i2]
                pos = 0
                while pos < len(tgt) and ((tgt[pos][0] >= row[0]) if desc else (tgt[pos][0] <= row[0])):
                    pos += 1
                tgt.insert(pos, row)
            dups += 1
    # object re-use: the same merger object / the same paths used twice (one after the other, or two iterations
    # interleaved), used after an abandoned first iteration, or one reader object / path listed twice
    reuse, samereader = None, None
    if rng.random() < 0.14:
        reuse = rng.choice(["twice", "interleaved", "abandoned", "same-reader"])
        if reuse == "same-reader":
            if k >= 2:
                i, j = sorted(rng.sample(range(k), 2))
                inputs[j] = list(inputs[i])
                samereader = [i, j]
            else:
                reuse = "twice"
    if wholetext:
        # (duplicate rows inserted above may have moved a fractional value into the first two rows of an input: the
        # merger asserts equal column types, inferred from those rows — keep the option only when they agree)
        kinds = {all(Fraction(s).denominator == 1 for s, _ in x[:2]) for x in inputs}
        if len(kinds) > 1:
            wholetext = False
    total = sum(len(x) for x in inputs)
    n_eff = max(len(x) for x in inputs)
    chunk = rng.choice([1, 1, 2, n_eff, n_eff + 1, rng.randint(1, n_eff + 1)])
    outer = rng.choice([1, 2, 3, total, total + 1, rng.randint(1, total + 1)])
    scol = rng.choice(["score", "score", "score", "w", "mokapot score", "id2"])
    spos = rng.choice(["first", "first", "last"])
    negzero = floaty and rng.random() < 0.3
    defaults = False
    if kind == "merger" and desc and rng.random() < 0.12:
        defaults, chunk = True, 1000  # descending=True, reader_chunk_size=1000 are the declared defaults
    cols = None
    if kind == "merger" and entry != "merge_readers" and (force_cols or rng.random() < 0.1):
        cols = list(rng.choice(COLS_WITHOUT_SCORE if rng.random() < 0.12 else COLS_WITH_SCORE))
    # stacked mergers: consecutive groups of the inputs are merged first, the merged streams afterwards
    nest, nestc = None, None
    if kind == "merger" and cols is None and rng.random() < 0.12:
        cuts = sorted(rng.sample(range(1, k), rng.randint(0, min(k - 1, 3)))) if k > 1 else []
        bounds = [0] + cuts + [k]
        nest = [b - a for a, b in zip(bounds, bounds[1:])]
        nestc = rng.choice([1, 2, 3, total, rng.randint(1, total + 1)])
        if defaults:
            defaults, chunk = False, rng.choice([1, 2, n_eff + 1])
    nopay = cols is None and rng.random() < 0.15
    xcol = cols is None and rng.random() < 0.15     # a further float column in which every third cell is missing
    case = dict(kind=kind, inputs=inputs, desc=desc, chunk=chunk, fmt=fmt, entry=entry, outer=outer, nopay=nopay,
                floaty=floaty, shape=shape, sclass=sclass, scol=scol, spos=spos, negzero=negzero,
                defaults=defaults, cols=cols, dups=dups, wholetext=wholetext, inf=inf, idbase=idbase,
                reuse=reuse, samereader=samereader, xcol=xcol, nest=nest, nestc=nestc)
    # --- storage forms -------------------------------------------------------------------------------------
    # text files: the suffix (merge_sort looks at the suffix of the first path only; from_path knows a list of text
    # suffixes and reads every other one as text after a warning) — equal for all inputs, or mixed
    r = rng.random()
    if r < 0.4:
        sfx = [".csv"] * k
    elif r < 0.75:
        sfx = [rng.choice(TEXT_SUFFIXES)] * k
    else:
        sfx = [rng.choice(TEXT_SUFFIXES) for _ in range(k)]
    case["sfx"] = sfx
    # merge_sort on a path list that mixes text and Parquet files: read correctly when the first path is text,
    # refused (pyarrow error) when the first path is Parquet
    if kind == "sort" and k >= 2 and not wholetext and cols is None and rng.random() < 0.1:
        first = rng.choice(["csv", "csv", "parquet"])
        other = "parquet" if first == "csv" else "csv"
        fmts = [first] + [rng.choice(["csv", "parquet"]) for _ in range(k - 1)]
        if other not in fmts[1:]:
            fmts[rng.randrange(1, k)] = other
        if samereader:
            fmts[samereader[1]] = fmts[samereader[0]]
        if floaty and "csv" in fmts and sclass != "plain":
            fmts = None   # (precision-critical float classes are not written as text, see above)
        case["fmts"] = fmts
        if fmts is not None and fmts[0] == "parquet" and "csv" in fmts:
            case["shape"] = "mixed-parquet-first"
    # Parquet files written in several row groups
    uses_pq = fmt == "parquet" or "parquet" in (case.get("fmts") or [])
    case["rg"] = rng.choice([1, 2, 3, rng.randint(1, n_eff)]) if (uses_pq and rng.random() < 0.5) else None
    # DataFrame inputs whose index is not 0..n-1
    case["dfindex"] = rng.choice(["range", "range", "range", "shifted", "reversed", "dup", "str"]) if fmt == "df" else "range"
    return case


def gen_empty(rng):
    """boundary: an input without rows (outside the property's quantifier; the code raises)"""
    c = gen_case(rng, 4)
    c["shape"] = "empty-input"
    lists = [[s for s, _ in rows] for rows in c["inputs"]]
    lists[rng.randrange(len(lists))] = []
    c["inputs"] = with_ids(lists, c.get("idbase", 0))
    c.update(samereader=None, reuse=None, fmts=None, nest=None)
    return c


def gen_noinput(rng, kind):
    """boundary: no input at all (outside the property's quantifier; the code raises)"""
    c = gen_case(rng, 3)
    c.update(kind=kind, inputs=[], shape="no-input", samereader=None, reuse=None, fmts=None, cols=None, sfx=[], nest=None,
             desc=True if kind == "sort" else c["desc"], fmt="csv" if kind == "sort" else c["fmt"],
             entry="merge_sort" if kind == "sort" else rng.choice(MERGER_ENTRIES), dups=0, wholetext=False)
    return c


BIG_KINDS = ["merger-default-chunk", "many-inputs", "sort-default-chunk"]


def gen_big(rng, which, fmt=None):
    """size: an input longer than the *default* chunk constant (reader_chunk_size = 1000 of the table merger,
    MERGE_SORT_CHUNK_SIZE = 20000 of merge_sort, both left to their defaults), or many more inputs than usual"""
    floaty = rng.random() < 0.5
    vals = [Fraction(rng.randint(-200, 200), 4 if floaty else 1) for _ in range(rng.choice([3, 40, 400]))]
    c = dict(nopay=rng.random() < 0.2, floaty=floaty, sclass="plain", scol="score", spos="first", negzero=False,
             defaults=False, cols=None, dups=0, wholetext=False, inf=False, idbase=0, reuse=None, samereader=None,
             rg=None, dfindex="range", shape="sorted", big=which)
    if which == "many-inputs":
        k = rng.randint(9, 40)
        lens = [rng.randint(1, 3) for _ in range(k)]
        kind = rng.choice(["sort", "merger"])
        desc = True if kind == "sort" else rng.random() < 0.5
        chunk = rng.choice([1, 2, 4])
        c.update(kind=kind, desc=desc, chunk=chunk, fmt=rng.choice(["csv", "parquet"] if kind == "sort" else ["df", "csv", "parquet"]),
                 entry="merge_sort" if kind == "sort" else rng.choice(MERGER_ENTRIES))
    elif which == "merger-default-chunk":
        k = rng.choice([2, 3])
        lens = [rng.randint(1001, 1250)] + [rng.randint(1, 300) for _ in range(k - 1)]
        rng.shuffle(lens)
        desc = True
        c.update(kind="merger", desc=True, chunk=1000, defaults=True, fmt=rng.choice(["df", "csv", "parquet"]),
                 entry=rng.choice(MERGER_ENTRIES))
    else:
        k = 2
        lens = [rng.randint(20001, 20040), rng.randint(1, 60)]
        rng.shuffle(lens)
        desc = True
        c.update(kind="sort", desc=True, chunk=20000, defchunk=True, fmt=rng.choice(["csv", "parquet"]),
                 entry="merge_sort", huge=True)
    lists = [sorted((rng.choice(vals) for _ in range(m)), reverse=desc) for m in lens]
    if which == "merger-default-chunk" and rng.random() < 0.4:
        # the only out-of-order step of the long input lies exactly on the border between two default-size chunks
        li = max(lists, key=len)
        li[1000] = li[999] + 1
        c["shape"] = "perturbed"
    if fmt is not None:
        c["fmt"] = fmt
    if c["fmt"] == "parquet" and rng.random() < 0.5:
        c["rg"] = rng.choice([64, 300, 999])
    c["inputs"] = with_ids([[s for s in li] for li in lists])
    # (ids: 1000 * input + position would collide for long inputs)
    c["inputs"] = [[(s, 100000 * i + j) for j, (s, _) in enumerate(rows)] for i, rows in enumerate(c["inputs"])]
    total = sum(lens)
    c["outer"] = rng.choice([1, 7, 500, total, total + 1])
    c["sfx"] = [rng.choice(TEXT_SUFFIXES)] * k
    return c


def exhaustive_cases(tier):
    """all families of inputs over 3 score values:
    merger: k<=2 inputs of length<=4, k=3 inputs of length<=2, k=4 inputs of length<=2 over 2 values —
            every sequence, sorted or not, both directions, chunk sizes 1..len+1, entry points rotated;
    merge_sort: every sorted family among them (text; Parquet too for k<=2)"""
    vals = [0, 1, 2]
    seqs3 = [list(t) for n in (1, 2, 3) for t in itertools.product(vals, repeat=n)]
    seqs2 = [s for s in seqs3 if len(s) <= 2]
    fams = [[a] for a in seqs3] + [[a, b] for a in seqs3 for b in seqs3]
    if tier == "thorough":
        fams += [[a, b, c] for a in seqs2 for b in seqs2 for c in seqs2]
        seqs4 = seqs3 + [list(t) for t in itertools.product(vals, repeat=4)]
        fams += [[a, b] for a in seqs4 for b in seqs4 if len(a) == 4 or len(b) == 4]
        bin2 = [list(t) for n in (1, 2) for t in itertools.product([0, 1], repeat=n)]
        fams += [[a, b, c, d] for a in bin2 for b in bin2 for c in bin2 for d in bin2]
    else:
        fams = [f for f in fams if sum(len(x) for x in f) <= 4]
    cases = []
    e = 0
    for fam in fams:
        nmax = max(len(x) for x in fam)
        tot = sum(len(x) for x in fam)
        for desc in (True, False):
            for chunk in range(1, nmax + 2):
                entry = MERGER_ENTRIES[e % len(MERGER_ENTRIES)]
                e += 1
                cases.append(dict(kind="merger", inputs=with_ids(fam), desc=desc, chunk=chunk, fmt="df",
                                  entry=entry, outer=1 + (e % (tot + 1)), floaty=False, shape="exhaustive"))
        if all(is_sorted([(s, 0) for s in x], True) for x in fam):
            for chunk in range(1, nmax + 2):
                fmts = ["csv", "parquet"] if (len(fam) <= 2 and tier == "thorough") else ["csv"]
                for fmt in fmts:
                    cases.append(dict(kind="sort", inputs=with_ids(fam), desc=True, chunk=chunk, fmt=fmt,
                                      entry="merge_sort", outer=1, floaty=False, shape="exhaustive"))
    return cases


# ----------------------------------------------------------------------------
# evaluation
# ----------------------------------------------------------------------------
def wire_inputs(case):
    return [[[s, r] for s, r in rows] for rows in case["inputs"]]


def wire_rows(rows):
    return [[s, r] for s, r, _ in rows]


def parse_rows(v):
    return [(a_rat(x[0]), a_int(x[1])) for x in v]


def jsonable(case):
    d = dict(case)
    d["inputs"] = [[[str(s), r] for s, r in rows] for rows in case["inputs"]]
    return d


def from_json(d):
    c = dict(d)
    c["inputs"] = [[(Fraction(s), int(r)) for s, r in rows] for rows in d["inputs"]]
    return c


def pattern_key(case):
    vals = sorted({s for rows in case["inputs"] for s, _ in rows})
    rank = {s: i for i, s in enumerate(vals)}
    rk = tuple(tuple(rank[s] for s, _ in rows) for rows in case["inputs"])
    cols = case.get("cols")
    fm = case.get("fmts")
    return (case["entry"], case["fmt"], case["desc"], case["chunk"], rk, None if cols is None else tuple(cols),
            case.get("defaults", False), case.get("spos", "first"), case.get("sclass", "plain"),
            None if fm is None else tuple(fm), case.get("reuse"), case.get("rg"),
            None if not case.get("nest") else (tuple(case["nest"]), case["nestc"]))


def nontrivial(case):
    scores = [s for rows in case["inputs"] for s, _ in rows]
    return (len(case["inputs"]) >= 2 or len(set(scores)) < len(scores)
            or not all(is_sorted(r, case["desc"]) for r in case["inputs"]))


_POOL = None


def impl_results(cases):
    global _POOL
    if len(cases) < 1500 or os.environ.get("C14_NO_POOL"):
        return [run_impl(c) for c in cases]
    if _POOL is None:
        import multiprocessing as mp

        _POOL = ProcessPoolExecutor(max_workers=min(12, os.cpu_count() or 1), mp_context=mp.get_context("spawn"))
    # the long cases one by one (and first), so that they are spread over the workers; the others in batches
    big = [i for i, c in enumerate(cases) if c.get("big")]
    futs = [(i, _POOL.submit(run_impl, cases[i])) for i in big]
    rest = [i for i, c in enumerate(cases) if not c.get("big")]
    out = [None] * len(cases)
    for i, r in zip(rest, _POOL.map(run_impl, [cases[i] for i in rest], chunksize=64)):
        out[i] = r
    for i, f in futs:
        out[i] = f.result()
    return out


def wire_cols(case):
    """`columns=` on the wire: 0 = score, 1 = id (the payload column is not part of the model's rows)"""
    return [0 if x == "score" else 1 for x in case["cols"] if x != "p"]


DELIVER_ENTRIES = ("chunked", "merge_readers", "read")


def path_suffixes(case):
    """the suffixes of the paths actually handed to merge_sort"""
    src = list(range(len(case["inputs"])))
    if case.get("samereader"):
        i, j = case["samereader"]
        src[j] = i
    return [input_suffix(case, i) for i in src]


def all_parquet(case):
    return case["fmt"] == "parquet" and not case.get("fmts")


def eval_cases(chk, cases, tally=True):
    """run the real code and the Lean driver on `cases`; classify disagreements"""
    results = impl_results(cases)
    lines, idx = [], []

    def ask(ix, name, line):
        ix[name] = len(lines)
        lines.append(line)

    for c, r in zip(cases, results):
        ins = wire_inputs(c)
        ix = {}
        idx.append(ix)
        if c.get("cols") is not None:
            ask(ix, "model", req("mergecols", c["desc"], c["chunk"], wire_cols(c), ins))
            if c["entry"] == "chunked":
                ask(ix, "rechunk", req("mergerechunk", c["outer"], [[0, k] for k in range(len(r["rows"]))]))
            continue
        out = wire_rows(r["rows"])
        huge = bool(c.get("huge"))   # (the Lean spec checkers are quadratic: restated in Python for these)
        if c["kind"] == "sort":
            if all_parquet(c) and c.get("rg"):
                ask(ix, "model", req("mergegroups", c["rg"], c["chunk"], ins))
            elif "sfx" in c or c.get("fmts"):
                ask(ix, "model", req("mergepaths", c["chunk"], path_suffixes(c), ins))
            else:
                ask(ix, "model", req("mergefiles", c["chunk"], ins))
            if not huge:
                ask(ix, "spec", req("spec-C14-merge", ins, out))
        else:
            if c.get("nest"):
                groups, a = [], 0
                for m in c["nest"]:
                    groups.append(ins[a:a + m])
                    a += m
                ask(ix, "model", req("mergenested", c["desc"], c["chunk"], c["nestc"], groups))
            elif all_parquet(c) and c.get("rg"):
                ask(ix, "model", req("mergecheckedgroups", c["desc"], c["rg"], c["chunk"], ins))
            else:
                ask(ix, "model", req("mergechecked", c["desc"], c["chunk"], ins))
            ask(ix, "spec", req("spec-C14-checked", c["desc"], ins, out, bool(r["err"])))
            if c["entry"] == "chunked":
                ask(ix, "rechunk", req("mergerechunk", c["outer"], out))
            if c.get("nest"):
                pass    # (what the entry points hand on is derived below from the model's rows, as for `columns=`)
            elif c["entry"] == "read":
                ask(ix, "deliver", req("mergeread", c["desc"], c["chunk"], ins))
            elif c["entry"] in DELIVER_ENTRIES:
                ask(ix, "deliver", req("mergeframes", c["desc"], c["chunk"],
                                       c["outer"] if c["entry"] == "chunked" else 1, ins))
        if not huge:
            ask(ix, "stable", req("stablesort", c["desc"], ins))
    resp = common.driver_batch(lines)
    for c, r, ix in zip(cases, results, idx):
        n_sv, n_cb = len(chk.spec_violations), len(chk.corr_breaks)
        classify(chk, c, r, resp, ix, tally)
        if r.get("second") is not None and (n_sv, n_cb) == (len(chk.spec_violations), len(chk.corr_breaks)):
            check_second(chk, c, r)


def expected_triple(c, s, rid):
    """the canonical (score, id, payload) triple under which an input row must come out in case `c`"""
    cols = c.get("cols")
    if cols is None:
        return (s, rid, expected_pay(c, rid))
    return (s if "score" in cols else None, rid if "id" in cols else None,
            expected_pay(c, rid, with_p="p" in cols, with_x=False))


def py_spec(c, rows, err):
    """the property restated directly on canonical row triples (for the second use of a re-used object and for the
    very long inputs; cross-checked against the Lean spec op on all other cases)"""
    from collections import Counter

    pool = Counter(expected_triple(c, s, rid) for x in c["inputs"] for s, rid in x)
    got = Counter(rows)
    desc = c["desc"]
    unsorted_in = not all(is_sorted(x, desc) for x in c["inputs"])
    sc = [t[0] for t in rows]
    ordered = all((a >= b) if desc else (a <= b) for a, b in zip(sc, sc[1:]))
    if c["kind"] == "sort":
        if got != pool:
            return "fail-perm"
        return "ok" if (unsorted_in or ordered) else "fail-sorted"
    if bool(err) != unsorted_in:
        return "fail-error-iff-unsorted"
    if not ordered:
        return "fail-sorted"
    if not err and got != pool:
        return "fail-perm"
    if err and (got - pool):
        return "fail-subperm"
    return "ok"


def check_second(chk, c, r):
    """object re-use: the second use of the same merger object / path list (after, or interleaved with, the first —
    which has just been checked in full) must deliver exactly what the first one delivered"""
    s2 = r["second"]
    keys = ("rows", "err", "exc", "frames", "names", "names_mixed", "stypes", "itypes", "xtypes")
    if all(s2[k] == r[k] for k in keys):
        return
    info = dict(case=jsonable(c), impl=[[None if s is None else str(s), i] for s, i, _ in r["rows"]],
                impl_raised=r["err"], impl_exception=r["exc"],
                second=[[None if s is None else str(s), i] for s, i, _ in s2["rows"]], second_raised=s2["err"],
                second_exception=s2["exc"], reuse=c.get("reuse"))
    entry = c["entry"]
    if s2["exc"] is not None:
        chk.spec_violation(f"reuse:{entry}:exception:{s2['exc'].split(':')[0]}",
                           dict(info, clause="the second use of the same object raised where the first did not"))
        return
    cols = c.get("cols")
    if cols is None or "score" in cols:
        clause = py_spec(c, s2["rows"], s2["err"])
        if clause != "ok":
            chk.spec_violation(f"reuse:{entry}:{clause}",
                               dict(info, clause=f"{clause} on the second use of the same object ({c.get('reuse')})"))
            return
    if s2["names"] != r["names"] or s2["stypes"] != r["stypes"] or s2["itypes"] != r["itypes"]:
        chk.spec_violation(f"reuse:{entry}:row-modified",
                           dict(info, clause="column names / cell kinds differ on the second use of the same object"))
        return
    chk.corr_break("reuse", dict(info, note="the second use of the same object satisfies the spec but does not deliver "
                                            "what the first use delivered (the model is a function of the inputs)"))


def stable_oracle(c):
    """the declarative tie rule restated with Python's (stable) sort: the inputs written one after the other,
    sorted by score in the declared direction, rows of equal score in their original order"""
    flat = [(s, rid) for rows in c["inputs"] for s, rid in rows]
    return sorted(flat, key=lambda t: t[0], reverse=bool(c["desc"]))


def check_tie_rule(chk, c, info, impl_rows, stable_line):
    """inputs sorted as declared and no error: the rows must come out in exactly the stable order"""
    oracle = stable_oracle(c)
    if stable_line is None:     # very long inputs: the (quadratic) Lean spec function is not evaluated
        stable_line = "<not evaluated>"
    else:
        v = dec(stable_line)
        spec_rows = parse_rows(v) if v != [] else []
        if spec_rows != oracle:
            chk.corr_break("stablesort-spec", dict(info, model=stable_line.strip(), oracle=[[str(a), b] for a, b in oracle]))
            return False
    if impl_rows != oracle:
        chk.corr_break("tie-order", dict(info, model=stable_line.strip(),
                                         note="order and content satisfy the spec, but rows of equal score do not "
                                              "come out in (input index, position) order as the model's tie rule says"))
        return False
    return True


def classify_cols(chk, c, r, resp, ix, info):
    """`columns=` cases: spec restated directly on the projected rows, then the model (`mergecols`)"""
    from collections import Counter

    model = resp[ix["model"]].strip()
    entry, cols = c["entry"], c["cols"]
    if "score" not in cols:
        # the priority column was not selected: nothing is promised; the model says the code refuses
        if r["exc"] is not None:
            chk.reject("columns-without-priority:" + r["exc"].split(":")[0])
            if model != "reject-nokey":
                chk.corr_break("mergecols-nokey", dict(info, model=model))
        else:
            chk.corr_break("mergecols-nokey", dict(info, model=model))
        return
    if r["exc"] is not None and c.get("wholetext") and "Column types do not match" in r["exc"]:
        # the merger's own precondition (equal column types, which the text reader infers from the first two rows)
        chk.reject("inputs-with-different-inferred-column-types")
        return
    if r["exc"] is not None:
        chk.spec_violation(f"exception:{entry}:columns:{r['exc'].split(':')[0]}",
                           dict(info, clause="the merge raised although the selection keeps the priority column"))
        return
    if r["rows"] and (r["names"] != selected_columns(c) or r["names_mixed"]):
        chk.spec_violation(f"columns:{entry}:names", dict(info, names=r["names"], clause="rows do not carry exactly the "
                                                          "selected columns in the selected order"))
        return

    def proj(s, rid):
        return expected_triple(c, s, rid)

    pool = Counter(proj(s, rid) for rows in c["inputs"] for s, rid in rows)
    got = Counter(r["rows"])
    unsorted = not all(is_sorted(x, c["desc"]) for x in c["inputs"])
    scores = [row[0] for row in r["rows"]]
    clause = None
    if bool(r["err"]) != unsorted:
        clause = "fail-error-iff-unsorted"
    elif not all((a >= b) if c["desc"] else (a <= b) for a, b in zip(scores, scores[1:])):
        clause = "fail-sorted"
    elif not r["err"] and got != pool:
        clause = "fail-perm"
    elif r["err"] and (got - pool):
        clause = "fail-subperm"
    elif r["rows"] and not c.get("wholetext") and (r["stypes"] != ({"f"} if c["floaty"] else {"i"}) or ("id" in cols and r["itypes"] != {"i"})):
        clause = "row-modified:type"
    if clause is not None:
        chk.spec_violation(f"columns:{entry}:{clause}", dict(info, expected=model, clause=clause))
        return
    d = dec(model)
    mrows = [[a_rat(x) for x in row] for row in d[0]] if d[0] != [] else []
    merr = a_bool(d[1])
    impl_rows = [[(row[0] if x == "score" else Fraction(row[1])) for x in cols if x != "p"] for row in r["rows"]]
    if merr != bool(r["err"]):
        chk.corr_break("mergecols", dict(info, model=model))
        return
    if entry in EXACT_ENTRIES or not merr:
        seen = mrows
    elif entry == "read":
        seen = []
    else:
        seen = mrows[: (len(mrows) // c["outer"]) * c["outer"]]
    if impl_rows != seen:
        chk.corr_break("mergecols", dict(info, model=model))
        return
    if entry == "chunked":
        frames = r["frames"]
        fm = dec(resp[ix["rechunk"]])
        fm = [len(x) for x in fm] if fm != [] else []
        if sum(frames) != len(impl_rows) or any(f < 1 or f > c["outer"] for f in frames):
            chk.spec_violation("chunked:frames", dict(info, frames=frames, clause="empty or oversize frame"))
        elif frames != fm:
            chk.corr_break("rechunk", dict(info, frames=frames, model=fm))


def check_delivery(chk, c, r, info, impl_rows, line):
    """C14_frames_delivered / C14_merge_readers_delivers_all: what the entry point handed on — frame by frame, and
    whether the ValueError followed — must be exactly what the model of the entry point says"""
    d = dec(line)
    merr = a_bool(d[1])
    if c["entry"] == "read":
        mframes = [parse_rows(d[0])] if d[0] != [] else []
        iframes = [impl_rows] if impl_rows else []
    else:
        mframes = [parse_rows(f) for f in d[0]] if d[0] != [] else []
        sizes = r["frames"] if c["entry"] == "chunked" else [1] * len(impl_rows)
        iframes, k = [], 0
        for n in sizes:
            iframes.append(impl_rows[k:k + n])
            k += n
    if merr != bool(r["err"]) or iframes != mframes:
        chk.corr_break("mergeframes" if c["entry"] != "read" else "mergeread",
                       dict(info, frames=[len(f) for f in iframes], model=line.strip()))
        return False
    return True


def classify(chk, c, r, resp, ix, tally=True):
    model = resp[ix["model"]].strip()
    with_cols = c.get("cols") is not None
    spec = "" if with_cols else (resp[ix["spec"]].strip() if "spec" in ix else py_spec(c, r["rows"], r["err"]))
    info = dict(case=jsonable(c), impl=[[None if s is None else str(s), i] for s, i, _ in r["rows"]],
                impl_raised=r["err"], impl_exception=r["exc"])
    entry = c["entry"]
    has_empty = any(len(x) == 0 for x in c["inputs"]) or len(c["inputs"]) == 0
    if tally:
        chk.case(None, pattern_key(c) if nontrivial(c) else None,
                 sample=dict(entry=entry, fmt=c["fmt"], desc=c["desc"], chunk=c["chunk"],
                             inputs=[[str(s) for s, _ in rows] for rows in c["inputs"]], columns=c.get("cols"),
                             impl=[str(s) for s, _, _ in r["rows"]], raised=r["err"], model=model[:200]))
        chk.count("entry", entry)
        chk.count("fmt", c["fmt"])
        chk.count("k", len(c["inputs"]))
        chk.count("desc", c["desc"])
        chk.count("shape", c["shape"])
        n = max([len(x) for x in c["inputs"]] + [0])
        chk.count("max_rows", n if n < 6 else (n // 5) * 5)
        chk.count("chunk_vs_rows", "1" if c["chunk"] == 1 else ("<n" if c["chunk"] < n else ("=n" if c["chunk"] == n else ">n")))
        scores = [s for rows in c["inputs"] for s, _ in rows]
        chk.count("ties", len(set(scores)) < len(scores))
        chk.count("scores", "dyadic" if c["floaty"] else "int")
        chk.count("score_class", c.get("sclass", "plain"))
        chk.count("text_whole_numbers_without_point", bool(c.get("wholetext")))
        chk.count("all_numeric_table", bool(c.get("nopay")))
        chk.count("float_column_with_missing_cells", bool(c.get("xcol")))
        chk.count("score_column", f"{score_col(c)}/{c.get('spos', 'first')}")
        chk.count("neg_zero", bool(c.get("negzero")) and any(s == 0 for s in scores))
        chk.count("duplicate_rows", min(c.get("dups", 0), 2))
        chk.count("ctor_defaults", bool(c.get("defaults")))
        cols = c.get("cols")
        chk.count("columns", "none" if cols is None else ("without-score" if "score" not in cols else
                                                          f"score@{cols.index('score')}/{len(cols)}"))
        # second pass
        chk.count("inf_scores", "+".join(t for t, v in (("+inf", INF), ("-inf", -INF)) if v in scores) or "none")
        if c["fmt"] == "csv" and c.get("sfx"):
            sf = set(c["sfx"])
            chk.count("text_suffix", "mixed" if len(sf) > 1 else (next(iter(sf)) or "<none>"))
        fm = c.get("fmts")
        chk.count("path_list", "one format" if (not fm or len(set(fm)) == 1) else (
            "text first, then Parquet" if fm[0] == "csv" else "Parquet first, then text (refused)"))
        if c["fmt"] == "parquet" or (fm and "parquet" in fm):
            chk.count("parquet_row_groups", "one" if not c.get("rg") else
                      ("several" if c["rg"] < n else "one"))
        if c["fmt"] == "df":
            chk.count("frame_index", c.get("dfindex", "range"))
        chk.count("object_reuse", c.get("reuse") or "none")
        chk.count("stacked_mergers", "no" if not c.get("nest") else f"{min(len(c['nest']), 3)} inner")
        chk.count("ids", "next to 2^62" if c.get("idbase") else "small")
        chk.count("size", c.get("big") or "ordinary")
        chk.count("merge_sort_chunk_constant", "module default" if c.get("defchunk") else "set")
    # --- boundary: an input without rows -------------------------------------
    if has_empty:
        if r["exc"] is not None or r["err"]:
            chk.reject(("no-input:" if not c["inputs"] else "empty-input:") + (r["exc"] or "ValueError").split(":")[0])
            if model != "reject-empty":
                chk.corr_break("merge-empty", dict(info, model=model))
        elif model == "reject-empty":
            chk.corr_break("merge-empty", dict(info, model=model))
        return
    if with_cols:
        classify_cols(chk, c, r, resp, ix, info)
        return
    fm = c.get("fmts")
    if fm and fm[0] == "parquet" and "csv" in fm:
        # a path list whose first file is Parquet and that contains a text file: merge_sort opens every path with
        # pyarrow (C14_paths_raises_iff); outside the property ("text or Parquet"), the model says the code refuses
        if r["exc"] is not None:
            chk.reject("mixed-list-parquet-first:" + r["exc"].split(":")[0])
            if model != "reject-empty":
                chk.corr_break("mergepaths-mixed", dict(info, model=model))
        else:
            chk.corr_break("mergepaths-mixed", dict(info, model=model))
        return
    # --- the property promises success on every non-empty input family ---------
    if r["exc"] is not None and c.get("wholetext") and "Column types do not match" in r["exc"]:
        # the merger's own precondition (equal column types, which the text reader infers from the first two rows)
        chk.reject("inputs-with-different-inferred-column-types")
        return
    if r["exc"] is not None:
        chk.spec_violation(f"exception:{entry}:{r['exc'].split(':')[0]}",
                           dict(info, clause="the merge raised on inputs inside the property's quantifier"))
        return
    orig = {rid: s for rows in c["inputs"] for s, rid in rows}
    for s, rid, pay in r["rows"]:
        if pay != expected_pay(c, rid) or orig.get(rid) != s:
            chk.spec_violation(f"row-modified:{entry}",
                               dict(info, clause=f"row id={rid} came out as score={s} payload={pay}"))
            return
    if r["rows"] and (r["names"] != file_columns(c) or r["names_mixed"]):
        chk.spec_violation(f"row-modified:{entry}:columns",
                           dict(info, names=r["names"], clause="rows do not carry the columns of the inputs, in order"))
        return
    if r["rows"] and c.get("xcol") and r["xtypes"] != {"f"}:
        chk.spec_violation(f"row-modified:{entry}:type",
                           dict(info, x_kinds=sorted(r["xtypes"]),
                                clause="a float cell (NaN included) came out as a value of another kind"))
        return
    if r["rows"] and not c.get("wholetext") and (r["stypes"] != ({"f"} if c["floaty"] else {"i"}) or r["itypes"] != {"i"}):
        chk.spec_violation(f"row-modified:{entry}:type",
                           dict(info, score_kinds=sorted(r["stypes"]), id_kinds=sorted(r["itypes"]),
                                clause="an integer/float cell came out as a value of another kind"))
        return
    if spec != "ok":
        chk.spec_violation(f"{entry}:{spec}", dict(info, expected=model, clause=spec))
        return
    if "spec" in ix and len(r["rows"]) <= 200 and py_spec(c, r["rows"], r["err"]) != "ok":
        # the Python restatement of the spec (used for re-use and very long inputs) disagrees with the Lean spec op
        chk.corr_break("py-spec", dict(info, lean_spec=spec, py_spec=py_spec(c, r["rows"], r["err"])))
        return
    if r["err"]:
        # C14_checked_yields_prefix, restated on scores (independent of the tie order): what was yielded
        # before the ValueError is a prefix of the sorted scores of the inputs cut at their first violation
        cut = []
        for rows in c["inputs"]:
            sc = [s for s, _ in rows]
            j = 1
            while j < len(sc) and ((sc[j] <= sc[j - 1]) if c["desc"] else (sc[j] >= sc[j - 1])):
                j += 1
            cut += sc[:j]
        cut.sort(reverse=c["desc"])
        got = [s for s, _, _ in r["rows"]]
        if got != cut[: len(got)]:
            chk.spec_violation(f"{entry}:fail-error-prefix",
                               dict(info, expected=model, clause="rows before the error are not a prefix of the "
                                    "merge of the sorted prefixes"))
            return
    # --- correspondence with the model (canonical: score sequence + row multiset) ---
    impl_rows = [(s, i) for s, i, _ in r["rows"]]
    if c["kind"] == "sort":
        mrows = parse_rows(dec(model)) if model != "[]" else []
        all_sorted = all(is_sorted(x, True) for x in c["inputs"])
        same_set = sorted(impl_rows) == sorted(mrows)
        same_seq = [s for s, _ in impl_rows] == [s for s, _ in mrows]
        if not same_set or (all_sorted and not same_seq):
            chk.corr_break("mergefiles", dict(info, model=model))
            return
        tie_tally(chk, "merge_sort", impl_rows == mrows)
        if all_sorted:
            # C14_kmerge_eq_stable_sort: the result is determined row by row
            check_tie_rule(chk, c, info, impl_rows, resp[ix["stable"]] if "stable" in ix else None)
        return
    d = dec(model)
    mrows = parse_rows(d[0]) if d[0] != [] else []
    merr = a_bool(d[1])
    if merr != bool(r["err"]):
        chk.corr_break("mergechecked", dict(info, model=model))
        return
    if entry in EXACT_ENTRIES or not merr:
        seen = mrows
    elif entry == "read":
        seen = []
    else:  # chunked: only complete frames were delivered before the error
        seen = mrows[: (len(mrows) // c["outer"]) * c["outer"]]
    if merr:
        # which rows precede the ValueError depends on the tie order, which the property leaves open: the spec
        # (sorted, distinct input rows, error iff unsorted) was checked above; the model's first-index tie rule
        # (np.argmax / np.argmin) fixes the yielded prefix exactly, and the real code must agree with it
        tie_tally(chk, "merger-prefix-before-error", impl_rows == seen)
        if impl_rows != seen:
            chk.corr_break("mergechecked-prefix", dict(info, model=model))
            return
    else:
        if [s for s, _ in impl_rows] != [s for s, _ in seen] or sorted(impl_rows) != sorted(seen):
            chk.corr_break("mergechecked", dict(info, model=model))
            return
        tie_tally(chk, "merger", impl_rows == seen)
        # C14_checked_eq_stable_sort: no error, so every input is sorted as declared and the result is the stable sort
        if not check_tie_rule(chk, c, info, impl_rows, resp[ix["stable"]] if "stable" in ix else None):
            return
    if entry == "chunked":
        frames = r["frames"]
        fm = dec(resp[ix["rechunk"]])
        fm = [len(x) for x in fm] if fm != [] else []
        if sum(frames) != len(impl_rows) or any(f < 1 or f > c["outer"] for f in frames):
            chk.spec_violation("chunked:frames", dict(info, frames=frames, clause="empty or oversize frame"))
            return
        if frames != fm:
            chk.corr_break("rechunk", dict(info, frames=frames, model=fm))
            return
    if entry in DELIVER_ENTRIES and "deliver" in ix:
        check_delivery(chk, c, r, info, impl_rows, resp[ix["deliver"]])


def tie_tally(chk, which, same):
    """informational: does the real tie order equal the model's first-input-wins order?"""
    t = chk.extra.setdefault("tie_order_agreement", {})
    a, b = (int(x) for x in t.get(which, "0/0").split("/"))  # kept printable: the search runs inside finish()
    t[which] = f"{a + (1 if same else 0)}/{b + 1}"


# ----------------------------------------------------------------------------
# shrinking, search, entry points
# ----------------------------------------------------------------------------
def minimise(chk):
    if not chk.spec_violations:
        return
    # start from the smallest failing case seen (the long inputs are evaluated first)
    small = min(range(len(chk.spec_violations)),
                key=lambda i: (sum(len(x) for x in chk.spec_violations[i][1]["case"]["inputs"])
                               if "case" in chk.spec_violations[i][1] else 10 ** 9, i))
    chk.spec_violations.insert(0, chk.spec_violations.pop(small))
    sig, info = chk.spec_violations[0]
    if "case" not in info:
        return
    c0 = from_json(info["case"])
    flat = [(i, s) for i, rows in enumerate(c0["inputs"]) for s, _ in rows]

    def rebuild(items):
        groups = {}
        for i, s in items:
            groups.setdefault(i, []).append(s)
        lists = [groups[i] for i in sorted(groups)]
        c = dict(c0, inputs=with_ids(lists, c0.get("idbase", 0)))
        if len(lists) != len(c0["inputs"]):   # per-input options no longer fit
            c.update(samereader=None, fmts=None, sfx=[(c0.get("sfx") or [".csv"])[0]] * len(lists))
            if c0.get("nest"):
                c["nest"] = [len(lists)]
            if c.get("reuse") == "same-reader":
                c["reuse"] = None
        elif c0.get("samereader"):
            i, j = c0["samereader"]
            if c["inputs"][i] != [(s, r - 1000 * (j - i)) for s, r in c["inputs"][j]]:
                c.update(samereader=None, reuse=None)
            else:
                c["inputs"][j] = list(c["inputs"][i])
        n = max(len(x) for x in lists)
        c["chunk"] = min(c0["chunk"], n + 1)
        return c

    import time

    t_end = time.time() + 40     # (a failure that needs the very long inputs is expensive to re-run: stop shrinking then)

    def fails(items):
        if time.time() > t_end:
            return False
        sub = common.Check(chk.prop, chk.tier, chk.seed)
        try:
            eval_cases(sub, [rebuild(items)], tally=False)
        except Exception:  # noqa: BLE001
            return False
        return any(s == sig for s, _ in sub.spec_violations)

    try:
        small = common.shrink_list(flat, fails)
        sub = common.Check(chk.prop, chk.tier, chk.seed)
        eval_cases(sub, [rebuild(small)], tally=False)
        for s, i in sub.spec_violations:
            if s == sig:
                chk.spec_violations[0] = (s, dict(i, shrunk_from_rows=len(flat)))
                break
    except Exception:  # noqa: BLE001
        pass


def corpus_cases():
    p = common.VERIF / "harness" / "corpus" / "C14.json"
    if p.exists():
        return [from_json(d) for d in json.loads(p.read_text())]
    return []


def search(chk):
    """failing-input search when a proof or the correspondence is broken"""
    rng = chk.rng
    eval_cases(chk, [gen_case(rng, 8) for _ in range(4000)])
    if not chk.spec_violations:
        eval_cases(chk, [gen_case(rng, 8, force_cols=True) for _ in range(1000)])
    if not chk.spec_violations:
        eval_cases(chk, [gen_big(rng, w) for w in ["merger-default-chunk"] * 12 + ["many-inputs"] * 60
                         + ["sort-default-chunk"] * 2])
    if not chk.spec_violations:
        eval_cases(chk, exhaustive_cases("thorough"))
    minimise(chk)


def main(chk, args):
    build = common.build_and_audit("C14")
    if not build.driver_ok:
        chk.finish(build, RULE)
    rng = chk.rng
    quick = chk.tier == "quick"
    cases = corpus_cases()
    cases += [gen_case(rng) for _ in range(1500 if quick else 60000)]
    cases += [gen_empty(rng) for _ in range(40 if quick else 300)]
    cases += [gen_case(rng, force_cols=True) for _ in range(250 if quick else 6000)]
    cases += [gen_noinput(rng, kind) for kind in ("sort", "merger")]
    # size: inputs longer than the default chunk constants / many inputs (few cases: they are long)
    bigs = (["merger-default-chunk", "merger-default-chunk", "many-inputs", "many-inputs", "many-inputs", "many-inputs"]
            if quick else ["merger-default-chunk"] * 40 + ["many-inputs"] * 150 + ["sort-default-chunk"] * 6)
    # (the long ones first: they are spread over the worker processes while the short ones fill the gaps)
    cases = [gen_big(rng, w) for w in bigs] + cases
    if quick:   # one text and one Parquet list whose long file exceeds the default MERGE_SORT_CHUNK_SIZE
        cases = [gen_big(rng, "sort-default-chunk", fmt) for fmt in ("csv", "parquet")] + cases
    eval_cases(chk, cases)
    ex = exhaustive_cases(chk.tier)
    eval_cases(chk, ex)
    chk.extra["exhaustive_sweep"] = (
        f"{len(ex)} cases: every family of <=2 inputs of <=3 rows"
        + (" (<=4 rows for 2 inputs), of 3 inputs of <=2 rows, of 4 inputs of <=2 rows over 2 values,"
           if not quick else " with <=4 rows in total")
        + " over 3 score values (sorted or not), both directions, every reader chunk size 1..len+1, entry points "
        "rotated; merge_sort on every sorted family among them (text" + ("/Parquet)" if not quick else ")")
    )
    minimise(chk)
    # third pass: merge_sort(paths, score, text_columns) — identifier cells of text files (harness/c14text.py)
    import c14text
    c14text.run(chk, quick)
    lc = None
    if chk.tier == "thorough":      # both property modules
        lcs = [common.leanchecker(m) for m in ("C14", "C14Paths", "C14Nested", "C14Text")]
        lc = (all(x[0] for x in lcs), "".join(x[1] for x in lcs))
    chk.assumptions += [
        "scores are numbers exactly representable as float64 (integers, dyadic rationals) or +inf / -inf: no NaN, so "
        "`a < b` is `not (b <= a)` as in the model (C14_infinite_scores_total_preorder); on the wire +inf / -inf are "
        "sent as +-10^30, beyond every finite score generated (the model uses nothing but the order)",
        "integer score columns hold values below 2^53 in magnitude: merge_sort compares `float(score)`, so larger "
        "64-bit integers that differ by less than their float spacing would tie (mokapot's scores are floats)",
        "a file named *.parquet holds Parquet data and every other file text (merge_sort chooses the row iterator "
        "from the suffix of the first path; a text-first list may contain Parquet files, a Parquet-first list with a "
        "text file is refused by pyarrow and tallied as rejected); no input at all: IndexError / AssertionError "
        "(tallied as rejected)",
        "object re-use: the second use of a merger object / path list is compared with the first one (which is "
        "checked in full), and where it differs with the property restated in Python (`py_spec`, itself compared with "
        "the Lean spec op on every ordinary case)",
        "stacked mergers: the outer merger sees an inner one through get_chunked_data_iterator(outer reader chunk size), "
        "i.e. as the rows of the complete frames followed by the inner ValueError (kmergeNested); the spec applied is the "
        "flat one over all leaf inputs (C14_nested_eq_flat / C14_nested_facts)",
        "missing cells of the extra float column are NaN values (not Parquet nulls); they are compared as 'nan' and by kind",
        "the very long merge_sort inputs (> 20000 rows) are checked against the Lean model and the Python restatement "
        "of the spec and of the tie rule; the quadratic Lean spec checkers are not evaluated on them",
        "pandas.read_csv(chunksize=c), pyarrow iter_batches(c) and DataFrame.iloc slicing deliver the rows of a "
        "file in order, in consecutive batches (modelled by kmChunks; any batching gives the same row sequence)",
        "np.argmax / np.argmin return the first index of the extreme value; Python dicts iterate in insertion "
        "order and keep the position of a replaced value",
        "rows are compared as (score, id, payload) triples with the kind (integer/float) of score and id and the "
        "column names; the tie order among equal scores is not part of the property's text, but it is fixed by the "
        "model (first input wins = stable sort of the concatenated inputs, C14_kmerge_eq_stable_sort / "
        "C14_checked_eq_stable_sort): a different tie order is reported as a correspondence break (`tie-order`), "
        "not as a spec violation; the Lean spec function is cross-checked against Python's stable `sorted`",
        "the precision-critical float score classes (differences of 2^-40, floats next to 2^53) are generated for "
        "Parquet and DataFrame inputs only: pandas' default text parser is not exact to the last bit on 17-digit "
        "decimals (the same in chunked and whole-file reads; trusted base of C13, not the merge)",
        "`columns=` without the priority column: the lookup raises (KeyError; ValueError for record rows) before "
        "anything is yielded (tallied as rejected)",
        "an input without rows makes both functions raise RuntimeError before the first row (tallied as rejected)",
        "text_columns: the per-chunk type inference of pandas.read_csv on an identifier column is a parameter of the "
        "model (C14_text_columns_* hold for every inference); the driver instantiates it with: all cells digit strings "
        "-> int64 (007 -> 7), all cells digit strings or digits.digits with a decimal among them -> float64, otherwise "
        "text; the generated spellings stay inside that domain (no signs, exponents, NA markers, empty cells) and the "
        "decimals are dyadic; Parquet identifier columns are stored as strings",
    ]
    chk.finish(build, RULE, search=search, lc=lc,
               trusted_extra=["pandas read_csv/to_dict/iloc/concat, pyarrow Parquet read/write, numpy argmax/argmin"])


def replay(chk, path):
    info = json.loads(open(path).read())
    if "case" not in info:
        print(json.dumps(info, indent=1)[:3000])
        return 0
    common.build_and_audit("C14")
    if "text_columns_case" in info["case"]:
        import c14text
        c14text.replay_case(chk, info["case"]["text_columns_case"])
    else:
        eval_cases(chk, [from_json(info["case"])], tally=False)
    for sig, i in chk.spec_violations:
        print("REPRODUCED", sig, json.dumps(i, default=str)[:1500])
    return 1 if chk.spec_violations else 0
