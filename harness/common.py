"""Shared machinery of the mokapot verification checks.

Every check does, in this order (DESIGN.md §2.1):
  1. regenerate lean/MokapotVerif/Generated/*.lean from /repo (tools/gen_lean.py)
  2. `lake build MokapotVerif.Props.<id> driver`
  3. proof hygiene (forbidden tokens) + `#print axioms` audit of every property theorem
  4. correspondence: real mokapot code vs. the compiled Lean driver on generated inputs
  5. verdict, evidence/<id>.json, exit code
"""
from __future__ import annotations

import fcntl
import hashlib
import json
import os
import random
import re
import subprocess
import sys
import time
import traceback
from fractions import Fraction
from pathlib import Path

VERIF = Path(__file__).resolve().parent.parent
LEAN = VERIF / "lean"
REPO = Path(os.environ.get("MOKAPOT_REPO", "/repo"))
DRIVER = LEAN / ".lake" / "build" / "bin" / "driver"
ALLOWED_AXIOMS = {"propext", "Classical.choice", "Quot.sound"}
FORBIDDEN = re.compile(
    r"\bsorry\b|\badmit\b|^\s*axiom\s|native_decide|bv_decide|implemented_by|\bunsafe\s|maxHeartbeats\s+0\b",
    re.M,
)

os.environ.setdefault("MOKAPOT_VERIF", "1")


# ----------------------------------------------------------------------------
# wire format (mirror of lean/MokapotVerif/Wire.lean)
# ----------------------------------------------------------------------------
def enc(v) -> str:
    if isinstance(v, bool):
        return "T" if v else "F"
    if isinstance(v, int):
        return str(v)
    if isinstance(v, Fraction):
        return f"{v.numerator}/{v.denominator}" if v.denominator != 1 else str(v.numerator)
    if isinstance(v, str):
        return "s" + v.encode("utf-8").hex()
    if isinstance(v, Atom):
        return v.s
    if v is None:
        return "none"
    if isinstance(v, (list, tuple)):
        return "[" + " ".join(enc(x) for x in v) + "]"
    if hasattr(v, "item"):  # numpy scalar
        return enc(v.item())
    if isinstance(v, float):
        if v != v or v in (float("inf"), float("-inf")):
            raise ValueError("non-finite float on the wire")
        return enc(Fraction(v))
    raise TypeError(f"cannot encode {type(v)}")


class Atom:
    """a raw atom (op names, enum tags)"""

    def __init__(self, s):
        self.s = s

    def __repr__(self):
        return self.s


def _tokenize(s):
    return s.replace("[", " [ ").replace("]", " ] ").split()


def dec(line: str):
    """parse one response line into nested python lists of atom strings"""
    toks = _tokenize(line)
    pos = 0

    def seq():
        nonlocal pos
        out = []
        while pos < len(toks):
            t = toks[pos]
            pos += 1
            if t == "]":
                return out
            if t == "[":
                out.append(seq())
            else:
                out.append(t)
        return out

    vals = seq()
    if len(vals) == 1:
        return vals[0]
    return vals


def a_int(t):
    return int(t)


def a_bool(t):
    return {"T": True, "F": False}[t]


def a_rat(t):
    if "/" in t:
        n, d = t.split("/")
        return Fraction(int(n), int(d))
    return Fraction(int(t))


def a_str(t):
    assert t[0] == "s", t
    return bytes.fromhex(t[1:]).decode("utf-8")


def deep(f, v):
    if isinstance(v, list):
        return [deep(f, x) for x in v]
    return f(v)


# ----------------------------------------------------------------------------
# build / audit
# ----------------------------------------------------------------------------
class BuildResult:
    def __init__(self):
        self.ok = True
        self.driver_ok = True
        self.log = ""
        self.theorems = {}  # name -> axioms list
        self.failed = []  # names of obligations not discharged
        self.notes = []
        self.wall = 0.0


def _lock():
    f = open(LEAN / ".buildlock", "w")
    fcntl.flock(f, fcntl.LOCK_EX)
    return f


def strip_comments(src: str) -> str:
    # nested block comments /- ... -/ and line comments --
    out = []
    i, depth, n = 0, 0, len(src)
    while i < n:
        if src.startswith("/-", i):
            depth += 1
            i += 2
        elif depth and src.startswith("-/", i):
            depth -= 1
            i += 2
        elif depth:
            if src[i] == "\n":
                out.append("\n")
            i += 1
        elif src.startswith("--", i):
            while i < n and src[i] != "\n":
                i += 1
        else:
            out.append(src[i])
            i += 1
    return "".join(out)


def hygiene():
    bad = []
    for p in sorted(LEAN.rglob("*.lean")):
        if ".lake" in p.parts:
            continue
        txt = strip_comments(p.read_text())
        for m in FORBIDDEN.finditer(txt):
            line = txt.count("\n", 0, m.start()) + 1
            bad.append(f"{p.relative_to(LEAN)}:{line}: {m.group(0).strip()}")
    return bad


def prop_theorems(prop: str):
    """names of the property theorems of <prop>: `theorem Cxx_*` in Props/Cxx*.lean"""
    names = []
    for p in sorted((LEAN / "MokapotVerif" / "Props").glob(f"{prop}*.lean")):
        txt = strip_comments(p.read_text())
        names += re.findall(rf"^\s*theorem\s+({prop}_\w+)", txt, re.M)
    return names


def run_gen():
    gen = VERIF / "tools" / "gen_lean.py"
    if gen.exists():
        r = subprocess.run([sys.executable, str(gen)], capture_output=True, text=True)
        if r.returncode != 0:
            return False, r.stdout + r.stderr
    return True, ""


def build_and_audit(prop: str, extra_targets=()) -> BuildResult:
    t0 = time.time()
    res = BuildResult()
    lock = _lock()
    try:
        ok, log = run_gen()
        if not ok:
            res.ok = False
            res.log += "gen_lean failed:\n" + log
        # driver first: correspondence needs it even when a proof is broken
        r = subprocess.run(["lake", "build", "driver"], cwd=LEAN, capture_output=True, text=True)
        if r.returncode != 0 or not DRIVER.exists():
            res.driver_ok = False
            res.ok = False
            res.log += r.stdout[-4000:] + r.stderr[-2000:]
        targets = [f"MokapotVerif.Props.{pf.stem}"
                   for pf in sorted((LEAN / "MokapotVerif" / "Props").glob(f"{prop}*.lean"))] or [f"MokapotVerif.Props.{prop}"]
        targets += list(extra_targets)
        r = subprocess.run(["lake", "build", *targets], cwd=LEAN, capture_output=True, text=True)
        if r.returncode != 0:
            res.ok = False
            res.log += r.stdout[-6000:] + r.stderr[-2000:]
            for m in re.finditer(r"error: (\S+\.lean):(\d+):\d+:", r.stdout):
                res.failed.append(f"{m.group(1)}:{m.group(2)}")
            if not res.failed:
                res.failed.append(f"MokapotVerif.Props.{prop} (build failed)")
        bad = hygiene()
        if bad:
            res.ok = False
            res.failed += [f"forbidden token {b}" for b in bad]
        names = prop_theorems(prop)
        if r.returncode == 0 and names:
            key = hashlib.sha256()
            for p in sorted(LEAN.rglob("*.lean")):
                if ".lake" in p.parts or ".audit" in p.parts:
                    continue
                key.update(p.read_bytes())
            cache = LEAN / ".lake" / f"audit-{prop}.json"
            cached = None
            if cache.exists():
                try:
                    c = json.loads(cache.read_text())
                    if c["key"] == key.hexdigest():
                        cached = c["theorems"]
                except Exception:
                    cached = None
            if cached is None:
                adir = LEAN / ".audit"
                adir.mkdir(exist_ok=True)
                af = adir / f"{prop}.lean"
                spaces = []
                for pf in sorted((LEAN / "MokapotVerif" / "Props").glob(f"{prop}*.lean")):
                    for ns in re.findall(r"^namespace\s+(\S+)", strip_comments(pf.read_text()), re.M):
                        if ns not in spaces:
                            spaces.append(ns)
                imports = "".join(
                    f"import MokapotVerif.Props.{pf.stem}\n"
                    for pf in sorted((LEAN / "MokapotVerif" / "Props").glob(f"{prop}*.lean")))
                af.write_text(
                    imports
                    + "".join(f"open {ns}\n" for ns in (spaces or ["Mk"]))
                    + "".join(f"#print axioms {n}\n" for n in names)
                )
                ra = subprocess.run(["lake", "env", "lean", str(af)], cwd=LEAN, capture_output=True, text=True)
                out = ra.stdout + ra.stderr
                cached = {}
                for m in re.finditer(
                    r"'([\w.]+)' (?:depends on axioms: \[([^\]]*)\]|does not depend on any axioms)", out
                ):
                    cached[m.group(1).split(".")[-1]] = [
                        a.strip() for a in (m.group(2) or "").split(",") if a.strip()
                    ]
                if ra.returncode != 0:
                    res.log += out[-3000:]
                cache.write_text(json.dumps({"key": key.hexdigest(), "theorems": cached}))
            for n in names:
                if n not in cached:
                    res.ok = False
                    res.failed.append(f"{n}: not found by #print axioms")
                else:
                    extra = set(cached[n]) - ALLOWED_AXIOMS
                    if extra:
                        res.ok = False
                        res.failed.append(f"{n}: depends on non-standard axioms {sorted(extra)}")
                    res.theorems[n] = cached[n]
        elif not names:
            res.notes.append("no property theorems found")
    finally:
        lock.close()
    res.wall = time.time() - t0
    return res


def leanchecker(prop: str):
    """thorough tier: independent re-check of the compiled property module"""
    r = subprocess.run(
        ["lake", "env", "leanchecker", f"MokapotVerif.Props.{prop}"], cwd=LEAN, capture_output=True, text=True
    )
    return r.returncode == 0, (r.stdout + r.stderr)[-2000:]


# ----------------------------------------------------------------------------
# driver
# ----------------------------------------------------------------------------
def driver_batch(lines: list[str], timeout=600) -> list[str]:
    """send request lines to the compiled Lean driver, return response lines"""
    if not lines:
        return []
    data = "\n".join(lines) + "\n"
    for attempt in range(60):   # a concurrent check may be re-linking the driver right now
        if DRIVER.exists():
            break
        time.sleep(2)
    try:
        r = subprocess.run([str(DRIVER)], input=data, capture_output=True, text=True, timeout=timeout)
    except (FileNotFoundError, PermissionError, OSError):
        time.sleep(20)
        r = subprocess.run([str(DRIVER)], input=data, capture_output=True, text=True, timeout=timeout)
    out = r.stdout.split("\n")
    if out and out[-1] == "":
        out.pop()
    if r.returncode != 0 or len(out) != len(lines):
        raise RuntimeError(
            f"driver protocol error: rc={r.returncode}, {len(out)} responses for {len(lines)} requests; "
            f"stderr={r.stderr[-500:]}"
        )
    return out


def req(op: str, *args) -> str:
    return op + " " + " ".join(enc(a) for a in args)


# ----------------------------------------------------------------------------
# known findings
# ----------------------------------------------------------------------------
def known_findings(prop: str):
    p = VERIF / "known_findings.json"
    if not p.exists():
        return []
    data = json.loads(p.read_text())
    return [f for f in data.get("findings", []) if f.get("property") == prop and f.get("status") == "open"]


# ----------------------------------------------------------------------------
# check context
# ----------------------------------------------------------------------------
class Violation(Exception):
    pass


def _ast_hash(path: Path) -> str:
    import ast

    try:
        return hashlib.sha1(ast.dump(ast.parse(path.read_text())).encode()).hexdigest()[:16]
    except Exception:
        return "unparsable"


def anchored_files(prop: str):
    for l in (VERIF / "properties.jsonl").read_text().splitlines():
        if l.strip():
            d = json.loads(l)
            if d["id"] == prop:
                return d["anchors"]["files"]
    return []


def source_changed(prop: str):
    """files anchored by the property whose normalised AST differs from the one the model was last
    reviewed against (harness/source_hashes.json). Informational: it only enlarges the generation budget."""
    ref_p = VERIF / "harness" / "source_hashes.json"
    ref = json.loads(ref_p.read_text()) if ref_p.exists() else {}
    changed = []
    for f in anchored_files(prop):
        if ref.get(f) is not None and _ast_hash(REPO / f) != ref[f]:
            changed.append(f)
    return changed


class Check:
    """Collects cases, disagreements and the evidence of one run."""

    def __init__(self, prop: str, tier: str, seed: int):
        self.prop = prop
        self.tier = tier
        self.seed = seed
        self.rng = random.Random(f"{prop}-{seed}")
        self.t0 = time.time()
        self.evaluations = 0
        self.nontrivial = set()
        self.samples = []
        self.hist = {}
        self.rejected = {}
        self.float_boundary = 0
        self.spec_violations = []  # (signature, case dict)
        self.corr_breaks = []  # (op, case dict)
        self.assumptions = []
        self.extra = {}
        self.known_hit = {}
        self.budget_mult = 1
        self.changed_sources = source_changed(prop)

    def scale(self, n: int) -> int:
        """generation budget: tripled when an anchored source file differs from the reviewed version"""
        return n * 3 if self.changed_sources else n

    # -- bookkeeping ---------------------------------------------------------
    def count(self, key, sub=None):
        k = key if sub is None else f"{key}:{sub}"
        self.hist[k] = self.hist.get(k, 0) + 1

    def case(self, desc, nontrivial_key=None, sample=None):
        self.evaluations += 1
        if nontrivial_key is not None:
            self.nontrivial.add(
                hashlib.sha1(repr(nontrivial_key).encode()).hexdigest()[:16]
            )
        if sample is not None and len(self.samples) < 4:
            self.samples.append(sample)

    def reject(self, kind):
        self.rejected[kind] = self.rejected.get(kind, 0) + 1

    def spec_violation(self, signature: str, case: dict):
        """the implementation's output violates the property's spec on this input"""
        self.spec_violations.append((signature, case))

    def corr_break(self, op: str, case: dict):
        """implementation and model differ although the spec holds on the implementation"""
        self.corr_breaks.append((op, case))

    def elapsed(self):
        return time.time() - self.t0

    # -- finishing -----------------------------------------------------------
    def finish(self, build: BuildResult, rule: str, trusted_extra=(), search=None, lc=None):
        """Apply the verdict rule of DESIGN.md §2.4, write evidence, exit."""
        prop = self.prop
        violations = 0
        out_lines = []
        kf = known_findings(prop)

        def is_known(sig):
            for f in kf:
                if f["signature"] == sig:
                    return f
            return None

        # proofs or correspondence broken, no concrete failing input yet -> search
        broken = (not build.ok) or bool(self.corr_breaks)
        if broken and not self.spec_violations and search is not None:
            try:
                self.budget_mult = 5
                search(self)
            except Exception:
                traceback.print_exc()
        reported = set()
        for sig, case in self.spec_violations:
            f = is_known(sig)
            if f is not None:
                if sig not in self.known_hit:
                    self.known_hit[sig] = f
                continue
            if sig in reported:
                continue
            reported.add(sig)
            violations += 1
            path = write_replay(prop, {"kind": "failing-input", "signature": sig, "seed": self.seed, **case})
            out_lines.append(f"VIOLATION property={prop} replay={path}")
        for sig, f in self.known_hit.items():
            out_lines.append(f"KNOWN-FINDING: property={prop} {f['what']}")
        if broken and not reported and not self.known_hit:
            info = {
                "kind": "unproved",
                "seed": self.seed,
                "failed_obligations": build.failed,
                "build_log_tail": build.log[-3000:],
                "correspondence_breaks": [
                    {"op": op, **case} for op, case in self.corr_breaks[:5]
                ],
                "note": "theorem or correspondence no longer checks; failing-input search found no input on "
                "which the property fails on the real code",
            }
            path = write_replay(prop, info)
            violations += 1
            out_lines.append(f"VIOLATION property={prop} replay={path} no-failing-input-found")
        elif broken and not reported and self.known_hit and (build.failed or self.corr_breaks):
            # something is broken beyond the known findings
            sigs = set(self.known_hit)
            unexplained = [c for c in self.corr_breaks if c[1].get("signature") not in sigs]
            if build.failed or unexplained:
                info = {
                    "kind": "unproved",
                    "seed": self.seed,
                    "failed_obligations": build.failed,
                    "build_log_tail": build.log[-3000:],
                    "correspondence_breaks": [{"op": op, **case} for op, case in unexplained[:5]],
                }
                path = write_replay(prop, info)
                violations += 1
                out_lines.append(f"VIOLATION property={prop} replay={path} no-failing-input-found")

        names = prop_theorems(prop)
        discharged = [n for n in names if n in build.theorems and not (set(build.theorems[n]) - ALLOWED_AXIOMS)]
        if not build.ok and build.failed and not build.theorems:
            discharged = []
        trusted = [
            "Lean 4.33 kernel",
            "axioms per theorem: "
            + "; ".join(f"{n}: {sorted(build.theorems.get(n, ['<unchecked>']))}" for n in names),
            "hand-written Lean model of the anchored source spans, tied to /repo by the correspondence run "
            "recorded in this file",
            "Python harness (generators, canonicalisation, adapters), Lean driver parsing/printing glue",
            *trusted_extra,
        ]
        if lc is not None:
            trusted.append(f"leanchecker re-check: {'ok' if lc[0] else 'FAILED'}")
        coverage = {
            "obligations": max(len(names), 1),
            "discharged": len(discharged),
            "checker_cmd": f"cd lean && lake build MokapotVerif.Props.{prop} && lake env lean .audit/{prop}.lean",
            "trusted_base": trusted,
            "theorems": names,
            "evaluations": self.evaluations,
            "distinct_nontrivial": len(self.nontrivial),
            "rule": rule,
            "samples": self.samples or ["<no case generated>"],
            "input_distribution": dict(sorted(self.hist.items())),
            "rejected_inputs": self.rejected,
            "float_boundary_cases": self.float_boundary,
            "correspondence_disagreements": len(self.corr_breaks),
            "spec_violations_on_impl": len(self.spec_violations),
            "known_findings_hit": sorted(self.known_hit),
            "build_wall_s": round(build.wall, 2),
            "anchored_sources_changed_since_review": self.changed_sources,
            **self.extra,
        }
        ev = {
            "property_id": prop,
            "tier": self.tier,
            "seed": self.seed,
            "level": "proof",
            "coverage": coverage,
            "assumptions": self.assumptions,
            "wall_s": round(self.elapsed(), 2),
            "violations": violations,
        }
        evdir = Path(os.environ.get("VERIF_EVIDENCE_DIR") or VERIF / "evidence")  # override: scratch runs on changed trees
        evdir.mkdir(parents=True, exist_ok=True)
        (evdir / f"{prop}.json").write_text(json.dumps(ev, indent=1, default=str) + "\n")
        for l in out_lines:
            print(l)
        print(
            f"[{prop}] tier={self.tier} seed={self.seed} theorems={len(discharged)}/{len(names)} "
            f"cases={self.evaluations} nontrivial={len(self.nontrivial)} corr_breaks={len(self.corr_breaks)} "
            f"spec_violations={len(self.spec_violations)} rejected={sum(self.rejected.values())} "
            f"wall={self.elapsed():.1f}s"
        )
        sys.stdout.flush()
        sys.exit(1 if violations else 0)


def write_replay(prop: str, obj: dict) -> str:
    d = Path(os.environ.get("VERIF_REPLAY_DIR") or VERIF / "replays")
    d.mkdir(parents=True, exist_ok=True)
    blob = json.dumps(obj, indent=1, default=str, sort_keys=True)
    h = hashlib.sha1(blob.encode()).hexdigest()[:10]
    p = d / f"{prop}-{h}.json"
    p.write_text(blob + "\n")
    return str(p.relative_to(VERIF)) if p.is_relative_to(VERIF) else str(p)


def shrink_list(items: list, fails, min_len=1):
    """greedy delta-debugging on a list: drop chunks while `fails(items)` stays true"""
    items = list(items)
    n = 2
    while len(items) > min_len:
        chunk = max(1, len(items) // n)
        changed = False
        i = 0
        while i < len(items) and len(items) > min_len:
            cand = items[:i] + items[i + chunk:]
            if len(cand) >= min_len and fails(cand):
                items = cand
                changed = True
            else:
                i += chunk
        if not changed:
            if chunk == 1:
                break
            n = min(len(items), n * 2)
    return items


def f32(x: Fraction):
    import numpy as np

    # correctly rounded float32 of a rational: go through float64 division of exact ints is
    # double rounding in rare cases; q-values here have small numerators/denominators (< 2^24),
    # for which float32(n)/float32(d) in float32 arithmetic is correctly rounded.
    return np.float32(x.numerator) / np.float32(x.denominator)
