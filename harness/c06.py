"""C06 — PEPs and alternative q-value estimators: range, monotonicity, ties, alignment.

Implementation under test (called in-process, unmodified):
  mokapot.peps.peps_from_scores(scores, targets, "qvality" | "kde_nnls" | "hist_nnls")
  mokapot.qvalues.qvalues_from_scores(scores, targets, "from_peps" | "from_counts")
  posterior_error_prob column of the files written by mokapot.assign_confidence

The numeric kernels (triqler spline, gaussian_kde grid, np.histogram midpoints, scipy nnls,
estimate_pi0_by_slope) are abstract parameters of the Lean model.  The harness records what the
real kernels return on every call (pass-through wrappers on module attributes, no change to
/repo), asserts the hypotheses of the theorems on those values, and feeds them to the model; the
composition logic around them (sort / scatter, cumulative sums, running max, interpolation,
scaling, clipping) is what the model computes and what is compared.
"""
from __future__ import annotations

import contextlib
import itertools
import json
import math
import tempfile
import warnings
from fractions import Fraction
from pathlib import Path

import numpy as np

import common
from common import Atom, a_rat, deep, dec, req

RULE = (
    "cases = (target/decoy score mixture: size 100..3000 with >= 50 targets and >= 50 decoys, null shape "
    "(normal, Gumbel, logistic, bimodal, exponential = mode at the left edge), pi0, separation, tie granularity (none .. integer scores), affine rescaling, input arrangement "
    "(random permutation, sorted either way, targets first, interleaved), estimator); every case is evaluated "
    "on the input and on an independently permuted copy; distinct = distinct (estimator, size, tie granularity, "
    "arrangement, score multiset hash); non-trivial = input not already in descending score order (alignment "
    "is observable) or ties present; thorough adds exhaustive small-scope sweeps of the real composition code "
    "(np.interp/monotonize_simple primitives, the qvality wrapper with a stub kernel over all score vectors in "
    "{0,1,2}^n, n<=6 and all labellings, qvalues_from_peps / qvalues_from_counts over all such vectors)"
)

TOL = 1e-9          # float64 composition vs. exact rational model
MONO_TOL = 1e-12    # rounding slack of slope*(x-x0)+y0 next to a knot
PEP_ALGS = ["qvality", "kde_nnls", "hist_nnls"]
Q_ALGS = ["from_peps", "from_counts"]


# ----------------------------------------------------------------------------------------------
# recording the kernels
# ----------------------------------------------------------------------------------------------
class Rec:
    def __init__(self):
        self.nnls = []        # solutions d
        self.qvality = []     # (target_scores, decoy_scores, peps)
        self.kde_grid = []    # eval_scores of pdfs_from_scores
        self.hist_grid = []   # eval_scores of hist_data_from_scores
        self.pi0 = []
        self.hist_peps = []   # output of peps_from_scores_hist_nnls when used by qvalues_from_peps


@contextlib.contextmanager
def recording(stub_kernel=None, stub_pi0=None):
    """pass-through wrappers around the kernels (module attributes only)"""
    import mokapot.peps as P
    import mokapot.qvalues as Q
    from triqler import qvality as TQ

    rec = Rec()
    saved = []

    def patch(mod, name, fn):
        saved.append((mod, name, getattr(mod, name)))
        setattr(mod, name, fn)

    o_nnls = P.nnls

    def nnls(*a, **k):
        r = o_nnls(*a, **k)
        rec.nnls.append(np.array(r[0], dtype=float))
        return r

    o_q = TQ.getQvaluesFromScores

    def getq(ts, ds, **k):
        ts0, ds0 = np.array(ts, dtype=float), np.array(ds, dtype=float)
        if stub_kernel is not None:
            r = (None, stub_kernel(ts0, ds0))
        else:
            r = o_q(ts, ds, **k)
        rec.qvality.append((ts0, ds0, np.array(r[1], dtype=float)))
        return r

    o_pdfs = P.pdfs_from_scores

    def pdfs(*a, **k):
        r = o_pdfs(*a, **k)
        rec.kde_grid.append(np.array(r[0], dtype=float))
        return r

    def mk_hist(orig):
        def hist(*a, **k):
            if stub_pi0 is not None:
                return None, None, None
            r = orig(*a, **k)
            rec.hist_grid.append(np.array(r[0], dtype=float))
            return r
        return hist

    def mk_pi0(orig):
        def pi0(*a, **k):
            r = stub_pi0 if stub_pi0 is not None else orig(*a, **k)
            rec.pi0.append(float(r))
            return r
        return pi0

    o_hp = Q.peps_from_scores_hist_nnls

    def hp(*a, **k):
        r = o_hp(*a, **k)
        rec.hist_peps.append(np.array(r, dtype=float))
        return r

    patch(P, "nnls", nnls)
    patch(TQ, "getQvaluesFromScores", getq)
    patch(P, "pdfs_from_scores", pdfs)
    patch(P, "hist_data_from_scores", mk_hist(P.hist_data_from_scores))
    patch(Q, "hist_data_from_scores", mk_hist(Q.hist_data_from_scores))
    patch(P, "estimate_pi0_by_slope", mk_pi0(P.estimate_pi0_by_slope))
    patch(Q, "estimate_pi0_by_slope", mk_pi0(Q.estimate_pi0_by_slope))
    patch(Q, "peps_from_scores_hist_nnls", hp)
    try:
        yield rec
    finally:
        for mod, name, old in reversed(saved):
            setattr(mod, name, old)


def run_impl(alg, s, t, **kw):
    """-> (output array, Rec); exceptions propagate"""
    import mokapot.peps as P
    import mokapot.qvalues as Q

    s = np.array(s, dtype=float)  # private copies: the code may sort / assign in place
    t = np.array(t, dtype=bool)
    with recording(**kw) as rec, warnings.catch_warnings(), np.errstate(all="ignore"):
        warnings.simplefilter("ignore")
        if alg in PEP_ALGS:
            out = P.peps_from_scores(s, t, alg)
        else:
            out = Q.qvalues_from_scores(s, t, alg)
    return np.asarray(out, dtype=float), rec


# ----------------------------------------------------------------------------------------------
# generators
# ----------------------------------------------------------------------------------------------
def draw(rng, shape, n, loc, scale):
    if shape == "normal":
        return [rng.gauss(loc, scale) for _ in range(n)]
    if shape == "gumbel":
        return [loc - scale * math.log(-math.log(rng.random() or 1e-12)) for _ in range(n)]
    if shape == "logistic":
        out = []
        for _ in range(n):
            u = min(max(rng.random(), 1e-12), 1 - 1e-12)
            out.append(loc + scale * math.log(u / (1 - u)))
        return out
    if shape == "expo":  # mode at the left edge (scores cut off at a lower bound)
        return [loc - scale * math.log(1.0 - min(rng.random(), 1 - 1e-12)) for _ in range(n)]
    if shape == "bimodal":
        return [rng.gauss(loc + (1.5 * scale if rng.random() < 0.3 else 0.0), scale) for _ in range(n)]
    raise AssertionError(shape)


ARRANGEMENTS = ["random", "random", "random", "desc", "asc", "targets_first", "interleaved"]


def gen_case(rng, nmax):
    nt = rng.choice([50, 60, 80, 120, 200, 300, 500, 800, 1500])
    nd = rng.choice([50, 60, 80, 120, 200, 300, 500, 800, 1500])
    while nt + nd > nmax:
        nt, nd = max(50, nt // 2), max(50, nd // 2)
    shape = rng.choice(["normal", "normal", "gumbel", "logistic", "bimodal", "expo"])
    pi0 = rng.choice([0.2, 0.4, 0.6, 0.8])
    sep = rng.choice([1.5, 2.5, 4.0, 6.0])
    n_false = min(nt - 5, max(5, int(round(pi0 * nt))))
    tgt = draw(rng, shape, n_false, 0.0, 1.0) + draw(rng, "normal", nt - n_false, sep, rng.choice([0.7, 1.0, 1.5]))
    dec_ = draw(rng, shape, nd, 0.0, 1.0)
    gran = rng.choice([None, None, 64, 16, 8, 4, 2, 1])
    a = rng.choice([1.0, 1.0, 0.25, 8.0, 64.0])
    b = rng.choice([0.0, 0.0, -3.0, 10.0, 100.0])
    rows = [(x, True) for x in tgt] + [(x, False) for x in dec_]
    if gran is not None:
        rows = [(round(x * gran) / gran, l) for x, l in rows]
    rows = [(a * x + b, l) for x, l in rows]
    arr = rng.choice(ARRANGEMENTS)
    rows = arrange(rng, rows, arr)
    return dict(scores=[r[0] for r in rows], labels=[r[1] for r in rows], shape=shape, gran=gran, arr=arr,
                pi0=pi0, sep=sep)


def arrange(rng, rows, arr):
    rows = list(rows)
    rng.shuffle(rows)
    if arr == "desc":
        rows.sort(key=lambda r: -r[0])
    elif arr == "asc":
        rows.sort(key=lambda r: r[0])
    elif arr == "targets_first":
        rows.sort(key=lambda r: not r[1])
    elif arr == "interleaved":
        t = [r for r in rows if r[1]]
        d = [r for r in rows if not r[1]]
        rows = [x for pair in itertools.zip_longest(t, d) for x in pair if x is not None]
    return rows


# ----------------------------------------------------------------------------------------------
# spec on the implementation's output (direct re-statement, independent of the model)
# ----------------------------------------------------------------------------------------------
def td_tie(s, t):
    ts = set(s[t].tolist())
    return any(x in ts for x in s[~t].tolist())


def spec_clauses(alg, s, out):
    """first violated clause of: one finite value per PSM in range, monotone in score, equal for equal scores"""
    if out.shape != s.shape:
        return f"length: {out.shape} values for {s.shape} PSMs"
    is_pep = alg in PEP_ALGS
    if np.isnan(out).any():
        return "nan value"
    if is_pep and not np.isfinite(out).all():
        return "non-finite PEP"
    if (out < 0).any():
        return "negative value"
    if is_pep and (out > 1).any():
        return "PEP > 1"
    o = np.argsort(s, kind="stable")
    ss, oo = s[o], out[o]
    # equal scores -> equal values (exact: the value must be a function of the score)
    same = ss[1:] == ss[:-1]
    if (oo[1:][same] != oo[:-1][same]).any():
        k = int(np.nonzero(same & (oo[1:] != oo[:-1]))[0][0])
        return f"ties: score {ss[k]!r} has values {oo[k]!r} and {oo[k + 1]!r}"
    # never decreases as the score worsens == non-increasing in ascending score order
    with np.errstate(invalid="ignore"):
        inc = oo[1:] - oo[:-1]
    inc = np.where(np.isnan(inc), 0.0, inc)  # inf - inf
    if (inc > MONO_TOL).any():
        k = int(np.nonzero(inc > MONO_TOL)[0][0])
        return f"monotone: score {ss[k]!r}->{ss[k + 1]!r} value {oo[k]!r}->{oo[k + 1]!r}"
    return None


def close(a, b):
    a = np.asarray(a, dtype=float)
    b = np.asarray(b, dtype=float)
    if a.shape != b.shape:
        return False
    both_inf = np.isinf(a) & np.isinf(b) & (np.sign(a) == np.sign(b))
    with np.errstate(invalid="ignore"):
        ok = np.abs(a - b) <= TOL * (1.0 + np.abs(b))
    return bool(np.all(ok | both_inf))


# ----------------------------------------------------------------------------------------------
# kernel hypotheses of the theorems, asserted on the recorded kernel outputs
# ----------------------------------------------------------------------------------------------
def kernel_hypotheses(alg, s, t, rec):
    """-> list of violated hypotheses (strings)"""
    bad = []
    n = len(s)
    if alg == "qvality":
        if len(rec.qvality) != 1:
            return [f"qvality kernel called {len(rec.qvality)} times"]
        ts, ds, p = rec.qvality[0]
        if sorted(ts.tolist()) != sorted(s[t].tolist()) or sorted(ds.tolist()) != sorted(s[~t].tolist()):
            bad.append("kernel did not receive scores[targets], scores[~targets]")
        if len(p) != n:
            bad.append("kernel returned %d values for %d PSMs" % (len(p), n))
            return bad
        sd = np.sort(s)[::-1]
        if not np.isfinite(p).all() or (p < 0).any() or (p > 1).any():
            bad.append("kernel output outside [0,1]")
        if (np.diff(p) < 0).any():
            bad.append("kernel output decreases along descending scores")
        if (np.diff(p)[sd[1:] == sd[:-1]] != 0).any():
            bad.append("kernel output differs on equal scores")
    elif alg in ("kde_nnls", "hist_nnls", "from_peps"):
        if len(rec.nnls) != 1:
            return [f"nnls called {len(rec.nnls)} times"]
        d = rec.nnls[0]
        if not np.isfinite(d).all() or (d < 0).any():
            bad.append("nnls solution has a negative or non-finite entry")
        grid = rec.kde_grid if alg == "kde_nnls" else rec.hist_grid
        if len(grid) != 1:
            return bad + [f"grid computed {len(grid)} times"]
        es = grid[0]
        if len(es) != len(d):
            bad.append("grid and nnls solution differ in length")
        if len(es) < 1 or (np.diff(es) <= 0).any() or not np.isfinite(es).all():
            bad.append("evaluation grid not strictly ascending")
        if alg in ("hist_nnls", "from_peps") and d.sum() <= 0:
            bad.append("pep_est[0] = 0 (0/0 in scale_to_one)")
    elif alg == "from_counts":
        if len(rec.pi0) != 1:
            return [f"pi0 estimated {len(rec.pi0)} times"]
        if not (rec.pi0[0] > 0 and math.isfinite(rec.pi0[0])):
            bad.append("pi0 not positive finite")
    return bad


# ----------------------------------------------------------------------------------------------
# model requests
# ----------------------------------------------------------------------------------------------
def hyp_kernel(alg):
    return {"qvality": "triqler.qvality", "from_counts": "estimate_pi0_by_slope"}.get(alg, "scipy.optimize.nnls")


def F(x):
    return Fraction(float(x))


def fl(xs):
    return [F(x) for x in xs]


def psms(s, t):
    return [[F(x), bool(l)] for x, l in zip(s, t)]


def model_request(alg, s, t, rec):
    """request line for the model of `alg` given the recorded kernel outputs (None if not applicable)"""
    if alg == "qvality":
        return req("qvalitywrap", fl(rec.qvality[0][2]), psms(s, t))
    if alg == "kde_nnls":
        return req("kdepeps", fl(rec.kde_grid[0]), fl(rec.nnls[0]), fl(s))
    if alg == "hist_nnls":
        return req("histpeps", fl(rec.hist_grid[0]), fl(rec.nnls[0]), fl(s))
    ind = [int(i) for i in np.argsort(-np.array(s, dtype=float))]  # what the code computes on this array
    if alg == "from_peps":
        return req("frompeps", psms(s, t), fl(rec.hist_peps[0]), ind)
    if alg == "from_counts":
        c = rec.pi0[0] * (float(np.sum(t)) / float(np.sum(~t)))
        return req("fromcounts", F(c), psms(s, t), ind)
    raise AssertionError(alg)


def parse_model(line):
    line = line.strip()
    if line.startswith("["):
        return np.array([float(x) for x in deep(a_rat, dec(line))], dtype=float)
    return line  # inf-all / nan-all / reject-*


# ----------------------------------------------------------------------------------------------
# evaluation of cases
# ----------------------------------------------------------------------------------------------
def jsonable(case, alg, perm=None):
    d = dict(alg=alg, scores=[float(x).hex() for x in case["scores"]], labels=[bool(x) for x in case["labels"]])
    for k in ("shape", "gran", "arr", "stub"):
        if k in case:
            d[k] = case[k]
    if perm is not None:
        d["perm"] = [int(i) for i in perm]
    return d


def from_json(d):
    c = dict(d)
    c["scores"] = [float.fromhex(x) for x in d["scores"]]
    return c


KERNEL_SITES = [  # (function name in the traceback, kernel label), innermost first
    ("polyfit", "estimate_pi0_by_slope"), ("estimate_pi0_by_slope", "estimate_pi0_by_slope"),
    ("nnls", "scipy.optimize.nnls"), ("_nnls", "scipy.optimize.nnls"),
    ("gaussian_kde", "gaussian_kde"), ("pdfs_from_scores", "gaussian_kde"),
    ("roughnessPenaltyIRLS", "triqler.qvality"), ("getQvaluesFromScores", "triqler.qvality"),
    ("getq", "triqler.qvality"), ("histogram_bin_edges", "np.histogram"), ("histogram", "np.histogram"),
]


def kernel_site(e):
    """the numeric kernel an exception was raised in (None: raised by the composition code itself)"""
    import traceback

    names = [f.name for f in traceback.extract_tb(e.__traceback__)]
    files = [f.filename for f in traceback.extract_tb(e.__traceback__)]
    for fn, label in KERNEL_SITES:
        if fn in names:
            return label
    if any("triqler" in f for f in files):
        return "triqler.qvality"
    if any("scipy" in f for f in files):
        return "scipy"
    return None


def in_quantifier(s, t):
    return t.sum() >= 50 and (~t).sum() >= 50 and len(set(s.tolist())) >= 10


def classify_exception(chk, case, alg, s, t, e, stub, permuted=False):
    site = kernel_site(e)
    if stub or not in_quantifier(s, t):
        chk.reject(f"{alg}:{type(e).__name__}")
    elif site is not None:
        # hard failure inside a numeric kernel on an in-scope input: reported, never patched over
        chk.spec_violation(f"kernel-numerics:{site}",
                           dict(case=jsonable(case, alg), error=repr(e)[:300], estimator=alg,
                                clause=f"each PSM receives a value: {site} raised {type(e).__name__}"))
    else:
        chk.spec_violation(f"exception{'-permuted' if permuted else ''}:{alg}:{type(e).__name__}",
                           dict(case=jsonable(case, alg), error=repr(e)[:300],
                                clause="each PSM receives a value: the estimator raised"))


def eval_one(chk, case, alg, perm, pending, stub=None):
    """run the implementation on the case and on its permuted copy; queue the model request"""
    s = np.array(case["scores"], dtype=float)
    t = np.array(case["labels"], dtype=bool)
    kw = stub or {}
    try:
        out, rec = run_impl(alg, s, t, **kw)
    except BaseException as e:  # SystemExit from triqler included
        if isinstance(e, KeyboardInterrupt):
            raise
        classify_exception(chk, case, alg, s, t, e, stub)
        return
    ties = len(set(s.tolist())) < len(s)
    unsorted = bool((np.diff(s) > 0).any())
    key = (alg, len(s), case.get("gran"), case.get("arr"), hash(tuple(sorted(s.tolist()))), tuple(t.tolist()[:64]))
    chk.case(None, key if (ties or unsorted) else None,
             sample=dict(alg=alg, n=len(s), arrangement=case.get("arr"), tie_granularity=case.get("gran"),
                         scores_head=[float(x) for x in s[:6]], labels_head=[bool(x) for x in t[:6]],
                         impl_head=[float(x) for x in out[:6]]))
    chk.count("alg", alg)
    chk.count("n", (len(s) // 100) * 100 if len(s) >= 100 else len(s))
    chk.count("ties", ties)
    chk.count("arrangement", case.get("arr"))
    chk.count("granularity", case.get("gran"))
    chk.count("shape", case.get("shape"))
    chk.count("values_all_equal", bool(len(out) and (out == out[0]).all()))
    # kernel hypotheses
    hyp = []
    if not stub:
        hyp = kernel_hypotheses(alg, s, t, rec)
        chk.count("kernel_hypotheses", "hold" if not hyp else "violated")
        if hyp:
            chk.extra.setdefault("kernel_hypothesis_violations", [])
            if len(chk.extra["kernel_hypothesis_violations"]) < 20:
                chk.extra["kernel_hypothesis_violations"].append(dict(alg=alg, n=len(s), what=hyp))
    # +inf boundary of from_counts (top-ranked row is a decoy)
    if alg == "from_counts" and np.isinf(out).all():
        chk.reject("from_counts-top-decoy-inf")
    # spec clauses on the implementation output
    v = spec_clauses(alg, s, out)
    if v is not None and not stub and not in_quantifier(s, t):
        chk.reject(f"{alg}:outside-quantifier:{v.split(':')[0]}")
        return
    if v is not None and not stub and hyp and v.split(":")[0] in ("nan value", "non-finite PEP"):
        chk.spec_violation(f"kernel-numerics:{hyp_kernel(alg)}",
                           dict(case=jsonable(case, alg), impl=[float(x) for x in out[:50]], estimator=alg,
                                clause=f"{v}; kernel hypotheses violated: {hyp}"))
        return
    if v is not None:
        chk.spec_violation(f"{v.split(':')[0]}:{alg}",
                           dict(case=jsonable(case, alg), impl=[float(x) for x in out[:50]], clause=v,
                                expected="one finite in-range value per PSM, non-increasing in the score, "
                                         "equal for equal scores"))
        return
    # alignment: f(perm x) = perm f(x)
    tdt = td_tie(s, t)
    if perm is not None:
        p = np.array(perm)
        try:
            out2, rec2 = run_impl(alg, s[p], t[p], **kw)
        except BaseException as e:
            if isinstance(e, KeyboardInterrupt):
                raise
            classify_exception(chk, dict(case, scores=s[p].tolist(), labels=t[p].tolist()), alg, s[p], t[p], e, stub,
                               permuted=True)
            return
        v2 = spec_clauses(alg, s[p], out2)
        if v2 is not None:
            chk.spec_violation(f"{v2.split(':')[0]}:{alg}",
                               dict(case=jsonable(dict(case, scores=s[p].tolist(), labels=t[p].tolist()), alg),
                                    impl=[float(x) for x in out2[:50]], clause=v2))
            return
        if alg == "from_counts" and tdt:
            # a target ties with a decoy: the value of that tie group legitimately depends on the argsort's
            # tie order (C06_from_counts_tie_order_dependent_witness); relational clauses only
            chk.count("from_counts_td_tie_input")
        else:
            chk.count("equivariance_checked", alg)
            if np.array_equal(out[p], out2):
                chk.count("equivariance_bit_exact", alg)
            if not close(out[p], out2):
                k = int(np.argmax(np.where(np.isfinite(out[p] - out2), np.abs(out[p] - out2), np.inf)))
                chk.spec_violation(
                    f"equivariance:{alg}",
                    dict(case=jsonable(case, alg, perm), clause="alignment: f(perm x) != perm f(x)",
                         row=k, score=float(s[p][k]), impl_on_permuted=float(out2[k]),
                         expected=float(out[p][k]), impl=[float(x) for x in out2[:50]]))
                return
    # model
    try:
        line = model_request(alg, s, t, rec)
    except Exception as e:  # recorded kernel data unusable (e.g. a mutated code path skipped the kernel)
        chk.corr_break(alg, dict(case=jsonable(case, alg), error="no kernel record: " + repr(e)[:200]))
        return
    pending.append((alg, case, s, out, line))


def flush(chk, pending, spec_too=True):
    if not pending:
        return
    lines = []
    for alg, case, s, out, line in pending:
        lines.append(line)
        small = spec_too and len(s) <= 250 and np.isfinite(out).all()
        hi = Fraction(1) if alg in PEP_ALGS else None
        lines.append(req("spec-C06", Fraction(0), hi, F(MONO_TOL), fl(s), fl(out)) if small
                     else req("spec-C06", Fraction(0), None, Fraction(0), [], []))
    resp = common.driver_batch(lines)
    for k, (alg, case, s, out, _) in enumerate(pending):
        m = parse_model(resp[2 * k])
        sp = resp[2 * k + 1].strip()
        if sp != "ok":
            chk.spec_violation(f"{sp}:{alg}", dict(case=jsonable(case, alg), impl=[float(x) for x in out[:50]],
                                                   clause=f"spec-C06 (Lean checker) answers {sp}"))
            continue
        if isinstance(m, str):
            if m == "inf-all" and np.isinf(out).all() and (out > 0).all():
                continue
            if m == "nan-all" and np.isnan(out).all():
                continue
            chk.corr_break(alg, dict(case=jsonable(case, alg), impl=[float(x) for x in out[:50]], model=m))
        elif not close(out, m):
            k2 = int(np.argmax(np.abs(np.nan_to_num(out - m, nan=np.inf)))) if out.shape == m.shape else -1
            chk.corr_break(alg, dict(case=jsonable(case, alg), impl=[float(x) for x in out[:50]],
                                     model=[float(x) for x in m[:50]], first_diff_row=k2))
        else:
            chk.count("model_agrees", alg)
    pending.clear()


def random_perm(rng, n):
    p = list(range(n))
    rng.shuffle(p)
    return p


def run_generated(chk, n_heavy, n_light, nmax):
    rng = chk.rng
    pending = []
    plan = [("qvality", n_heavy), ("kde_nnls", n_heavy), ("hist_nnls", n_light), ("from_peps", n_light),
            ("from_counts", n_light)]
    for alg, count in plan:
        for _ in range(count):
            case = gen_case(rng, nmax if alg in ("hist_nnls", "from_peps", "from_counts") else min(nmax, 1200))
            eval_one(chk, case, alg, random_perm(rng, len(case["scores"])), pending)
            if len(pending) >= 12:
                flush(chk, pending)
    flush(chk, pending)


# ----------------------------------------------------------------------------------------------
# small-scope sweeps of the real composition code (kernels stubbed or bypassed)
# ----------------------------------------------------------------------------------------------
def sweep_primitives(chk, full):
    """np.interp and monotonize_simple against the model on all small vectors"""
    import mokapot.peps as P

    vals = [0.0, 0.5, 1.0, 2.0]
    lines, cases = [], []
    for n in range(1, 5 if full else 4):
        for x in itertools.product(vals[:3], repeat=n):
            cases.append(("runmax", x, P.monotonize_simple(np.array(x), True)))
            lines.append(req("runmax", fl(x)))
            cases.append(("runmin", x, P.monotonize_simple(np.array(x), False)))
            lines.append(req("runmin", fl(x)))
    xs = [-1.0, 0.0, 0.25, 0.5, 1.0, 1.5, 2.0, 3.0]
    for n in range(1, 5 if full else 4):
        for xp in itertools.combinations_with_replacement(vals, n):   # ascending, duplicates included
            for fp in itertools.product([0.0, 1.0, 3.0], repeat=n):
                cases.append(("interp", (xp, fp), np.interp(np.array(xs), np.array(xp), np.array(fp))))
                lines.append(req("interp", fl(xp), fl(fp), fl(xs)))
    resp = common.driver_batch(lines)
    for (op, arg, impl), r in zip(cases, resp):
        m = parse_model(r)
        chk.case(None, (op, arg))
        chk.count("sweep", op)
        if isinstance(m, str) or not close(impl, m):
            chk.corr_break(op, dict(arg=repr(arg), impl=[float(v) for v in impl], model=repr(m)))


def sweep_small(chk, nmax):
    """all score vectors over {0,1,2} and all labellings up to length nmax through the real wrapper /
    q-value code with the numeric kernels replaced by fixed functions (they are abstract parameters)"""
    import mokapot.qvalues as Q

    gtab = {0.0: 0.9, 1.0: 0.4, 2.0: 0.05}

    def stub_kernel(ts, ds):
        alls = np.sort(np.concatenate([ts, ds]))[::-1]
        return np.array([gtab[x] for x in alls.tolist()])

    pending = []
    count = 0
    for n in range(1, nmax + 1):
        for sc in itertools.product([0.0, 1.0, 2.0], repeat=n):
            for lab in itertools.product([False, True], repeat=n):
                if all(lab) or not any(lab):
                    continue
                case = dict(scores=list(sc), labels=list(lab), arr="exhaustive", gran=1, shape="exhaustive")
                s = np.array(sc)
                t = np.array(lab)
                count += 1
                # qvality wrapper with a pointwise stub kernel: the result must be g(score) row by row
                out, rec = run_impl("qvality", s, t, stub_kernel=stub_kernel)
                exp = np.array([gtab[x] for x in sc])
                chk.case(None, ("wrap", sc, lab))
                chk.count("sweep", "qvality-wrapper")
                if not np.array_equal(out, exp):
                    chk.spec_violation("alignment:qvality-wrapper",
                                       dict(case=jsonable(dict(case, stub="pointwise"), "qvality"),
                                            impl=out.tolist(), expected=exp.tolist(),
                                            clause="i-th PEP is not the kernel's value for the i-th PSM's score"))
                else:
                    pending.append(("qvality", case, s, out, model_request("qvality", s, t, rec)))
                # qvalues_from_peps with given peps (public function, kernel bypassed)
                peps = np.array([gtab[x] for x in sc])
                with np.errstate(all="ignore"):
                    q = np.asarray(Q.qvalues_from_peps(s.copy(), t.copy(), peps.copy()), dtype=float)
                chk.case(None, ("from_peps", sc, lab))
                chk.count("sweep", "qvalues_from_peps")
                v = spec_clauses("from_peps", s, q)
                if v is not None:
                    chk.spec_violation(f"{v.split(':')[0]}:from_peps",
                                       dict(case=jsonable(dict(case, stub="peps given"), "from_peps"),
                                            impl=q.tolist(), clause=v))
                else:
                    ind = [int(i) for i in np.argsort(-s)]
                    pending.append(("from_peps", case, s, q, req("frompeps", psms(s, t), fl(peps), ind)))
                # qvalues_from_counts with pi0 fixed
                try:
                    q, rec = run_impl("from_counts", s, t, stub_pi0=0.5)
                except ZeroDivisionError:
                    continue
                chk.case(None, ("from_counts", sc, lab))
                chk.count("sweep", "qvalues_from_counts")
                if np.isinf(q).all():
                    chk.reject("from_counts-top-decoy-inf")
                v = spec_clauses("from_counts", s, q)
                if v is not None:
                    chk.spec_violation(f"{v.split(':')[0]}:from_counts",
                                       dict(case=jsonable(dict(case, stub="pi0=0.5"), "from_counts"),
                                            impl=q.tolist(), clause=v))
                else:
                    pending.append(("from_counts", case, s, q, model_request("from_counts", s, t, rec)))
                if len(pending) >= 3000:
                    flush(chk, pending)
    flush(chk, pending)
    chk.extra["small_scope_sweep"] = (
        f"all score vectors over 3 values x all mixed labellings, n<={nmax}: {count} inputs through the qvality "
        "wrapper (stub pointwise kernel), qvalues_from_peps (given PEPs) and qvalues_from_counts (pi0 fixed)")


# ----------------------------------------------------------------------------------------------
# result files of assign_confidence: the PEP column is aligned with its row
# ----------------------------------------------------------------------------------------------
def result_files(chk, n_runs):
    import pandas as pd
    import mokapot
    import mkdata

    rng = chk.rng
    for r in range(n_runs):
        alg = PEP_ALGS[r % 3]
        df = mkdata.make_psm_table(rng, n_spectra=rng.choice([250, 400]), max_per_spectrum=2, n_feat=2,
                                   integer_scores=True, tie_free=rng.random() < 0.5, signal=3.0)
        with tempfile.TemporaryDirectory() as td, warnings.catch_warnings():
            warnings.simplefilter("ignore")
            td = Path(td)
            pin = mkdata.write_table(df, td / "in.pin")
            try:
                ds = mkdata.read_dataset(pin)
                scores = [df["feat0"].to_numpy(dtype=float)]
                mokapot.assign_confidence([ds], max_workers=1, scores=scores, descs=[True], prefixes=[None],
                                          dest_dir=td, decoys=True, peps_algorithm=alg, do_rollup=True)
            except BaseException as e:
                if isinstance(e, KeyboardInterrupt):
                    raise
                chk.reject(f"assign_confidence:{alg}:{type(e).__name__}")
                continue
            for level in ("psms", "peptides"):
                parts = []
                for kind in ("targets", "decoys"):
                    f = td / f"{kind}.{level}"
                    if f.exists():
                        part = pd.read_csv(f, sep="\t")
                        part["__target"] = kind == "targets"
                        parts.append(part)
                if not parts:
                    chk.reject(f"assign_confidence:no-{level}-file")
                    continue
                res = pd.concat(parts, ignore_index=True)
                sc = res["score"].to_numpy(dtype=float)
                pep = res["posterior_error_prob"].to_numpy(dtype=float)
                is_t = res["__target"].to_numpy(dtype=bool)
                chk.case(None, ("file", alg, level, r, len(res)))
                chk.count("result_file", f"{alg}:{level}")
                v = spec_clauses(alg, sc, pep)
                if v is not None:
                    chk.spec_violation(f"result-file-{v.split(':')[0]}:{alg}",
                                       dict(level=level, alg=alg, rows=len(res), clause="PEP column of the "
                                            f"{level} result file: {v}", scores=sc[:40].tolist(),
                                            impl=pep[:40].tolist()))
                    continue
                # the column must be what peps_from_scores gives for exactly these rows
                if is_t is not None and is_t.sum() >= 50 and (~is_t).sum() >= 50:
                    try:
                        ref, _ = run_impl(alg, sc, is_t)
                    except BaseException:
                        continue
                    chk.count("result_file_recomputed", f"{alg}:{level}")
                    if not close(ref, pep):
                        k = int(np.argmax(np.abs(ref - pep)))
                        chk.spec_violation(f"result-file-alignment:{alg}",
                                           dict(level=level, alg=alg, row=k, score=float(sc[k]),
                                                impl=float(pep[k]), expected=float(ref[k]),
                                                clause="PEP in the result file is not the PEP of that row's score"))


# ----------------------------------------------------------------------------------------------
def corpus_cases():
    p = common.VERIF / "harness" / "corpus" / "C06.json"
    if p.exists():
        return [from_json(d) for d in json.loads(p.read_text())]
    return []


def run_corpus(chk):
    pending = []
    for c in corpus_cases():
        algs = [c["alg"]] if c.get("alg") else PEP_ALGS + Q_ALGS
        for alg in algs:
            perm = c.get("perm") or list(range(len(c["scores"])))[::-1]
            eval_one(chk, c, alg, perm, pending)
    flush(chk, pending)


def search(chk):
    """failing-input search when a proof or the correspondence is broken"""
    run_generated(chk, 10, 150, 1500)
    if not chk.spec_violations:
        sweep_small(chk, 6)


def minimise(chk):
    """shrink the rows of the first generated violation while the same clause keeps failing"""
    if not chk.spec_violations:
        return
    sig, info = chk.spec_violations[0]
    c0 = info.get("case")
    if not c0 or "scores" not in c0 or c0.get("arr") == "exhaustive" or len(c0["scores"]) > 4000:
        return
    alg = c0["alg"]
    if alg in ("qvality", "kde_nnls"):
        return  # seconds per evaluation; the replay file carries the full input
    base = from_json(c0)
    rows = list(zip(base["scores"], base["labels"]))
    had_perm = "perm" in c0

    def fails(rs):
        sub = common.Check(chk.prop, chk.tier, chk.seed)
        c = dict(base, scores=[r[0] for r in rs], labels=[r[1] for r in rs])
        c.pop("perm", None)
        pend = []
        try:
            eval_one(sub, c, alg, list(range(len(rs)))[::-1] if had_perm else None, pend)
        except Exception:
            return False
        return any(s == sig for s, _ in sub.spec_violations)

    try:
        small = common.shrink_list(rows, fails, min_len=2)
    except Exception:
        return
    if len(small) < len(rows):
        sub = common.Check(chk.prop, chk.tier, chk.seed)
        c = dict(base, scores=[r[0] for r in small], labels=[r[1] for r in small])
        c.pop("perm", None)
        eval_one(sub, c, alg, list(range(len(small)))[::-1] if had_perm else None, [])
        for s, i in sub.spec_violations:
            if s == sig:
                chk.spec_violations[0] = (s, dict(i, shrunk_from_rows=len(rows)))
                break


def main(chk, args):
    build = common.build_and_audit("C06")
    if not build.driver_ok:
        chk.finish(build, RULE)
    run_corpus(chk)
    if chk.tier == "quick":
        sweep_primitives(chk, full=False)
        run_generated(chk, 7, 60, 1200)
        sweep_small(chk, 4)
        result_files(chk, 3)
    else:
        sweep_primitives(chk, full=True)
        run_generated(chk, 60, 600, 3000)
        sweep_small(chk, 6)
        result_files(chk, 12)
    minimise(chk)
    lc = common.leanchecker("C06") if chk.tier == "thorough" else None
    chk.assumptions += [
        "PARTIAL claim: the numeric kernels (triqler's spline + its monotonisation, scipy gaussian_kde on the "
        "linspace grid, np.histogram bin midpoints, scipy.optimize.nnls, estimate_pi0_by_slope/np.polyfit) are "
        "abstract parameters of the model; the theorems assume: NNLS solution d >= 0, evaluation grid ascending, "
        "qvality returns one value in [0,1] per PSM in descending-score order, non-decreasing, equal on equal "
        "scores, pi0 >= 0, kernels depend on the multiset of (score,label) only. These hypotheses are asserted on "
        "every real call (input_distribution['kernel_hypotheses:*'], kernel_hypothesis_violations)",
        "float64 arithmetic of cumsum / division / slope*(x-x0)+y0 is compared with the exact rational model "
        f"within {TOL} (relative+absolute); monotonicity of the real output is checked up to {MONO_TOL}; equal "
        "scores must give bit-identical values",
        "np.argsort / np.interp / np.clip / np.maximum.accumulate / np.cumsum behave as modelled (np.interp: "
        "last knot index j with xp[j] <= x, fp[j] when xp[j] == x); the tie order of np.argsort(-scores) is "
        "taken from numpy on the same array and handed to the model as its parameter",
        "from_counts: f(perm x) = perm f(x) is checked only on inputs without a target/decoy score tie (with "
        "such a tie the value of the tie group depends on the argsort tie order: "
        "C06_from_counts_tie_order_dependent_witness); if the top-ranked row is a decoy every q-value is +inf "
        "(tallied as rejected 'from_counts-top-decoy-inf')",
    ]
    chk.finish(build, RULE, search=search, lc=lc,
               trusted_extra=["triqler.qvality, scipy.stats.gaussian_kde, scipy.optimize.nnls, np.histogram, "
                              "np.polyfit (abstract kernels, hypotheses validated per call)",
                              "numpy argsort/interp/clip/cumsum/maximum.accumulate"])


def replay(chk, path):
    info = json.loads(open(path).read())
    c = info.get("case")
    if not c or "scores" not in c:
        print(json.dumps(info, indent=1)[:3000])
        return 0
    common.build_and_audit("C06")
    case = from_json(c)
    pending = []
    stub = None
    if case.get("arr") == "exhaustive":
        print("small-scope case: re-run the sweep with ./check C06 --tier thorough")
    eval_one(chk, case, c["alg"], c.get("perm"), pending, stub=stub)
    flush(chk, pending)
    for sig, i in chk.spec_violations:
        print("REPRODUCED", sig, json.dumps(i, default=str)[:1500])
    return 1 if chk.spec_violations else 0
